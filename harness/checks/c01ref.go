package checks

// C01, reference-fed part: the library CLIENT is driven by notification streams
// that the harness's reference model produces (history-keeping harness server,
// all three notations), so that the cache is judged independently of the
// library's own server: generated schemas over all column kinds, generated
// transactions incl. garbage collection and weak-reference pruning, monitors
// set up at PRNG-chosen points on table subsets; after every transaction the
// whole cache is compared with the reference database.

import (
	"sync"

	"context"
	"encoding/json"
	"fmt"
	"github.com/cenkalti/backoff/v4"
	"sort"
	"strings"
	"time"
	"verifharness/internal/ref"

	"github.com/go-logr/logr"
	"github.com/ovn-org/libovsdb/client"
	"github.com/ovn-org/libovsdb/ovsdb"
	"verifharness/internal/dyn"
	"verifharness/internal/ev"
	"verifharness/internal/gen"
	"verifharness/internal/prng"
	"verifharness/internal/tspace"
)

func c01RefFedCase(r *ev.Run, p *prng.R, batch, ci int) {
	o := tspace.Full(2 + p.Intn(2))
	o.MaxCols = 4
	o.RefBias = 30
	s := tspace.Gen(p, o)
	m, err := dyn.Build(s, nil)
	if err != nil {
		return
	}
	hs, err := newHistServer(m, fmt.Sprintf("%s/c01r-%d-%d.sock", wireScratch(), batch, ci), prng.Derive(int64(p.U64()>>1), "hist"))
	if err != nil {
		r.Inconclusive("reference server: " + err.Error())
		return
	}
	defer hs.close()
	l := logr.Discard()
	cl, err := client.NewOVSDBClient(m.Client, client.WithEndpoint("unix:"+hs.path), client.WithLogger(&l))
	if err != nil {
		r.Inconclusive("client: " + err.Error())
		return
	}
	ctx, cancel := context.WithTimeout(context.Background(), 120*time.Second)
	defer cancel()
	if err := cl.Connect(ctx); err != nil {
		r.Violation("C01/reference-fed/connect-failed/"+errClassOf(err.Error()), "Connect fails against the reference-fed server: "+err.Error(), map[string]interface{}{"schema": json.RawMessage(s.JSON())})
		return
	}
	defer cl.Close()
	g := gen.New(p, s)
	g.NoWait, g.NoSelect = true, true
	g.DanglingPct = 5
	monitored := map[string]map[string]bool{}
	var methods []string
	lastOps := ""
	wit := func() map[string]interface{} {
		return map[string]interface{}{"schema": json.RawMessage(s.JSON()), "monitor_methods": methods, "last_transaction": json.RawMessage(lastOps), "state_after": stateJSON(hs.snapshot()), "notifications": hs.lastNotes}
	}
	setup := func() bool {
		var free []*tspace.Table
		for _, t := range s.Tables {
			if monitored[t.Name] == nil {
				free = append(free, t)
			}
		}
		if len(free) == 0 {
			return true
		}
		method := []string{ovsdb.MonitorRPC, ovsdb.ConditionalMonitorRPC, ovsdb.ConditionalMonitorSinceRPC}[p.Intn(3)]
		var opts []client.MonitorOption
		n := 1 + p.Intn(len(free))
		for _, t := range free[:n] {
			opts = append(opts, client.WithTable(m.NewModel(t.Name, "", nil)))
		}
		mon := cl.NewMonitor(opts...)
		mon.Method = method
		if _, err := cl.Monitor(ctx, mon); err != nil {
			r.Violation("C01/reference-fed/monitor-failed/"+method+"/"+errClassOf(err.Error()), "Monitor fails on a legal request: "+err.Error(), wit())
			return false
		}
		methods = append(methods, method)
		for _, t := range free[:n] {
			cols := map[string]bool{}
			for _, c := range t.Cols {
				cols[c.Name] = true
			}
			monitored[t.Name] = cols
		}
		if d := cacheDiff(m, cl, hs.snapshot(), monitored); d != "" {
			r.Violation("C01/reference-fed/after-monitor-setup/"+method+"/"+cacheDiffClass(d), "after Monitor returned the cache differs from the reference database: "+d, wit())
			return false
		}
		return true
	}
	txns := r.N(24, 40)
	setupAt := map[int]bool{p.Intn(4): true, 8 + p.Intn(6): true, 16 + p.Intn(6): true}
	for ti := 0; ti < txns; ti++ {
		if setupAt[ti] && !setup() {
			return
		}
		pre := hs.snapshot()
		ops := g.Txn(pre)
		ob, _ := json.Marshal(opsJSON(ops))
		lastOps = string(ob)
		r.LogCase(fmt.Sprintf("C01 reference-fed batch=%d case=%d txn=%d schema=%s ops=%s", batch, ci, ti, s.JSON(), ob))
		if hs.apply(ops) != nil {
			continue // rejected by the reference: nothing happened
		}
		post := hs.snapshot()
		if len(monitored) == 0 {
			continue
		}
		kinds := map[string]bool{}
		for _, ch := range dbDelta(pre, post) {
			if monitored[ch.table] == nil {
				continue
			}
			switch {
			case ch.old == nil:
				kinds["insert"] = true
			case ch.new == nil:
				kinds["delete"] = true
			default:
				kinds["modify"] = true
			}
		}
		var kl []string
		for k := range kinds {
			kl = append(kl, k)
		}
		sort.Strings(kl)
		r.Eval(1)
		r.Count("reference-fed.comparisons", 1)
		if len(kl) > 0 {
			r.Distinct(fmt.Sprintf("reference-fed|%s|%s", strings.Join(methods, "+"), strings.Join(kl, "+")))
		}
		if d := cacheDiff(m, cl, post, monitored); d != "" {
			ms := append([]string{}, methods...)
			sort.Strings(ms)
			r.Violation("C01/reference-fed/cache-differs/"+strings.Join(uniq(ms), "+")+"/"+cacheDiffClass(d), "after a notification computed by the reference model the cache differs from the reference database: "+d, wit())
			return
		}
		if !cl.Connected() {
			r.Violation("C01/reference-fed/client-disconnected-by-notification", "the client dropped its connection while processing a legal notification stream", wit())
			return
		}
		if post.Rows() > 16 {
			return
		}
	}
}

// c01DeferredErrorCase: while an additional monitor is being set up, a valid
// notification for an established monitor and then an inapplicable one are
// deferred. The set-up fails on the second; no later set-up may apply the
// first a second time (set and map differences are not idempotent), and the
// cache must end up equal to the database.
func c01DeferredErrorCase(r *ev.Run, batch int, method string) {
	m, err := dyn.Build(c16Schema(), nil)
	if err != nil {
		return
	}
	p := prng.Derive(ev.Seed(), "C01deferr", batch, method)
	hs, err := newHistServer(m, fmt.Sprintf("%s/c01d-%d-%s.sock", wireScratch(), batch, method), p)
	if err != nil {
		r.Inconclusive("reference server: " + err.Error())
		return
	}
	defer hs.close()
	var rows []string
	for i := 0; i < 3; i++ {
		u := p.UUID()
		rows = append(rows, u)
		_ = hs.apply([]ref.Op{{Kind: "insert", Table: "T0", UUID: u, Row: ref.Row{"name": ref.Set(ref.Str(fmt.Sprintf("t0-%d", i))), "ports": ref.Set(ref.Str("p0")), "tags": ref.MapOf([2]ref.Atom{ref.Str("k"), ref.Str("v0")})}}})
	}
	l := logr.Discard()
	cl, err := client.NewOVSDBClient(m.Client, client.WithEndpoint("unix:"+hs.path), client.WithLogger(&l),
		client.WithReconnect(2*time.Second, backoff.NewConstantBackOff(10*time.Millisecond)))
	if err != nil {
		r.Inconclusive("client: " + err.Error())
		return
	}
	ctx, cancel := context.WithTimeout(context.Background(), 60*time.Second)
	defer cancel()
	if err := cl.Connect(ctx); err != nil {
		r.Inconclusive("connect: " + err.Error())
		return
	}
	defer cl.Close()
	mon := func(tn string) error {
		mo := cl.NewMonitor(client.WithTable(m.NewModel(tn, "", nil)))
		mo.Method = method
		mctx, mcancel := context.WithTimeout(ctx, 5*time.Second)
		defer mcancel()
		_, err := cl.Monitor(mctx, mo)
		return err
	}
	if err := mon("T0"); err != nil {
		r.Inconclusive("monitor T0: " + err.Error())
		return
	}
	step := 0
	change := func() {
		step++
		_ = hs.apply([]ref.Op{{Kind: "update", Table: "T0", Where: byUUID(rows[0]), Row: ref.Row{"n": ref.Set(ref.Int(int64(step))), "ports": ref.Set(ref.Str(fmt.Sprintf("p%d", step))), "tags": ref.MapOf([2]ref.Atom{ref.Str("k"), ref.Str(fmt.Sprintf("v%d", step))})}}})
	}
	var once sync.Once
	installClientHook()
	c16WinMu.Lock()
	c16Window = func() {
		once.Do(func() {
			change()                        // valid, deferred
			hs.injectInapplicable("Marker") // deferred too; cannot be applied
		})
	}
	c16WinMu.Unlock()
	err1 := mon("T1")
	c16WinMu.Lock()
	c16Window = nil
	c16WinMu.Unlock()
	r.Eval(1)
	r.Count("deferred-error.cases", 1)
	if err1 != nil {
		r.Count("deferred-error.setup-failed-as-expected", 1)
	}
	// further set-ups and changes
	_ = mon("T2")
	change()
	monitored := map[string]map[string]bool{"T0": {"name": true, "n": true, "tags": true, "ports": true}}
	d := ""
	for i := 0; i < 1000; i++ {
		if d = cacheDiff(m, cl, hs.snapshot(), monitored); d == "" {
			break
		}
		time.Sleep(10 * time.Millisecond)
		if i%200 == 199 {
			change() // a notification lets a rebuilt cache catch up
		}
	}
	r.Distinct("reference-fed|deferred-error|" + method)
	if d != "" {
		r.Violation("C01/reference-fed/deferred-update-after-failed-setup/"+method+"/"+cacheDiffClass(d),
			"a notification deferred during a monitor set-up that failed on a later, inapplicable notification was applied again by the next set-up (or the cache was never rebuilt): "+d,
			map[string]interface{}{"method": method, "first_setup_error": fmt.Sprint(err1)})
	}
}
