package checks

// C06 — unique indexes are enforced at commit, and only at commit.
// Oracles: (I) after every commit no two rows of a table agree on all columns
// of a schema index (scan of List); (R) a transaction whose final state (after
// garbage collection and weak pruning) contains such a pair must be rejected,
// and one whose final state is duplicate-free must not be rejected with an
// index constraint violation (transient duplicates: swaps, rotations,
// delete+insert, value freed by a garbage-collected row).

import (
	"fmt"
	"sort"
	"strings"
	"sync/atomic"

	"verifharness/internal/dyn"
	"verifharness/internal/ev"
	"verifharness/internal/gen"
	"verifharness/internal/prng"
	"verifharness/internal/ref"
	"verifharness/internal/tspace"
	"verifharness/internal/txn"
)

func init() { Register("C06", c06Parent, c06Child) }

func c06Parent(r *ev.Run) {
	r.Rule = "schemas with single- and multi-column indexes (one or two per table) over scalar columns, histories concentrated on 3-4 index values and few rows, with swaps, rotations, delete+insert of a value and values freed by garbage collection; a case is one transaction; distinct = (index layout of the tables touched, operation kinds, whether the final state holds a duplicate, whether an intermediate state does)"
	r.Assume("schema indexes range over scalar (min=max=1) integer/string/boolean/enum columns (a real column would bring +0/-0 into index values, which single- and multi-column indexes hash differently); the all-zero uuid is not used as an index value")
	r.RunBatches(ev.BatchOpts{N: r.N(16, 64)})
}

func dupIndexes(db *ref.DB) []string {
	var out []string
	for _, b := range db.CheckIntegrity() {
		if strings.HasPrefix(b, "duplicate-index") {
			out = append(out, b)
		}
	}
	return out
}

func indexLayout(s *tspace.Schema, ops []ref.Op) string {
	seen := map[string]bool{}
	var l []string
	for _, op := range ops {
		t := s.Table(op.Table)
		if t == nil || seen[t.Name] {
			continue
		}
		seen[t.Name] = true
		var idx []string
		for _, i := range t.Indexes {
			idx = append(idx, fmt.Sprint(len(i)))
		}
		l = append(l, "idx["+strings.Join(idx, ",")+"]")
	}
	sort.Strings(l)
	return strings.Join(l, ";")
}

// transientDup reports whether some intermediate state of the transaction
// (after each operation, before commit processing) holds a duplicate.
func transientDup(pre *ref.DB, ops []ref.Op) bool {
	for n := 1; n < len(ops); n++ {
		out := pre.ExecOnly(cloneOps(ops[:n]))
		if out.Failed() || out.OutOfDom != "" || out.Post == nil {
			return false
		}
		if len(dupIndexes(out.Post)) > 0 {
			return true
		}
	}
	return false
}

func c06Step(m *dyn.Model, e *txn.Engine, pre *ref.DB, ops []ref.Op, r *ev.Run) []finding {
	out := pre.Transact(cloneOps(ops))
	rep, err := e.Transact(ops, true)
	if err != nil {
		return []finding{{"C06/harness/encode", err.Error()}}
	}
	if rep.Hung {
		return []finding{{"C06/transaction-does-not-terminate", "Transact did not return"}}
	}
	if out.OutOfDom != "" {
		return nil
	}
	refDup := out.CommitErr == "constraint violation" && strings.Contains(out.CommitWhy, " index ")
	layout := indexLayout(m.S, ops)
	var kinds []string
	for _, op := range ops {
		kinds = append(kinds, op.Kind)
	}
	sort.Strings(kinds)
	if rep.Failed {
		libIdx := rep.FailErr == "constraint violation" && strings.Contains(rep.FailWhy, "identical values")
		if r != nil {
			r.Count("rejected", 1)
			if libIdx {
				r.Count("rejected_for_index", 1)
				if refDup {
					r.Count("rejected_for_index_by_both", 1)
				}
			}
			r.Distinct(fmt.Sprintf("%s|%s|final-dup=%v", layout, strings.Join(kinds, ","), refDup))
		}
		if libIdx && !out.Failed() {
			if transientDup(pre, ops) {
				return []finding{{"C06/transient-shared-index-value/duplicate-free-final-state-rejected",
					fmt.Sprintf("two rows transiently share a schema index value inside the transaction; a later operation selecting rows by that value misses one of them and the transaction is rejected (%s) although its final state holds no duplicate", rep.FailWhy)}}
			}
			return []finding{{fmt.Sprintf("C06/duplicate-free-final-state-rejected/%s/%s", layout, strings.Join(uniq(kinds), "+")),
				fmt.Sprintf("transaction rejected with an index constraint violation (%s) although its final state holds no duplicate", rep.FailWhy)}}
		}
		return nil
	}
	if rep.CommitErr != nil {
		return []finding{{"C06/commit-failed-after-success-reply/" + errClassOf(rep.CommitErr.Error()), rep.CommitErr.Error()}}
	}
	post, err := m.Snapshot(e.DB)
	if err != nil {
		return []finding{{"C06/stored-state-unreadable", err.Error()}}
	}
	var fs []finding
	if d := dupIndexes(post); len(d) > 0 {
		if len(ops) > 1 && transientDup(pre, ops) {
			fs = append(fs, finding{"C06/transient-shared-index-value/state-duplicate-index", "two rows transiently share a schema index value inside the transaction; after the commit two rows share an index value: " + d[0]})
		} else {
			fs = append(fs, finding{fmt.Sprintf("C06/state/duplicate-index/%s/%s", layout, strings.Join(uniq(kinds), "+")), "after a commit two rows share an index value: " + d[0]})
		}
	} else if refDup {
		if len(ops) > 1 && transientDup(pre, ops) {
			fs = append(fs, finding{"C06/transient-shared-index-value/accepted-duplicate", "two rows transiently share a schema index value inside the transaction; a later operation selecting rows by that value misses one of them, so the database commits a different (duplicate-free) state than the one the operations prescribe: " + out.CommitWhy})
		} else {
			fs = append(fs, finding{fmt.Sprintf("C06/accepted-duplicate/%s/%s", layout, strings.Join(uniq(kinds), "+")), "accepted a transaction whose final state holds a duplicate: " + out.CommitWhy})
		}
	}
	if r != nil {
		r.Count("committed", 1)
		td := len(ops) > 1 && transientDup(pre, ops)
		if td {
			r.Count("committed_with_transient_duplicate", 1)
		}
		r.Distinct(fmt.Sprintf("%s|%s|final-dup=false|transient=%v", layout, strings.Join(kinds, ","), td))
	}
	return fs
}

func byUUID(u string) []ref.Cond {
	return []ref.Cond{{Col: "_uuid", Fn: "==", Val: ref.Set(ref.UUID(u))}}
}

var c06GCHandOvers int64

// indexedTxn builds the hand-over patterns on an indexed table.
func indexedTxn(p *prng.R, g *gen.G, s *tspace.Schema, db *ref.DB) []ref.Op {
	var cands []*tspace.Table
	for _, t := range s.Tables {
		if len(t.Indexes) > 0 && len(db.T[t.Name]) >= 2 {
			cands = append(cands, t)
		}
	}
	if len(cands) == 0 {
		return nil
	}
	t := cands[p.Intn(len(cands))]
	us := dyn.SortedUUIDs(db.T[t.Name])
	perm := p.Perm(len(us))
	a, b := us[perm[0]], us[perm[1]]
	idx := t.Indexes[p.Intn(len(t.Indexes))]
	vals := func(u string) ref.Row {
		r := ref.Row{}
		for _, cn := range idx {
			r[cn] = db.T[t.Name][u][cn]
		}
		return r
	}
	fresh := func() ref.Row {
		r := ref.Row{}
		for _, cn := range idx {
			r[cn] = g.Value(t.Col(cn), db, nil)
			if cn == "name" {
				r[cn] = g.Name()
			}
		}
		return r
	}
	for _, cn := range idx {
		if t.Col(cn).Immutable {
			return nil
		}
	}
	pat := p.Intn(6)
	// A non-root row X of an indexed table is looked at or changed by the transaction,
	// loses its last strong referrer in the same transaction (garbage collection) and
	// another row takes over its index values: the final state has no duplicate.
	if !s.RootSet(t.Name) && p.Chance(1, 2) {
		type holder struct{ table, uuid, col string }
		var hs []holder
		x := a
		for _, ht := range s.Tables {
			for hu, hr := range db.T[ht.Name] {
				for _, hc := range ht.Cols {
					strong := (hc.Key.IsStrong() && hc.Key.RefTable == t.Name) || (hc.Val != nil && hc.Val.IsStrong() && hc.Val.RefTable == t.Name)
					if !strong {
						continue
					}
					d := hr[hc.Name]
					found := d.Has(ref.UUID(x))
					for _, v := range d.V {
						if v == ref.UUID(x) {
							found = true
						}
					}
					if found {
						hs = append(hs, holder{ht.Name, hu, hc.Name})
					}
				}
			}
		}
		if len(hs) == 1 && !(hs[0].table == t.Name && hs[0].uuid == x) {
			hc := s.Table(hs[0].table).Col(hs[0].col)
			if !hc.Immutable && hc.Min == 0 {
				var ops []ref.Op
				switch p.Intn(3) {
				case 0:
					ops = append(ops, ref.Op{Kind: "select", Table: t.Name, Where: byUUID(x)})
				case 1:
					for _, c := range t.Cols {
						if !c.Immutable && !c.Key.IsRef() && (c.Val == nil || !c.Val.IsRef()) && c.Name != "name" {
							ops = append(ops, ref.Op{Kind: "update", Table: t.Name, Where: byUUID(x), Row: ref.Row{c.Name: g.Value(c, db, nil)}})
							break
						}
					}
				}
				empty := ref.Datum{Map: hc.IsMap()}
				ops = append(ops, ref.Op{Kind: "update", Table: hs[0].table, Where: byUUID(hs[0].uuid), Row: ref.Row{hs[0].col: empty}})
				row := db.T[t.Name][x].Clone()
				for _, c := range t.Cols {
					if c.Key.IsRef() || (c.Val != nil && c.Val.IsRef()) {
						delete(row, c.Name)
					}
				}
				// the successor must itself be referenced (same holder column) or it is collected too
				nu := p.UUID()
				ops = append(ops, ref.Op{Kind: "insert", Table: t.Name, UUID: nu, UUIDName: "successor", Row: row})
				succ := ref.Set(ref.UUID("successor"))
				if hc.IsMap() {
					if hc.Key.IsRef() {
						succ = ref.Datum{Map: true}.WithPair(ref.UUID("successor"), g.Atom(*hc.Val, db, nil))
					} else {
						succ = ref.Datum{Map: true}.WithPair(g.Atom(hc.Key, db, nil), ref.UUID("successor"))
					}
				}
				ops = append(ops, ref.Op{Kind: "update", Table: hs[0].table, Where: byUUID(hs[0].uuid), Row: ref.Row{hs[0].col: succ}})
				atomic.AddInt64(&c06GCHandOvers, 1)
				return ops
			}
		}
	}
	if len(t.Indexes) >= 2 && len(us) >= 2 && p.Chance(1, 2) {
		// two indexes: a row is removed and another row (new or existing) takes over its
		// value on one index while its value on the OTHER index collides with an untouched
		// row (must be rejected) or is fresh (must be accepted)
		i1 := p.Intn(len(t.Indexes))
		i2 := (i1 + 1 + p.Intn(len(t.Indexes)-1)) % len(t.Indexes)
		for _, ix := range [][]string{t.Indexes[i1], t.Indexes[i2]} {
			for _, cn := range ix {
				if t.Col(cn).Immutable {
					return nil
				}
			}
		}
		c := b
		row := ref.Row{}
		for _, cn := range t.Indexes[i1] {
			row[cn] = db.T[t.Name][a][cn]
		}
		collide := p.Bool()
		for _, cn := range t.Indexes[i2] {
			if _, set := row[cn]; set {
				continue // column shared by both indexes
			}
			if collide {
				row[cn] = db.T[t.Name][c][cn]
			} else {
				row[cn] = g.Value(t.Col(cn), db, nil)
				if cn == "name" {
					row[cn] = g.Name()
				}
			}
		}
		del := ref.Op{Kind: "delete", Table: t.Name, Where: byUUID(a)}
		var take ref.Op
		if len(us) >= 3 && p.Bool() {
			take = ref.Op{Kind: "update", Table: t.Name, Where: byUUID(us[perm[2]]), Row: row}
		} else {
			full := db.T[t.Name][a].Clone()
			for _, col := range t.Cols {
				if col.Key.IsRef() || (col.Val != nil && col.Val.IsRef()) {
					delete(full, col.Name)
				}
			}
			for cn, d := range row {
				full[cn] = d
			}
			take = ref.Op{Kind: "insert", Table: t.Name, UUID: p.UUID(), Row: full}
		}
		if p.Bool() {
			return []ref.Op{take, del}
		}
		return []ref.Op{del, take}
	}
	switch pat {
	case 0: // swap
		return []ref.Op{{Kind: "update", Table: t.Name, Where: byUUID(a), Row: vals(b)}, {Kind: "update", Table: t.Name, Where: byUUID(b), Row: vals(a)}}
	case 1: // rotation among three
		if len(us) >= 3 {
			c := us[perm[2]]
			return []ref.Op{{Kind: "update", Table: t.Name, Where: byUUID(a), Row: vals(b)}, {Kind: "update", Table: t.Name, Where: byUUID(b), Row: vals(c)}, {Kind: "update", Table: t.Name, Where: byUUID(c), Row: vals(a)}}
		}
		fallthrough
	case 2: // a takes b's value, b takes a fresh one (either order)
		ops := []ref.Op{{Kind: "update", Table: t.Name, Where: byUUID(a), Row: vals(b)}, {Kind: "update", Table: t.Name, Where: byUUID(b), Row: fresh()}}
		if p.Bool() {
			ops[0], ops[1] = ops[1], ops[0]
		}
		return ops
	case 3: // delete + insert of the same value under another uuid (either order)
		row := db.T[t.Name][a].Clone()
		for _, c := range t.Cols {
			if c.Key.IsRef() || (c.Val != nil && c.Val.IsRef()) {
				delete(row, c.Name)
			}
		}
		ops := []ref.Op{{Kind: "delete", Table: t.Name, Where: byUUID(a)}, {Kind: "insert", Table: t.Name, UUID: p.UUID(), Row: row}}
		if p.Bool() {
			ops[0], ops[1] = ops[1], ops[0]
		}
		return ops
	case 4: // plain collision: a takes b's value and nothing else changes
		return []ref.Op{{Kind: "update", Table: t.Name, Where: byUUID(a), Row: vals(b)}}
	default: // everybody moves to one value, then all but one move away again
		v := fresh()
		ops := []ref.Op{{Kind: "update", Table: t.Name, Row: v}}
		for i, u := range us {
			if i == 0 && p.Bool() {
				continue
			}
			ops = append(ops, ref.Op{Kind: "update", Table: t.Name, Where: byUUID(u), Row: fresh()})
		}
		return ops
	}
}

func c06Child(r *ev.Run, batch int) {
	defer func() { r.Count("gc_hand_over_transactions", int(atomic.LoadInt64(&c06GCHandOvers))) }()
	schemas := r.N(4, 100)
	txns := r.N(150, 400)
	for si := 0; si < schemas; si++ {
		p := prng.Derive(r.Seed, "C06", batch, si)
		o := tspace.Full(1 + p.Intn(3))
		o.MaxCols = 3
		o.RefBias = 20
		o.FewTypes = p.Bool()
		s := tspace.Gen(p, o)
		gcFamily := si%4 == 3 // directed: indexes on a non-root table under garbage collection
		if gcFamily {
			s = c06GCSchema(p)
		}
		// make sure indexes exist and range over scalar columns only
		for _, t := range s.Tables {
			if gcFamily {
				break
			}
			var scalars []string
			for _, c := range t.Cols {
				if c.IsScalar() && !c.Key.IsRef() && c.Key.Type != "uuid" && c.Key.Type != "real" && c.Name != "name" && !c.Ephemeral {
					scalars = append(scalars, c.Name)
				}
			}
			switch {
			case len(scalars) > 0 && p.Chance(1, 3):
				t.Indexes = [][]string{{"name"}, {scalars[p.Intn(len(scalars))]}}
			case len(scalars) > 0 && p.Chance(1, 3):
				t.Indexes = [][]string{{"name", scalars[p.Intn(len(scalars))]}}
			default:
				t.Indexes = [][]string{{"name"}}
			}
		}
		m, err := dyn.Build(s, nil)
		if err != nil {
			r.Violation("C06/harness/model-build", err.Error(), map[string]interface{}{"schema": string(s.JSON())})
			continue
		}
		e, err := txn.New(m)
		if err != nil {
			continue
		}
		g := gen.New(p, s)
		g.NoWait, g.NoSelect = true, true
		g.NamePool = 4
		pre := ref.NewDB(s)
		var hist [][]ref.Op
		judge := func(pre *ref.DB, ops []ref.Op) []finding {
			e2, err := loadState(m, pre)
			if err != nil {
				return nil
			}
			return c06Step(m, e2, pre, ops, nil)
		}
		restart := func() bool {
			var err error
			if e, err = txn.New(m); err != nil {
				return false
			}
			pre = ref.NewDB(s)
			hist = nil
			return true
		}
		for ti := 0; ti < txns; ti++ {
			var ops []ref.Op
			if gcFamily && ti%4 != 0 {
				ops = c06GCTxn(p, s, pre)
			} else if ti%3 != 0 {
				ops = indexedTxn(p, g, s, pre)
			}
			if ops == nil {
				ops = g.Txn(pre)
			}
			r.LogCase(fmt.Sprintf("C06 batch=%d schema=%d txn=%d schema=%s ops=%v", batch, si, ti, s.JSON(), opsJSON(ops)))
			r.Eval(1)
			fs := c06Step(m, e, pre, ops, r)
			if len(fs) > 0 {
				if strings.Contains(fs[0].Sig, "does-not-terminate") {
					report(r, m, pre, ops, fs, nil, hist)
					return
				}
				report(r, m, pre, ops, fs, judge, hist)
			}
			hist = append(hist, cloneOps(ops))
			if r.NeedSample() && len(ops) > 1 {
				r.Sample(map[string]interface{}{"schema": string(s.JSON()), "transaction": opsJSON(ops)})
			}
			post, err := m.Snapshot(e.DB)
			if err != nil || len(post.CheckIntegrity()) > 0 || post.Rows() > 12 {
				if !restart() {
					break
				}
				continue
			}
			pre = post
		}
	}
}
