package checks

// C19 — no input can crash the library.
// (a) every exported wire type decodes structurally corrupted encodings under
// recover(); (b) the in-memory database executes corrupted operation lists
// under recover() and must keep answering; (c) raw JSON-RPC transact requests
// go to a real server running in its own process, each followed by an echo: a
// dead server or a failed echo is the violation. Oracle S: no panic, no
// process death. (thorough adds native coverage-guided fuzzing of the decoders)

import (
	"encoding/json"
	"fmt"
	"os"
	"os/exec"
	"path/filepath"
	"reflect"
	"runtime/debug"
	"strconv"
	"strings"
	"time"

	"github.com/ovn-org/libovsdb/ovsdb"
	"verifharness/internal/dyn"
	"verifharness/internal/ev"
	"verifharness/internal/gen"
	"verifharness/internal/peer"
	"verifharness/internal/prng"
	"verifharness/internal/ref"
	"verifharness/internal/tspace"
	"verifharness/internal/txn"
)

func init() { Register("C19", c19Parent, c19Child) }

func c19Parent(r *ev.Run) {
	r.Rule = "PRNG-determined structural corruption (drop / duplicate / retype members, [], [tag], [tag,non-array], unhashable map keys, wrong arity, out-of-domain numbers, deep nesting) of valid encodings of every wire type, decoded into every target type; corrupted operation lists executed by the in-memory database; raw transact requests to a server process followed by echo; a case is one input; distinct = (target, input text)"
	r.Assume("inputs are syntactically valid JSON (the JSON-RPC layer rejects anything else before the library sees it)")
	n := r.N(12, 48)
	r.RunBatches(ev.BatchOpts{N: n, Timeout: 30 * time.Minute})
	if !r.Quick() {
		c19Fuzz(r)
	}
}

// ---- corruption of JSON trees ------------------------------------------------------

var c19Weird = []string{`[]`, `["uuid"]`, `["named-uuid"]`, `["set"]`, `["map"]`, `["set",1]`, `["map",1]`, `["set",null]`, `["map",[[{"a":1},1]]]`, `["map",[[["set",[1,2]],1]]]`,
	`["map",[1]]`, `["map",[[1]]]`, `["map",[[]]]`, `["uuid",1]`, `["uuid",null]`, `["set",[["uuid"]]]`, `["set",[[]]]`, `[[]]`, `{}`, `null`, `1e400`, `-1`, `9223372036854775808`, `1.5`, `""`, `"unlimited"`,
	`["set",[["map",[]]]]`, `[1,2,3,4]`, `["x","y","z"]`, `[null,null,null]`, `true`, `["set",[1,"a",true]]`, `["map",[["k","v","w"]]]`, `{"type":"integer","enum":[]}`, `{"type":"string","enum":["set"]}`, `{"key":null}`, `{"type":null}`}

type jnode struct {
	parent interface{}
	key    interface{} // string (object) or int (array)
}

// corrupt applies n random structural corruptions to a parsed JSON value.
func corrupt(p *prng.R, v interface{}, n int) interface{} {
	for i := 0; i < n; i++ {
		v = corruptOnce(p, v)
	}
	return v
}

func weird(p *prng.R) interface{} {
	var v interface{}
	_ = json.Unmarshal([]byte(c19Weird[p.Intn(len(c19Weird))]), &v)
	return v
}

func corruptOnce(p *prng.R, root interface{}) interface{} {
	// collect nodes
	var nodes []jnode
	var walk func(v interface{})
	walk = func(v interface{}) {
		switch x := v.(type) {
		case map[string]interface{}:
			for k := range x {
				nodes = append(nodes, jnode{x, k})
			}
			for _, e := range x {
				walk(e)
			}
		case []interface{}:
			for i := range x {
				nodes = append(nodes, jnode{x, i})
			}
			for _, e := range x {
				walk(e)
			}
		}
	}
	walk(root)
	if len(nodes) == 0 || p.Chance(1, 12) {
		return weird(p)
	}
	// deterministic order of object members
	n := nodes[p.Intn(len(nodes))]
	action := p.Intn(7)
	switch parent := n.parent.(type) {
	case map[string]interface{}:
		keys := make([]string, 0, len(parent))
		for k := range parent {
			keys = append(keys, k)
		}
		sortStrings(keys)
		k := keys[p.Intn(len(keys))]
		switch action {
		case 0, 1:
			delete(parent, k)
		case 2:
			parent[k] = weird(p)
		case 3:
			parent[k] = []interface{}{parent[k]}
		case 4:
			parent[k+"_x"] = parent[k]
		case 5:
			parent[k] = nil
		default:
			parent[k] = retype(p, parent[k])
		}
	case []interface{}:
		i := n.key.(int)
		if i >= len(parent) {
			return root
		}
		switch action {
		case 0:
			parent[i] = weird(p)
		case 1:
			parent[i] = retype(p, parent[i])
		case 2:
			parent[i] = []interface{}{}
		case 3:
			parent[i] = nil
		case 4:
			if i > 0 {
				parent[i], parent[i-1] = parent[i-1], parent[i]
			} else {
				parent[i] = weird(p)
			}
		default:
			// arrays cannot be resized in place: rebuild the whole tree with a truncated / extended copy
			return rebuild(root, parent, p)
		}
	}
	return root
}

func retype(p *prng.R, v interface{}) interface{} {
	switch v.(type) {
	case string:
		return []interface{}{1.0, true, nil, []interface{}{}, map[string]interface{}{}}[p.Intn(5)]
	case float64:
		return []interface{}{"1", true, -1.0, 1.5, 1e300, []interface{}{"set", []interface{}{}}}[p.Intn(6)]
	case bool:
		return []interface{}{"true", 1.0, nil}[p.Intn(3)]
	case []interface{}:
		return []interface{}{"x", 1.0, map[string]interface{}{}, nil}[p.Intn(4)]
	case map[string]interface{}:
		return []interface{}{"x", 1.0, []interface{}{}, nil}[p.Intn(4)]
	}
	return "x"
}

func rebuild(root interface{}, target []interface{}, p *prng.R) interface{} {
	var rec func(v interface{}) interface{}
	done := false
	rec = func(v interface{}) interface{} {
		switch x := v.(type) {
		case map[string]interface{}:
			for k, e := range x {
				x[k] = rec(e)
			}
			return x
		case []interface{}:
			if !done && len(x) == len(target) && len(x) > 0 && &x[0] == &target[0] {
				done = true
				switch p.Intn(3) {
				case 0:
					return x[:len(x)-1]
				case 1:
					return append(append([]interface{}{}, x...), x[len(x)-1])
				default:
					return x[:1]
				}
			}
			for i, e := range x {
				x[i] = rec(e)
			}
			return x
		}
		return v
	}
	return rec(root)
}

func sortStrings(l []string) {
	for i := 1; i < len(l); i++ {
		for j := i; j > 0 && l[j] < l[j-1]; j-- {
			l[j], l[j-1] = l[j-1], l[j]
		}
	}
}

// ---- decoder targets ------------------------------------------------------------------

type target struct {
	name string
	new  func() interface{}
}

var c19Targets = []target{
	{"OvsSet", func() interface{} { return &ovsdb.OvsSet{} }},
	{"OvsMap", func() interface{} { return &ovsdb.OvsMap{} }},
	{"UUID", func() interface{} { return &ovsdb.UUID{} }},
	{"Row", func() interface{} { return &ovsdb.Row{} }},
	{"Condition", func() interface{} { return &ovsdb.Condition{} }},
	{"Mutation", func() interface{} { return &ovsdb.Mutation{} }},
	{"Operation", func() interface{} { return &ovsdb.Operation{} }},
	{"TableUpdates", func() interface{} { return &ovsdb.TableUpdates{} }},
	{"TableUpdates2", func() interface{} { return &ovsdb.TableUpdates2{} }},
	{"RowUpdate", func() interface{} { return &ovsdb.RowUpdate{} }},
	{"RowUpdate2", func() interface{} { return &ovsdb.RowUpdate2{} }},
	{"MonitorRequest", func() interface{} { return &ovsdb.MonitorRequest{} }},
	{"MonitorSelect", func() interface{} { return &ovsdb.MonitorSelect{} }},
	{"MonitorCondSinceReply", func() interface{} { return &ovsdb.MonitorCondSinceReply{} }},
	{"OperationResult", func() interface{} { return &ovsdb.OperationResult{} }},
	{"TransactResponse", func() interface{} { return &ovsdb.TransactResponse{} }},
	{"BaseType", func() interface{} { return &ovsdb.BaseType{} }},
	{"ColumnType", func() interface{} { return &ovsdb.ColumnType{} }},
	{"ColumnSchema", func() interface{} { return &ovsdb.ColumnSchema{} }},
	{"TableSchema", func() interface{} { return &ovsdb.TableSchema{} }},
	{"DatabaseSchema", func() interface{} { return &ovsdb.DatabaseSchema{} }},
}

// validEncodings returns valid JSON documents of every wire type (the seeds).
func validEncodings(p *prng.R) [][]byte {
	g := wgen{p}
	var out [][]byte
	add := func(v interface{}) {
		if b, err := json.Marshal(v); err == nil {
			out = append(out, b)
		}
	}
	add(g.set(p.Intn(6)))
	add(g.omap(p.Intn(5), p.Intn(6), false))
	add(g.omap(3, 4, true))
	add(g.atom(4))
	add(g.atom(5))
	add(g.row())
	add(g.cond())
	add(g.mut())
	add(g.op())
	add(g.op())
	add(g.tu())
	add(g.tu2())
	add(ovsdb.MonitorRequest{Columns: []string{"a"}, Where: []ovsdb.Condition{g.cond()}, Select: g.msel()})
	add(ovsdb.MonitorCondSinceReply{Found: true, LastTransactionID: p.UUID(), Updates: g.tu2()})
	add(ovsdb.OperationResult{Count: 1, Rows: []ovsdb.Row{g.row()}, UUID: ovsdb.UUID{GoUUID: p.UUID()}})
	s := tspace.Gen(p, tspace.Full(1+p.Intn(2)))
	out = append(out, s.JSON())
	var sj map[string]interface{}
	_ = json.Unmarshal(s.JSON(), &sj)
	for _, t := range sj["tables"].(map[string]interface{}) {
		add(t)
		for _, c := range t.(map[string]interface{})["columns"].(map[string]interface{}) {
			add(c)
			add(c.(map[string]interface{})["type"])
			if tm, ok := c.(map[string]interface{})["type"].(map[string]interface{}); ok {
				add(tm["key"])
			}
		}
		break
	}
	return out
}

func decodeOne(r *ev.Run, tg target, input []byte) {
	defer func() {
		if pv := recover(); pv != nil {
			sig := "C19/decode/" + ev.PanicSignature(fmt.Sprint(pv), string(debug.Stack()))
			r.Violation(sig, fmt.Sprintf("json.Unmarshal into ovsdb.%s panicked: %v", tg.name, pv), map[string]interface{}{"target": tg.name, "input": string(input)})
		}
	}()
	v := tg.new()
	_ = json.Unmarshal(input, v)
}

func c19Decoders(r *ev.Run, batch int) {
	n := r.N(500, 30000)
	for i := 0; i < n; i++ {
		p := prng.Derive(r.Seed, "C19dec", batch, i)
		seeds := validEncodings(p)
		for _, sd := range seeds {
			var v interface{}
			if json.Unmarshal(sd, &v) != nil {
				continue
			}
			cv := corrupt(p, v, 1+p.Intn(3))
			input, err := json.Marshal(cv)
			if err != nil {
				continue
			}
			// the corrupted document goes to a few targets, the natural one included
			for k := 0; k < 3; k++ {
				tg := c19Targets[p.Intn(len(c19Targets))]
				r.Eval(1)
				r.Count("decode."+tg.name, 1)
				r.Distinct(tg.name + string(input))
				r.LogCase(fmt.Sprintf("C19 decode target=%s input=%s", tg.name, input))
				decodeOne(r, tg, input)
			}
			if r.NeedSample() {
				r.Sample(map[string]interface{}{"kind": "decoder input", "input": trunc(string(input), 300)})
			}
		}
		// the fixed list of degenerate documents goes to every target
		if i == 0 {
			for _, w := range c19Weird {
				for _, tg := range c19Targets {
					r.Eval(1)
					r.Distinct(tg.name + w)
					r.LogCase(fmt.Sprintf("C19 decode target=%s input=%s", tg.name, w))
					decodeOne(r, tg, []byte(w))
				}
			}
		}
	}
}

// ---- database ---------------------------------------------------------------------------

func c19Schema(p *prng.R) *tspace.Schema {
	o := tspace.Full(2)
	o.MaxCols = 5
	return tspace.Gen(p, o)
}

// corruptOps produces a corrupted, still decodable operation list.
// c19MatrixN walks the mutator x argument matrix (per process: a child is single-threaded here).
var c19MatrixN int

func corruptOps(p *prng.R, m *dyn.Model, g *gen.G, db *ref.DB) ([]ovsdb.Operation, []byte) {
	ops := g.Txn(db)
	wire, err := m.WireOps(ops)
	if err != nil {
		return nil, nil
	}
	// hand-made degenerate operations
	t := m.S.Tables[p.Intn(len(m.S.Tables))]
	extra := []string{
		`{"op":"commit"}`, `{"op":"comment"}`, `{"op":"assert"}`, `{"op":"abort"}`, `{"op":"wait","table":"` + t.Name + `"}`,
		`{"op":"wait","table":"` + t.Name + `","timeout":0,"until":"==","columns":["nope"],"rows":[{}]}`,
		`{"op":"insert"}`, `{"op":"insert","table":"` + t.Name + `"}`, `{"op":"update","table":"` + t.Name + `"}`, `{"op":"mutate","table":"` + t.Name + `"}`,
		`{"op":"delete","table":"` + t.Name + `"}`, `{"op":"select"}`, `{"op":""}`, `{}`,
		`{"op":"mutate","table":"` + t.Name + `","where":[],"mutations":[["name","insert","x"]]}`,
		`{"op":"mutate","table":"` + t.Name + `","where":[],"mutations":[["_uuid","delete",["uuid","` + p.UUID() + `"]]]}`,
		`{"op":"update","table":"` + t.Name + `","where":[["_uuid","==","notauuid"]],"row":{"name":"x"}}`,
		`{"op":"select","table":"` + t.Name + `","where":[["_uuid","<",1]]}`,
		`{"op":"select","table":"` + t.Name + `","where":[["name","includes",["set",[]]]]}`,
		`{"op":"insert","table":"` + t.Name + `","row":{"_uuid":["uuid","` + p.UUID() + `"]},"uuid":"x"}`,
		`{"op":"insert","table":"` + t.Name + `","row":{"name":["set",[]]}}`,
		`{"op":"insert","table":"` + t.Name + `","row":{"name":["map",[]]}}`,
		`{"op":"commit","durable":true}`, `{"op":"comment","comment":"x"}`, `{"op":"assert","lock":"l"}`,
	}
	// every mutator and every condition function with every argument shape, on random columns
	// (well-typed or not; "where": [] lets the mutation reach the rows that exist)
	args := []string{`1`, `-1`, `0`, `1.5`, `"x"`, `true`, `["set",[]]`, `["set",[1]]`, `["set",[1,2]]`, `["set",["a","b"]]`, `["map",[]]`, `["map",[["a","b"]]]`, `["map",[[1,2]]]`,
		`["uuid","` + p.UUID() + `"]`, `["named-uuid","nn"]`, `["set",[["uuid","` + p.UUID() + `"]]]`, `null`, `[]`, `{}`, `["set",[["set",[]]]]`}
	muts := []string{"+=", "-=", "*=", "/=", "%=", "insert", "delete", "bogus"}
	fns := []string{"==", "!=", "<", "<=", ">", ">=", "includes", "excludes", "bogus"}
	var matrix []string
	for k := 0; k < 2; k++ {
		cn := t.Cols[p.Intn(len(t.Cols))].Name
		if p.Chance(1, 3) {
			// pseudo columns and columns the schema does not have, in every position
			cn = []string{"_uuid", "_version", "no_such_column", ""}[p.Intn(4)]
		}
		// (mutator, argument) and (function, argument) pairs are walked through in order, so
		// that a child meets every pair several times, each time on another column
		c19MatrixN++
		arg := args[(c19MatrixN/len(muts))%len(args)]
		matrix = append(matrix, `{"op":"mutate","table":"`+t.Name+`","where":[],"mutations":[["`+cn+`","`+muts[c19MatrixN%len(muts)]+`",`+arg+`]]}`)
		matrix = append(matrix, `{"op":"select","table":"`+t.Name+`","where":[["`+cn+`","`+fns[c19MatrixN%len(fns)]+`",`+args[(c19MatrixN/len(fns))%len(args)]+`]]}`)
		switch p.Intn(6) {
		case 0:
			matrix = append(matrix, `{"op":"delete","table":"`+t.Name+`","where":[["`+cn+`","`+fns[p.Intn(len(fns))]+`",`+arg+`]]}`)
		case 1:
			matrix = append(matrix, `{"op":"update","table":"`+t.Name+`","where":[],"row":{"`+cn+`":`+arg+`}}`)
		case 2:
			matrix = append(matrix, `{"op":"insert","table":"`+t.Name+`","row":{"`+cn+`":`+arg+`}}`)
		case 3:
			matrix = append(matrix, `{"op":"wait","timeout":0,"table":"`+t.Name+`","where":[["`+cn+`","==",`+arg+`]],"columns":["`+cn+`"],"until":"`+[]string{"==", "!=", "bogus"}[p.Intn(3)]+`","rows":[{"`+cn+`":`+arg+`}]}`)
		case 4:
			matrix = append(matrix, `{"op":"select","table":"`+t.Name+`","where":[],"columns":["`+cn+`","`+cn+`"]}`)
		}
	}
	b, _ := json.Marshal(wire)
	var tree interface{}
	_ = json.Unmarshal(b, &tree)
	if p.Chance(2, 3) {
		tree = corrupt(p, tree, 1+p.Intn(3))
	}
	arr, ok := tree.([]interface{})
	if !ok {
		arr = []interface{}{tree}
	}
	for k := p.Intn(3); k > 0; k-- {
		var e interface{}
		_ = json.Unmarshal([]byte(extra[p.Intn(len(extra))]), &e)
		pos := p.Intn(len(arr) + 1)
		arr = append(arr[:pos], append([]interface{}{e}, arr[pos:]...)...)
	}
	if p.Bool() {
		// one operation of the mutator / condition matrix, at the end: the operations before
		// it have filled the table
		var e interface{}
		_ = json.Unmarshal([]byte(matrix[p.Intn(len(matrix))]), &e)
		arr = append(arr, e)
		if p.Chance(1, 4) {
			// ... or on its own: no other operation (no named insert) shares the transaction
			arr = []interface{}{e}
		}
	}
	if p.Chance(1, 30) {
		arr = []interface{}{}
	}
	// a wait without timeout blocks (by design it waits for another
	// transaction): keep at most a few of them, each costs a hang limit
	for i, e := range arr {
		if m, ok := e.(map[string]interface{}); ok && m["op"] == "wait" {
			if t, has := m["timeout"]; !has || t == nil {
				if p.Chance(49, 50) {
					m["timeout"] = 0.0
					arr[i] = m
				}
			}
		}
	}
	text, _ := json.Marshal(arr)
	var out []ovsdb.Operation
	for _, e := range arr {
		eb, _ := json.Marshal(e)
		var op ovsdb.Operation
		if safeDecode(eb, &op) != nil {
			return nil, text // undecodable: the server would refuse the request
		}
		out = append(out, op)
	}
	return out, text
}

func safeDecode(b []byte, v interface{}) (err error) {
	defer func() {
		if p := recover(); p != nil {
			err = fmt.Errorf("panic: %v", p)
		}
	}()
	return json.Unmarshal(b, v)
}

func c19Database(r *ev.Run, batch int) {
	rounds := r.N(8, 60)
	per := r.N(300, 1500)
	for ri := 0; ri < rounds; ri++ {
		p := prng.Derive(r.Seed, "C19db", batch, ri)
		s := c19Schema(p)
		m, err := dyn.Build(s, nil)
		if err != nil {
			continue
		}
		e, err := txn.New(m)
		if err != nil {
			continue
		}
		g := gen.New(p, s)
		g.DanglingPct = 10
		pre := ref.NewDB(s)
		for i := 0; i < per; i++ {
			ops, text := corruptOps(p, m, g, pre)
			if ops == nil && text == nil {
				continue
			}
			r.Eval(1)
			r.Distinct("db" + string(text))
			r.LogCase(fmt.Sprintf("C19 database schema=%s ops=%s", s.JSON(), text))
			if ops == nil {
				r.Count("db.undecodable_request", 1)
				continue
			}
			died := false
			func() {
				defer func() {
					if pv := recover(); pv != nil {
						died = true
						msg := fmt.Sprint(pv)
						sig := "C19/database/" + ev.PanicSignature(msg, msg)
						r.Violation(sig, "Transaction.Transact panicked: "+trunc(strings.SplitN(msg, "\n", 2)[0], 200), map[string]interface{}{"schema": json.RawMessage(s.JSON()), "ops": json.RawMessage(text)})
					}
				}()
				rep := e.TransactWire(ops, true)
				if rep.Hung {
					died = true
					sig := "C19/database/transaction-does-not-terminate"
					for _, op := range ops {
						if op.Op == "wait" && op.Timeout == nil {
							sig = "C19/database/wait-without-timeout-never-returns"
						}
					}
					r.Violation(sig, "Transact did not return", map[string]interface{}{"schema": json.RawMessage(s.JSON()), "ops": json.RawMessage(text)})
				}
				if rep.Failed {
					r.Count("db.error_result", 1)
				} else {
					r.Count("db.success", 1)
				}
				if len(ops) > 0 && len(rep.Results) == 0 && !rep.Hung && rep.CommitErr != nil {
					// the server's transact handler answered with an RPC error (it could not
					// decode an operation): an answer, and the database was not touched
					r.Count("db.rpc_error_reply", 1)
				} else if len(ops) > 0 && len(rep.Results) == 0 && !rep.Hung {
					r.Violation("C19/database/no-results", "no result at all for a non-empty operation list", map[string]interface{}{"ops": json.RawMessage(text)})
				}
			}()
			// keeps serving afterwards
			func() {
				defer func() {
					if pv := recover(); pv != nil {
						died = true
						r.Violation("C19/database/unusable-after-request/"+ev.PanicSignature(fmt.Sprint(pv), fmt.Sprint(pv)), "the database panics on a plain select after the request", map[string]interface{}{"ops": json.RawMessage(text)})
					}
				}()
				if died {
					return
				}
				rep := e.TransactWire([]ovsdb.Operation{{Op: "select", Table: s.Tables[0].Name, Where: []ovsdb.Condition{}}}, false)
				if rep.Failed {
					r.Violation("C19/database/select-fails-after-request/"+errClassOf(rep.FailErr), "a plain select fails after the request: "+rep.FailErr, map[string]interface{}{"ops": json.RawMessage(text)})
				}
			}()
			if died {
				if e, err = txn.New(m); err != nil {
					return
				}
				pre = ref.NewDB(s)
				continue
			}
			if post, err := m.Snapshot(e.DB); err == nil && post.Rows() <= 14 && len(post.CheckIntegrity()) == 0 {
				pre = post
			} else {
				if e, err = txn.New(m); err != nil {
					return
				}
				pre = ref.NewDB(s)
			}
			if r.NeedSample() {
				r.Sample(map[string]interface{}{"kind": "operation list", "ops": trunc(string(text), 400)})
			}
		}
	}
}

// ---- wire: server in its own process ------------------------------------------------------

// c19ServerMain is the entry point of the server process (mode "C19server").
func c19ServerMain(seed int64, round int, sock string) {
	p := prng.Derive(seed, "C19wire", round)
	s := c19Schema(p)
	m, err := dyn.Build(s, nil)
	if err != nil {
		os.Exit(3)
	}
	srv, err := peer.StartServer(m, filepath.Dir(sock), strings.TrimSuffix(filepath.Base(sock), ".sock"))
	if err != nil {
		os.Exit(3)
	}
	_ = srv
	select {}
}

type srvProc struct {
	cmd  *exec.Cmd
	sock string
	logf string
}

func startServerProc(r *ev.Run, dir string, round int, gen int) (*srvProc, error) {
	exe, err := os.Executable()
	if err != nil {
		return nil, err
	}
	sock := filepath.Join(dir, fmt.Sprintf("c19-%d-%d.sock", round, gen))
	logf := filepath.Join(dir, fmt.Sprintf("c19-server-%d-%d.log", round, gen))
	f, err := os.Create(logf)
	if err != nil {
		return nil, err
	}
	cmd := exec.Command(exe, "child", "C19", r.Tier, "-1")
	cmd.Env = append(os.Environ(), "VERIF_C19_SERVER="+sock, "VERIF_C19_ROUND="+strconv.Itoa(round), "VERIF_CHILD_OUT="+filepath.Join(dir, "server.out"), "GOTRACEBACK=all")
	cmd.Stdout, cmd.Stderr = f, f
	if err := cmd.Start(); err != nil {
		return nil, err
	}
	f.Close()
	return &srvProc{cmd: cmd, sock: sock, logf: logf}, nil
}

func (s *srvProc) stop() {
	_ = s.cmd.Process.Kill()
	_, _ = s.cmd.Process.Wait()
}

func c19Wire(r *ev.Run, batch int) {
	dir := os.Getenv("VERIF_SCRATCH")
	if dir == "" {
		dir = os.TempDir()
	}
	rounds := r.N(2, 8)
	per := r.N(350, 2500)
	for ri := 0; ri < rounds; ri++ {
		round := batch*100 + ri
		p := prng.Derive(r.Seed, "C19wire", round)
		s := c19Schema(p) // same schema as the server process derives
		m, err := dyn.Build(s, nil)
		if err != nil {
			continue
		}
		g := gen.New(prng.Derive(r.Seed, "C19wiregen", round), s)
		gen0 := 0
		srv, err := startServerProc(r, dir, round, gen0)
		if err != nil {
			r.Inconclusive("cannot start server process: " + err.Error())
			return
		}
		pr, err := peer.Dial(srv.sock)
		if err != nil {
			r.Inconclusive("cannot connect to server process: " + err.Error())
			srv.stop()
			return
		}
		pre := ref.NewDB(s)
		restart := func() bool {
			pr.Close()
			srv.stop()
			gen0++
			var err error
			if srv, err = startServerProc(r, dir, round, gen0); err != nil {
				return false
			}
			if pr, err = peer.Dial(srv.sock); err != nil {
				return false
			}
			pre = ref.NewDB(s)
			return true
		}
		pp := prng.Derive(r.Seed, "C19wireops", round)
		var cookies []interface{}
		rp := prng.Derive(r.Seed, "C19wirerpc", round)
		for i := 0; i < per; i++ {
			if i%4 == 3 {
				// a request of another method (monitors stay registered on the connection, so
				// the transactions that follow are also notified through them)
				method, params := c19RPC(rp, s, &cookies)
				pb, _ := json.Marshal(params)
				r.Eval(1)
				r.Distinct("rpc" + method + string(pb))
				r.Count("wire.other_requests", 1)
				r.Count("wire.method."+method, 1)
				r.LogCase(fmt.Sprintf("C19 wire schema=%s method=%s params=%s", s.JSON(), method, pb))
				var reply json.RawMessage
				// Whether this request is answered is not judged (parameters that the JSON-RPC
				// layer cannot decode are dropped by it without an answer): the server must
				// survive it and keep answering.
				cerr := pr.Call(method, params, &reply, 250*time.Millisecond)
				switch {
				case cerr == nil:
					r.Count("wire.other.result_reply", 1)
				case strings.Contains(cerr.Error(), "no reply within"):
					r.Count("wire.other.unanswered", 1)
				default:
					r.Count("wire.other.rpc_error_reply", 1)
				}
				_ = pr.Take()
				if eerr := pr.Echo(20 * time.Second); eerr != nil {
					time.Sleep(50 * time.Millisecond)
					lb, _ := os.ReadFile(srv.logf)
					lt := string(lb)
					wit := map[string]interface{}{"schema": json.RawMessage(s.JSON()), "method": method, "params": json.RawMessage(pb), "server_output": trunc(lt, 3000)}
					if msg := panicLine(lt); msg != "" {
						stack := lt
						if ix := strings.Index(lt, msg); ix >= 0 {
							stack = lt[ix:]
						}
						wit["server_output"] = trunc(stack, 3000)
						r.Violation("C19/wire/server-died/"+method+"/"+ev.PanicSignature(msg, stack), "the server process died while handling a "+method+" request: "+msg, wit)
					} else if strings.Contains(eerr.Error(), "no reply within") {
						r.Violation("C19/wire/server-stops-answering/"+method, "no echo reply within 20 s after a "+method+" request", wit)
					} else {
						r.Violation("C19/wire/connection-lost/"+method+"/"+errClassOf(eerr.Error()), "the server dropped the connection after a "+method+" request: "+eerr.Error(), wit)
					}
					if !restart() {
						r.Inconclusive("cannot restart server process")
						return
					}
					cookies = nil
				}
				continue
			}
			_, text := corruptOps(pp, m, g, pre)
			if text == nil {
				continue
			}
			var raws []json.RawMessage
			if json.Unmarshal(text, &raws) != nil {
				continue
			}
			r.Eval(1)
			r.Distinct("wire" + string(text))
			r.Count("wire.requests", 1)
			r.LogCase(fmt.Sprintf("C19 wire schema=%s request=%s", s.JSON(), text))
			reply, terr := pr.TransactRaw(s.Name, raws, 20*time.Second)
			_ = reply
			if terr != nil && strings.Contains(terr.Error(), "no reply within") {
				// the request is never answered; since transactions are
				// serialised no later transaction will be either
				sig := "C19/wire/transact-never-answered"
				if waitWithoutTimeout(raws) {
					sig = "C19/wire/wait-without-timeout-blocks-all-transactions"
				}
				r.Violation(sig, "no reply to a transact request within 20 s (normal: < 1 ms); every later transaction of any client is blocked behind it",
					map[string]interface{}{"schema": json.RawMessage(s.JSON()), "request": json.RawMessage(text)})
				if !restart() {
					r.Inconclusive("cannot restart server process")
					return
				}
				continue
			}
			eerr := pr.Echo(20 * time.Second)
			if eerr != nil {
				// dead server? read its log
				time.Sleep(50 * time.Millisecond)
				lb, _ := os.ReadFile(srv.logf)
				lt := string(lb)
				msg := ""
				if mm := panicLine(lt); mm != "" {
					msg = mm
				}
				if msg != "" {
					stack := lt
					if ix := strings.Index(lt, msg); ix >= 0 {
						stack = lt[ix:]
					}
					r.Violation("C19/wire/server-died/"+ev.PanicSignature(msg, stack), "the server process died while handling a transact request: "+msg,
						map[string]interface{}{"schema": json.RawMessage(s.JSON()), "request": json.RawMessage(text), "server_output": trunc(stack, 3000)})
				} else if strings.Contains(eerr.Error(), "no reply within") {
					r.Violation("C19/wire/server-stops-answering", "no echo reply within 20 s after a transact request (transact error: "+fmt.Sprint(terr)+")",
						map[string]interface{}{"schema": json.RawMessage(s.JSON()), "request": json.RawMessage(text)})
				} else {
					r.Violation("C19/wire/connection-lost/"+errClassOf(eerr.Error()), "the server dropped the connection after a transact request: "+eerr.Error()+" (transact error: "+fmt.Sprint(terr)+")",
						map[string]interface{}{"schema": json.RawMessage(s.JSON()), "request": json.RawMessage(text), "server_output": trunc(lt, 2000)})
				}
				if !restart() {
					r.Inconclusive("cannot restart server process")
					return
				}
				continue
			}
			if terr != nil {
				r.Count("wire.rpc_error_reply", 1)
			} else {
				r.Count("wire.result_reply", 1)
			}
			if r.NeedSample() {
				r.Sample(map[string]interface{}{"kind": "transact request", "request": trunc(string(text), 400)})
			}
		}
		pr.Close()
		srv.stop()
	}
}

// c19RPC builds a request of another method than transact: valid parameters for the method
// (monitor requests over the schema's tables, cancels of cookies used before, get_schema,
// ...), structurally corrupted 0-3 times, or parameters of the wrong arity or shape.
func c19RPC(p *prng.R, s *tspace.Schema, cookies *[]interface{}) (string, interface{}) {
	methods := []string{"monitor", "monitor", "monitor_cond", "monitor_cond", "monitor_cond_since", "monitor_cond_since", "monitor_cancel", "get_schema", "list_dbs", "transact", "echo", "lock", "steal", "unlock", "set_db_change_aware", "bogus"}
	method := methods[p.Intn(len(methods))]
	request := func() interface{} {
		t := s.Tables[p.Intn(len(s.Tables))]
		req := map[string]interface{}{}
		if p.Chance(3, 4) {
			cols := []interface{}{}
			for _, c := range t.Cols {
				if p.Bool() {
					cols = append(cols, c.Name)
				}
			}
			switch p.Intn(12) {
			case 0:
				cols = append(cols, "no_such_column")
			case 1:
				cols = append(cols, "_uuid", "_version")
			case 2:
				if len(cols) > 0 {
					cols = append(cols, cols[0])
				}
			}
			req["columns"] = cols
		}
		if p.Chance(3, 4) {
			sel := map[string]interface{}{}
			for _, k := range []string{"initial", "insert", "delete", "modify"} {
				if p.Bool() {
					sel[k] = p.Bool()
				}
			}
			req["select"] = sel
		}
		if method != "monitor" && p.Bool() {
			c := t.Cols[p.Intn(len(t.Cols))]
			fns := []string{"==", "!=", "<", ">=", "includes", "excludes", "bogus"}
			args := []interface{}{0, 1.5, "s", true, []interface{}{"set", []interface{}{}}, []interface{}{"map", []interface{}{}}, []interface{}{"uuid", p.UUID()}, []interface{}{"named-uuid", "x"}, nil}
			req["where"] = []interface{}{[]interface{}{c.Name, fns[p.Intn(len(fns))], args[p.Intn(len(args))]}}
			if p.Chance(1, 6) {
				req["where"] = []interface{}{p.Bool()}
			}
		}
		return req
	}
	requests := func() interface{} {
		out := map[string]interface{}{}
		for k := 1 + p.Intn(2); k > 0; k-- {
			t := s.Tables[p.Intn(len(s.Tables))]
			switch p.Intn(8) {
			case 0:
				out[t.Name] = []interface{}{request(), request()}
			case 1:
				out["no_such_table"] = request()
			default:
				out[t.Name] = request()
			}
		}
		return out
	}
	cookie := func() interface{} {
		var c interface{}
		switch p.Intn(5) {
		case 0:
			c = p.Intn(4)
		case 1:
			c = nil
		case 2:
			c = map[string]interface{}{"id": p.UUID()[:4]}
		case 3:
			c = []interface{}{"c", p.Intn(3)}
		default:
			c = "cookie-" + p.UUID()[:2]
		}
		*cookies = append(*cookies, c)
		return c
	}
	old := func() interface{} {
		if len(*cookies) == 0 || p.Chance(1, 5) {
			return "never-used"
		}
		return (*cookies)[p.Intn(len(*cookies))]
	}
	var params interface{}
	switch method {
	case "monitor", "monitor_cond":
		params = []interface{}{s.Name, cookie(), requests()}
	case "monitor_cond_since":
		ids := []interface{}{"00000000-0000-0000-0000-000000000000", p.UUID(), "not-a-uuid", nil, 7}
		params = []interface{}{s.Name, cookie(), requests(), ids[p.Intn(len(ids))]}
	case "monitor_cancel":
		params = []interface{}{old()}
	case "get_schema":
		params = []interface{}{[]interface{}{s.Name, "no_such_db", "_Server", 1, nil}[p.Intn(5)]}
	case "list_dbs":
		params = []interface{}{}
	case "transact":
		params = [][]interface{}{{}, {s.Name}, {1, map[string]interface{}{"op": "comment", "comment": "x"}}, {"no_such_db", map[string]interface{}{"op": "comment", "comment": "x"}}, {s.Name, 1, "x", nil, []interface{}{}}}[p.Intn(5)]
	case "echo":
		params = []interface{}{"a", 1, nil, map[string]interface{}{}}
	default:
		params = []interface{}{"lock-" + p.UUID()[:2]}
	}
	switch p.Intn(10) {
	case 0, 1, 2:
		var v interface{}
		b, _ := json.Marshal(params)
		_ = json.Unmarshal(b, &v)
		params = corrupt(p, v, 1+p.Intn(3))
	case 3:
		// wrong arity / shape of the parameter list itself
		l, _ := params.([]interface{})
		switch p.Intn(6) {
		case 0:
			params = []interface{}{}
		case 1:
			if len(l) > 0 {
				params = l[:len(l)-1]
			}
		case 2:
			params = append(append([]interface{}{}, l...), weird(p))
		case 3:
			params = map[string]interface{}{"db": s.Name}
		case 4:
			params = nil
		default:
			if len(l) > 0 {
				l2 := append([]interface{}{}, l...)
				l2[p.Intn(len(l2))] = weird(p)
				params = l2
			}
		}
	}
	return method, params
}

// waitWithoutTimeout reports whether a request holds a wait operation without a (non-null) timeout.
func waitWithoutTimeout(raws []json.RawMessage) bool {
	for _, raw := range raws {
		var m map[string]interface{}
		if json.Unmarshal(raw, &m) != nil {
			continue
		}
		if m["op"] == "wait" {
			if t, ok := m["timeout"]; !ok || t == nil {
				return true
			}
		}
	}
	return false
}

func panicLine(s string) string {
	for _, l := range strings.Split(s, "\n") {
		if strings.HasPrefix(l, "panic: ") || strings.HasPrefix(l, "fatal error: ") {
			return l
		}
	}
	return ""
}

func c19Child(r *ev.Run, batch int) {
	if sock := os.Getenv("VERIF_C19_SERVER"); sock != "" {
		round, _ := strconv.Atoi(os.Getenv("VERIF_C19_ROUND"))
		c19ServerMain(r.Seed, round, sock)
		return
	}
	switch batch % 3 {
	case 0:
		c19Decoders(r, batch)
	case 1:
		c19Database(r, batch)
	default:
		c19Wire(r, batch)
	}
}

// ---- native fuzzing (thorough) ------------------------------------------------------------

func c19Fuzz(r *ev.Run) {
	// Coverage-guided fuzzing of the decoders with an execution count, seeded
	// with valid encodings. The fuzz target lives in harness/fuzz.
	root := ev.Root()
	execs := "400000x"
	cmd := exec.Command("go", "test", "-tags", "verif", "-run", "^$", "-fuzz", "FuzzDecoders", "-fuzztime", execs, "-parallel", "8", "./fuzz/")
	cmd.Dir = filepath.Join(root, "harness")
	cmd.Env = append(os.Environ(), "GOFLAGS=-mod=mod", "GOPROXY=off", "GOSUMDB=off", "GOTOOLCHAIN=local")
	out, err := cmd.CombinedOutput()
	text := string(out)
	r.Extra("fuzz_executions_requested", execs)
	if i := strings.LastIndex(text, "execs:"); i >= 0 {
		r.Extra("fuzz_last_status", strings.TrimSpace(strings.SplitN(text[i:], "\n", 2)[0]))
	}
	if err != nil && strings.Contains(text, "Failing input written to") {
		// crashers are kept by `go test` under harness/fuzz/testdata/fuzz; report each
		msg := panicLine(text)
		if msg == "" {
			for _, l := range strings.Split(text, "\n") {
				if strings.Contains(l, "panic:") {
					msg = strings.TrimSpace(l)
					break
				}
			}
		}
		r.Violation("C19/fuzz/"+ev.PanicSignature(msg, text), "coverage-guided fuzzing found a crashing decoder input: "+msg, map[string]interface{}{"go_test_output": trunc(text, 4000)})
	} else if err != nil {
		r.Inconclusive("fuzzing did not run: " + trunc(text, 300))
	}
}

var _ = reflect.TypeOf
