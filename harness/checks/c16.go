package checks

// C16 — after losing its connection the client resynchronises completely.
// A reconnecting client talks to the server through the fault proxy; a second
// writer is connected directly. A fault-free run of the generated session
// gives the number of messages in each direction; then for EVERY message
// boundary and both directions the session is re-run with a cut after that
// message and with a cut in the middle of it (plus repeated cuts, refused
// connects, black holes with the inactivity probe). After faults stop the
// client must report Connected() again (bounded progress), and after a barrier
// transaction by the direct writer its cache must equal the database on every
// monitored table, for every monitor. Every client Transact writes a unique
// marker row: results => present exactly once, error => at most once.

import (
	"context"
	"encoding/json"
	"fmt"
	"os"
	"reflect"
	"sort"
	"strings"
	"sync"
	"sync/atomic"
	"time"

	"github.com/cenkalti/backoff/v4"
	"github.com/go-logr/logr"
	"github.com/ovn-org/libovsdb/client"
	"github.com/ovn-org/libovsdb/ovsdb"
	"verifharness/internal/dyn"
	"verifharness/internal/ev"
	"verifharness/internal/peer"
	"verifharness/internal/prng"
	"verifharness/internal/proxy"
	"verifharness/internal/ref"
	"verifharness/internal/tspace"
)

func init() { Register("C16", c16Parent, c16Child) }

func c16Parent(r *ev.Run) {
	r.Level = "fault_enumeration"
	r.Rule = "session shapes (1-3 monitors with any method on disjoint tables, client transactions, transactions by a direct writer before / during / after the outage) x EVERY message boundary of the fault-free session in both directions (cut after message k, cut inside message k) + repeated cuts, refused connection attempts and black holes detected by the inactivity probe; a case is one faulted session; distinct = (session shape, direction, boundary index, fault kind)"
	r.Assume("liveness is bounded progress: after the last fault the client must be connected again before 30 s pass without it opening a new connection (back-off 10 ms)")
	r.Assume("the built-in server answers monitor_cond_since with found=false and never sends update3; the found=true branch is exercised against a history-keeping OVSDB server written for the harness (sessions.history-server), whose state is a reference-model database")
	r.RunBatches(ev.BatchOpts{N: r.N(8, 32), Race: true, Timeout: 40 * time.Minute})
}

type c16shape struct {
	nMon    int
	methods []string
	seed    int
}

func (s c16shape) String() string { return fmt.Sprintf("mons=%s", strings.Join(s.methods, "+")) }

type c16fault struct {
	kind   string // none, cut-after, cut-inside, double-cut, refuse, blackhole
	dir    proxy.Dir
	k      int
	second int
}

func (f c16fault) String() string {
	if f.kind == "none" {
		return "none"
	}
	return fmt.Sprintf("%s/%s/%d", f.kind, f.dir, f.k)
}

func c16Schema() *tspace.Schema {
	str, in := tspace.Base{Type: "string"}, tspace.Base{Type: "integer"}
	sv := str
	mk := func(name string) *tspace.Table {
		return &tspace.Table{Name: name, IsRoot: true, Indexes: [][]string{{"name"}}, Cols: []*tspace.Col{
			{Name: "name", Key: str, Min: 1, Max: 1},
			{Name: "n", Key: in, Min: 1, Max: 1},
			{Name: "tags", Key: str, Val: &sv, Min: 0, Max: -1},
			{Name: "ports", Key: str, Min: 0, Max: -1},
		}}
	}
	// (no index on the marker table: a transaction applied twice must show as two rows,
	// not be refused by the server)
	marker := mk("Marker")
	marker.Indexes = nil
	return &tspace.Schema{Name: "VDB", Tables: []*tspace.Table{mk("T0"), mk("T1"), mk("T2"), marker}}
}

// c16Window, when set, is called by the client hook at every
// client.monitor.reply point (monitor reply received, contents not yet applied).
var (
	c16WinMu  sync.Mutex
	c16Window func()
	// c16UpdateHook, when set, is called by the client hook at every
	// client.update.before point (notification decoded, nothing applied yet).
	c16UpdateHook func()
)

type c16result struct {
	held        int // notifications held back on an abandoned connection
	appConnects int // outages ended by the application calling Connect
	deadFirst   int // sessions whose endpoint list starts with a dead endpoint
	windows     int // transactions committed inside a monitor window
	c2s, s2c    int // message counts on the first connection (fault-free run)
	findings    []finding
	connected   bool
	log         []string
}

// c16Session runs one session with one fault script.
func c16Session(r *ev.Run, m *dyn.Model, shape c16shape, f c16fault, batch, idx int) (res c16result) {
	dir := wireScratch()
	s := m.S
	srv, err := peer.StartServer(m, dir, fmt.Sprintf("c16s-%d-%d", batch, idx))
	if err != nil {
		r.Inconclusive("server: " + err.Error())
		return res
	}
	defer srv.Close()
	px, err := proxy.New(fmt.Sprintf("%s/c16p-%d-%d.sock", dir, batch, idx), srv.Path)
	if err != nil {
		r.Inconclusive("proxy: " + err.Error())
		return res
	}
	defer px.Close()
	writer, err := peer.Dial(srv.Path)
	if err != nil {
		return res
	}
	defer writer.Close()
	p := prng.Derive(int64(shape.seed), "C16session")
	// faults
	switch f.kind {
	case "cut-after", "cut-after+window":
		px.AddFault(&proxy.Fault{Dir: f.dir, AfterMsg: f.k, ConnIndex: 0})
	case "abandoned-connection":
		// scripted below, after the monitors are established
	case "cut-inside":
		px.AddFault(&proxy.Fault{Dir: f.dir, AfterMsg: f.k, Inside: true, ConnIndex: 0})
	case "double-cut":
		px.AddFault(&proxy.Fault{Dir: f.dir, AfterMsg: f.k, ConnIndex: 0})
		px.AddFault(&proxy.Fault{Dir: proxy.S2C, AfterMsg: f.second, ConnIndex: 1})
	case "refuse":
		px.AddFault(&proxy.Fault{Dir: f.dir, AfterMsg: f.k, ConnIndex: 0})
	case "blackhole":
		px.AddFault(&proxy.Fault{Dir: f.dir, AfterMsg: f.k, BlackHole: true, ConnIndex: 0})
	}
	l := logr.Discard()
	opts := []client.Option{client.WithEndpoint("unix:" + px.Listen), client.WithLogger(&l)}
	if idx%4 == 1 {
		// an endpoint list whose first entry nobody listens on: every (re)connection has to
		// move on to the next endpoint
		opts = []client.Option{client.WithEndpoint(fmt.Sprintf("unix:%s/c16dead-%d-%d.sock", dir, batch, idx)), client.WithEndpoint("unix:" + px.Listen), client.WithLogger(&l)}
		if idx%8 == 1 {
			// ... and the live endpoint in the middle of three
			opts = append(opts, client.WithEndpoint(fmt.Sprintf("unix:%s/c16dead2-%d-%d.sock", dir, batch, idx)))
		}
		res.deadFirst = 1
	}
	if f.kind == "blackhole" {
		opts = append(opts, client.WithInactivityCheck(150*time.Millisecond, 2*time.Second, backoff.NewConstantBackOff(10*time.Millisecond)))
	} else if f.kind == "application-connects-during-outage" {
		// a back-off long enough for the application's own Connect calls to fall into the pauses
		opts = append(opts, client.WithReconnect(2*time.Second, backoff.NewConstantBackOff(400*time.Millisecond)))
	} else {
		opts = append(opts, client.WithReconnect(2*time.Second, backoff.NewConstantBackOff(10*time.Millisecond)))
	}
	cl, err := client.NewOVSDBClient(m.Client, opts...)
	if err != nil {
		return res
	}
	defer cl.Close()
	ctx, cancel := context.WithTimeout(context.Background(), 90*time.Second)
	defer cancel()

	wtxn := func(ops []ref.Op) {
		if wire, err := m.WireOps(ops); err == nil {
			_, _ = writer.Transact(s.Name, wire)
		}
	}
	if f.kind == "cut-after+window" {
		// every time the client has received a monitor reply and not yet applied it
		// (first set-up and every restart after a reconnect) another client commits
		// a transaction on the monitored tables: its notification is handled inside
		// the window
		var wn int64
		installClientHook()
		c16WinMu.Lock()
		c16Window = func() {
			n := atomic.AddInt64(&wn, 1)
			var ops []ovsdb.Operation
			for _, tn := range []string{"T0", "T1", "T2"} {
				ops = append(ops, ovsdb.Operation{Op: "insert", Table: tn, Row: ovsdb.Row{"name": fmt.Sprintf("win-%s-%d", tn, n), "n": int(n)}})
			}
			var reply []ovsdb.OperationResult
			_ = writer.Call("transact", ovsdb.NewTransactArgs(s.Name, ops...), &reply, 5*time.Second)
		}
		c16WinMu.Unlock()
		defer func() {
			c16WinMu.Lock()
			c16Window = nil
			c16WinMu.Unlock()
			res.windows = int(atomic.LoadInt64(&wn))
		}()
	}
	names := 0
	rowOps := func(table string, n int) []ref.Op {
		var ops []ref.Op
		for i := 0; i < n; i++ {
			names++
			ops = append(ops, ref.Op{Kind: "insert", Table: table, UUID: p.UUID(), Row: ref.Row{"name": ref.Set(ref.Str(fmt.Sprintf("r%d", names))), "n": ref.Set(ref.Int(int64(names)))}})
		}
		return ops
	}
	// initial contents
	for _, tn := range []string{"T0", "T1", "T2"} {
		wtxn(rowOps(tn, 3))
	}
	// connect (user-level retry: before the first successful connect the client does not reconnect by itself)
	connected := false
	for i := 0; i < 200 && !connected; i++ {
		cctx, ccancel := context.WithTimeout(ctx, 3*time.Second)
		err := cl.Connect(cctx)
		ccancel()
		if err == nil {
			connected = true
		} else {
			time.Sleep(5 * time.Millisecond)
		}
	}
	if !connected {
		res.findings = append(res.findings, finding{"C16/cannot-connect", "the client never managed to connect although faults stopped"})
		return res
	}
	if f.kind == "blackhole" {
		// an impatient application: it retries a read-only transaction with a deadline
		// shorter than the inactivity timeout, all the time. Attempts that get no answer
		// are no sign of life of the peer and must not keep the probe from firing.
		stopRetry := make(chan struct{})
		var retryWG sync.WaitGroup
		retryWG.Add(1)
		go func() {
			defer retryWG.Done()
			for {
				select {
				case <-stopRetry:
					return
				case <-time.After(40 * time.Millisecond):
				}
				rctx, rcancel := context.WithTimeout(ctx, 80*time.Millisecond)
				_, _ = cl.Transact(rctx, ovsdb.Operation{Op: "select", Table: "Marker", Where: []ovsdb.Condition{{Column: "name", Function: "==", Value: "nobody"}}})
				rcancel()
			}
		}()
		defer func() {
			close(stopRetry)
			retryWG.Wait()
		}()
	}
	monitored := map[string]map[string]bool{}
	allCols := map[string]bool{"name": true, "n": true, "tags": true, "ports": true}
	markers := map[string]string{} // marker name -> "ok" / "error"
	nextMarker := 0
	clientTxn := func() {
		nextMarker++
		name := fmt.Sprintf("marker-%d-%d", idx, nextMarker)
		op := ovsdb.Operation{Op: "insert", Table: "Marker", Row: ovsdb.Row{"name": name}}
		tctx, tcancel := context.WithTimeout(ctx, 20*time.Second)
		res2, err := cl.Transact(tctx, op)
		tcancel()
		ok := err == nil && len(res2) == 1 && res2[0].Error == ""
		if ok {
			markers[name] = "ok"
		} else {
			markers[name] = "error"
		}
	}
	for i := 0; i < shape.nMon; i++ {
		tn := fmt.Sprintf("T%d", i)
		mdl := reflect.New(m.Types[tn]).Interface()
		mon := cl.NewMonitor(client.WithTable(mdl))
		mon.Method = shape.methods[i]
		// Monitor can fail when the connection is cut in the middle of it: retry until it is registered
		for try := 0; try < 200; try++ {
			mctx, mcancel := context.WithTimeout(ctx, 5*time.Second)
			_, err := cl.Monitor(mctx, mon)
			mcancel()
			if err == nil {
				monitored[tn] = allCols
				break
			}
			time.Sleep(10 * time.Millisecond)
		}
		if monitored[tn] == nil {
			res.findings = append(res.findings, finding{"C16/monitor-never-established/" + shape.methods[i], "Monitor kept failing after the faults stopped"})
			return res
		}
		if i == 0 {
			wtxn(rowOps("T0", 1))
		}
	}
	// traffic: notifications, client transactions, changes to cached rows
	wtxn(rowOps("T0", 2))
	clientTxn()
	pre, _ := m.Snapshot(srv.DB)
	for tn := range monitored {
		us := dyn.SortedUUIDs(pre.T[tn])
		if len(us) > 1 {
			wtxn([]ref.Op{{Kind: "delete", Table: tn, Where: byUUID(us[0])}, {Kind: "update", Table: tn, Where: byUUID(us[1]), Row: ref.Row{"n": ref.Set(ref.Int(777))}}})
		}
	}
	wtxn(rowOps("T1", 1))
	clientTxn()
	wtxn(rowOps("T2", 1))
	if f.kind == "refuse" {
		px.Refuse(3)
	}
	// more changes while the client may be away
	pre, _ = m.Snapshot(srv.DB)
	for tn := range monitored {
		us := dyn.SortedUUIDs(pre.T[tn])
		if len(us) > 2 {
			wtxn([]ref.Op{{Kind: "delete", Table: tn, Where: byUUID(us[len(us)-1])}, {Kind: "mutate", Table: tn, Where: byUUID(us[1]), Muts: []ref.Mut{{Col: "ports", Mutator: "insert", Val: ref.Set(ref.Str("p1"), ref.Str("p2"))}}}})
		}
	}
	clientTxn()
	res.c2s, res.s2c = px.Counts(0)
	if f.kind == "abandoned-connection" && len(monitored) >= 2 {
		// The connection is cut. During the reconnection attempt, right after the first
		// restarted monitor's reply, another client commits a transaction touching every
		// monitored table; its notification reaches the client on that new connection and
		// is held back before anything is applied; then that connection is cut as well, so
		// the attempt fails half-way and the connection is abandoned. The held notification
		// is released only after the client has reconnected for good (complete contents,
		// which include the transaction): it must not be applied again.
		var phase int32
		rel := make(chan struct{})
		held := make(chan struct{})
		installClientHook()
		c16WinMu.Lock()
		c16Window = func() {
			if atomic.CompareAndSwapInt32(&phase, 1, 2) {
				go func() {
					var ops []ovsdb.Operation
					for tn := range monitored {
						us := dyn.SortedUUIDs(pre.T[tn])
						if len(us) > 0 {
							ops = append(ops, ovsdb.Operation{Op: "mutate", Table: tn, Where: []ovsdb.Condition{{Column: "_uuid", Function: "==", Value: ovsdb.UUID{GoUUID: us[len(us)/2]}}},
								Mutations: []ovsdb.Mutation{{Column: "ports", Mutator: "insert", Value: ovsdb.OvsSet{GoSet: []interface{}{"held-back"}}}}})
						}
					}
					var reply []ovsdb.OperationResult
					_ = writer.Call("transact", ovsdb.NewTransactArgs(s.Name, ops...), &reply, 3*time.Second)
				}()
				select {
				case <-held: // the notification is in the client's hands
				case <-time.After(2 * time.Second):
				}
				px.CutAll() // the reconnection attempt fails on its next request
			}
		}
		c16UpdateHook = func() {
			if atomic.CompareAndSwapInt32(&phase, 2, 3) {
				close(held)
				<-rel
			}
		}
		c16WinMu.Unlock()
		pre, _ = m.Snapshot(srv.DB)
		atomic.StoreInt32(&phase, 1)
		px.CutAll()
		// wait until the client is connected again on a connection of its own
		for i := 0; i < 1500; i++ {
			if atomic.LoadInt32(&phase) >= 2 && cl.Connected() {
				break
			}
			time.Sleep(10 * time.Millisecond)
		}
		time.Sleep(50 * time.Millisecond)
		if atomic.LoadInt32(&phase) == 3 {
			res.held = 1
		}
		close(rel)
		c16WinMu.Lock()
		c16Window, c16UpdateHook = nil, nil
		c16WinMu.Unlock()
		time.Sleep(50 * time.Millisecond)
	}

	if f.kind == "application-connects-during-outage" {
		// The connection is lost and the peer turns connections away. While the client's own
		// retry loop pauses between attempts, the application calls Connect itself: f.k times
		// in vain, then, the peer accepting again, with success. Whoever sets up the next
		// connection must restart the monitors; changes committed meanwhile must arrive.
		before := px.Accepted()
		px.Refuse(1 << 20)
		px.CutAll()
		for i := 0; i < 1000 && px.Accepted() == before; i++ {
			time.Sleep(5 * time.Millisecond) // the retry loop's first attempt (refused)
		}
		pre, _ = m.Snapshot(srv.DB)
		for tn := range monitored {
			us := dyn.SortedUUIDs(pre.T[tn])
			if len(us) > 1 {
				wtxn([]ref.Op{{Kind: "delete", Table: tn, Where: byUUID(us[0])}, {Kind: "update", Table: tn, Where: byUUID(us[1]), Row: ref.Row{"n": ref.Set(ref.Int(4242))}}})
			}
			wtxn(rowOps(tn, 1))
		}
		for i := 0; i < f.k; i++ {
			cctx, ccancel := context.WithTimeout(ctx, 2*time.Second)
			if err := cl.Connect(cctx); err == nil {
				res.findings = append(res.findings, finding{"C16/connect-succeeds-while-refused", "Connect returned nil while the peer refuses every connection"})
			}
			ccancel()
		}
		px.Refuse(0)
		for i := 0; i < 400; i++ {
			cctx, ccancel := context.WithTimeout(ctx, 2*time.Second)
			err := cl.Connect(cctx)
			ccancel()
			if err == nil || cl.Connected() {
				break
			}
			time.Sleep(5 * time.Millisecond)
		}
		res.appConnects = 1
	}
	if f.kind == "application-disconnects-and-connects" {
		// The application itself closes the connection of a reconnecting client (which keeps
		// its monitors), the database changes meanwhile, and the application connects again:
		// the monitors must be restarted and the cache must catch up.
		cl.Disconnect()
		pre, _ = m.Snapshot(srv.DB)
		for tn := range monitored {
			us := dyn.SortedUUIDs(pre.T[tn])
			if len(us) > 1 {
				wtxn([]ref.Op{{Kind: "delete", Table: tn, Where: byUUID(us[0])}, {Kind: "update", Table: tn, Where: byUUID(us[1]), Row: ref.Row{"n": ref.Set(ref.Int(5151))}}})
			}
			wtxn(rowOps(tn, 1))
		}
		if f.k == 1 {
			time.Sleep(60 * time.Millisecond)
		}
		for i := 0; i < 400; i++ {
			cctx, ccancel := context.WithTimeout(ctx, 2*time.Second)
			err := cl.Connect(cctx)
			ccancel()
			if err == nil || cl.Connected() {
				break
			}
			time.Sleep(5 * time.Millisecond)
		}
		res.appConnects = 1
	}
	// bounded progress: connected again, or no new attempt for a long quiet period
	lastAccepted, quiet := px.Accepted(), 0
	for {
		if cl.Connected() && px.Pending() == 0 {
			break
		}
		if cl.Connected() && quiet > 300 {
			// connected and no connection attempt for 3 s while a scripted fault is still
			// pending: its boundary lies beyond what is left of this session, it will not fire
			break
		}
		time.Sleep(10 * time.Millisecond)
		if a := px.Accepted(); a != lastAccepted {
			lastAccepted, quiet = a, 0
		} else {
			quiet++
		}
		if quiet > 3000 && !cl.Connected() {
			res.findings = append(res.findings, finding{"C16/does-not-reconnect/" + f.kind, fmt.Sprintf("30 s after the last connection attempt the client is still not connected (attempts so far: %d)", lastAccepted)})
			res.log = px.Log
			return res
		}
	}
	res.connected = true
	// barrier by the direct writer: touches every monitored table; synchronous delivery => quiescence
	var barrier []ref.Op
	for tn := range monitored {
		names++
		barrier = append(barrier, ref.Op{Kind: "insert", Table: tn, UUID: p.UUID(), Row: ref.Row{"name": ref.Set(ref.Str(fmt.Sprintf("barrier%d", names)))}})
	}
	wtxn(barrier)
	// the monitors may still be re-establishing: wait until the barrier rows are visible (bounded)
	post, _ := m.Snapshot(srv.DB)
	var d string
	for i := 0; i < 1500; i++ {
		if d = cacheDiff(m, cl, post, monitored); d == "" {
			break
		}
		time.Sleep(10 * time.Millisecond)
		if i%100 == 99 {
			// another barrier in case the previous one fell into a reconnect
			names++
			wtxn([]ref.Op{{Kind: "insert", Table: "T0", UUID: p.UUID(), Row: ref.Row{"name": ref.Set(ref.Str(fmt.Sprintf("barrier%d", names)))}}})
			post, _ = m.Snapshot(srv.DB)
		}
	}
	if d != "" {
		res.findings = append(res.findings, finding{fmt.Sprintf("C16/cache-not-resynchronised/monitors=%d/%s", shape.nMon, cacheDiffClass(d)), "after reconnecting the cache does not converge to the database: " + d})
	} else if tc := cl.Cache(); tc != nil {
		// the rows agree: so must the look-ups through the index on name (a row deleted
		// while the client was away must not survive there either)
		for tn := range monitored {
			rc := tc.Table(tn)
			if rc == nil {
				continue
			}
			idx, ierr := rc.Index("name")
			if ierr != nil {
				continue
			}
			n := 0
			for _, us := range idx {
				for _, u := range us {
					n++
					if _, ok := post.T[tn][u]; !ok {
						res.findings = append(res.findings, finding{fmt.Sprintf("C16/cache-not-resynchronised/monitors=%d/index-entry-for-a-row-that-is-gone", shape.nMon), fmt.Sprintf("table %s: the index on name still lists row %s, which neither the database nor the cached rows hold", tn, u)})
					}
				}
			}
			if n != len(post.T[tn]) {
				res.findings = append(res.findings, finding{fmt.Sprintf("C16/cache-not-resynchronised/monitors=%d/index-size-differs", shape.nMon), fmt.Sprintf("table %s: the index on name lists %d rows, the table holds %d", tn, n, len(post.T[tn]))})
			}
		}
	}
	// markers
	final, _ := m.Snapshot(srv.DB)
	count := map[string]int{}
	for _, row := range final.T["Marker"] {
		count[row["name"].K[0].S]++
	}
	for name, st := range markers {
		switch {
		case st == "ok" && count[name] != 1:
			res.findings = append(res.findings, finding{fmt.Sprintf("C16/acknowledged-transaction-applied-%d-times", count[name]), fmt.Sprintf("Transact returned results for %s but the marker row is stored %d times", name, count[name])})
		case st == "error" && count[name] > 1:
			res.findings = append(res.findings, finding{"C16/failed-transaction-applied-more-than-once", fmt.Sprintf("Transact returned an error for %s but the marker row is stored %d times", name, count[name])})
		}
	}
	res.log = px.Log
	return res
}

func c16Child(r *ev.Run, batch int) {
	s := c16Schema()
	m, err := dyn.Build(s, nil)
	if err != nil {
		r.Violation("C16/harness/model-build", err.Error(), nil)
		return
	}
	if os.Getenv("VERIF_C16_DEBUG") != "" {
		shape := c16shape{nMon: 2, methods: []string{ovsdb.ConditionalMonitorSinceRPC, ovsdb.MonitorRPC}, seed: 5}
		t0 := time.Now()
		base := c16Session(r, m, shape, c16fault{kind: "none"}, batch, 1)
		fmt.Println("base:", time.Since(t0), base.c2s, base.s2c, base.findings)
		for _, l := range base.log {
			fmt.Println("  ", l)
		}
		for _, f := range []c16fault{{kind: "cut-after", dir: proxy.S2C, k: 3}, {kind: "cut-after", dir: proxy.S2C, k: 9}, {kind: "cut-inside", dir: proxy.C2S, k: 5}, {kind: "blackhole", dir: proxy.S2C, k: 9}} {
			t0 = time.Now()
			res := c16Session(r, m, shape, f, batch, 2)
			fmt.Println(f, time.Since(t0), res.findings, res.connected)
		}
		return
	}
	nb := r.N(8, 32)
	c16LeaderPart(r, m, batch, nb)
	c16HistPart(r, m, batch, nb)
	shapes := r.N(4, 160)
	methods := []string{ovsdb.MonitorRPC, ovsdb.ConditionalMonitorRPC, ovsdb.ConditionalMonitorSinceRPC}
	idx := 0
	for si := 0; si < shapes; si++ {
		p := prng.Derive(r.Seed, "C16shape", si)
		shape := c16shape{nMon: 1 + p.Intn(3), seed: int(r.Seed)*1000 + si}
		if si == 0 {
			shape.nMon = 2
		}
		if si == 1 {
			shape.nMon = 1 // the single-monitor reconnect takes its own branch in the client
		}
		for i := 0; i < shape.nMon; i++ {
			shape.methods = append(shape.methods, methods[p.Intn(3)])
		}
		// fault-free run: message counts (every batch computes it: deterministic per shape)
		base := c16Session(r, m, shape, c16fault{kind: "none"}, batch, 100000+si)
		if batch == 0 {
			r.Eval(1)
			r.Distinct(shape.String() + "|none")
			for _, f := range base.findings {
				r.Violation(f.Sig, f.What+" (fault-free session)", map[string]interface{}{"shape": shape.String()})
			}
		}
		if base.c2s == 0 {
			continue
		}
		r.SetAdd("boundaries_per_shape", fmt.Sprintf("%s: c2s=%d s2c=%d", shape, base.c2s, base.s2c))
		// enumerate every boundary, both directions, after and inside
		var faults []c16fault
		for _, d := range []proxy.Dir{proxy.C2S, proxy.S2C} {
			n := base.c2s
			if d == proxy.S2C {
				n = base.s2c
			}
			for k := 1; k <= n; k++ {
				faults = append(faults, c16fault{kind: "cut-after", dir: d, k: k})
			}
			for k := 0; k < n; k++ {
				faults = append(faults, c16fault{kind: "cut-inside", dir: d, k: k})
			}
		}
		for k := 1; k <= base.c2s; k += 2 {
			faults = append(faults, c16fault{kind: "cut-after+window", dir: proxy.C2S, k: k})
		}
		for k := 2; k <= base.s2c; k += 2 {
			faults = append(faults, c16fault{kind: "cut-after+window", dir: proxy.S2C, k: k})
		}
		if shape.nMon >= 2 {
			faults = append(faults, c16fault{kind: "abandoned-connection", dir: proxy.S2C, k: 0}, c16fault{kind: "abandoned-connection", dir: proxy.S2C, k: 1})
		}
		for k := 2; k <= base.s2c; k += 3 {
			faults = append(faults, c16fault{kind: "double-cut", dir: proxy.S2C, k: k, second: 1 + k%5})
			faults = append(faults, c16fault{kind: "refuse", dir: proxy.C2S, k: k})
		}
		for k := 4; k <= base.s2c; k += 5 {
			faults = append(faults, c16fault{kind: "blackhole", dir: proxy.S2C, k: k})
		}
		for k := 0; k <= 2; k++ {
			faults = append(faults, c16fault{kind: "application-connects-during-outage", dir: proxy.C2S, k: k})
		}
		for k := 0; k <= 1; k++ {
			faults = append(faults, c16fault{kind: "application-disconnects-and-connects", dir: proxy.C2S, k: k})
		}
		for fi, f := range faults {
			idx++
			if idx%nb != batch {
				continue
			}
			r.LogCase(fmt.Sprintf("C16 shape=%s fault=%s", shape, f))
			res := c16Session(r, m, shape, f, batch, si*10000+fi)
			r.Eval(1)
			r.Distinct(shape.String() + "|" + f.String())
			r.Count("sessions."+f.kind, 1)
			r.Count("transactions-committed-inside-a-monitor-window", res.windows)
			r.Count("notifications-held-back-on-an-abandoned-connection", res.held)
			r.Count("outages-ended-by-the-application-connecting", res.appConnects)
			r.Count("sessions-with-a-dead-first-endpoint", res.deadFirst)
			for _, fd := range res.findings {
				n := len(res.log)
				from := 0
				if n > 40 {
					from = n - 40
				}
				r.Violation(fd.Sig, fd.What, map[string]interface{}{"shape": shape.String(), "fault": f.String(), "proxy_log_tail": res.log[from:]})
			}
			if r.NeedSample() && len(res.log) > 0 {
				n := len(res.log)
				if n > 25 {
					n = 25
				}
				r.Sample(map[string]interface{}{"shape": shape.String(), "fault": f.String(), "first_messages": res.log[:n]})
			}
		}
	}
	var _ = json.Marshal
	var _ = sort.Strings
}
