package checks

import (
	"encoding/json"
	"fmt"
	"os"

	"github.com/ovn-org/libovsdb/ovsdb"
	"sort"
	"strings"

	"verifharness/internal/dyn"
	"verifharness/internal/ev"
	"verifharness/internal/ref"
	"verifharness/internal/tspace"
	"verifharness/internal/txn"
)

// finding is one disagreement between the library and an oracle.
type finding struct {
	Sig  string
	What string
}

// opsJSON renders reference operations for witnesses / samples.
func opsJSON(ops []ref.Op) []interface{} {
	var out []interface{}
	for _, op := range ops {
		m := map[string]interface{}{"op": op.Kind, "table": op.Table}
		if op.UUID != "" {
			m["uuid"] = op.UUID
		}
		if op.UUIDName != "" {
			m["uuid-name"] = op.UUIDName
		}
		if op.Row != nil {
			m["row"] = op.Row.String()
		}
		if len(op.Where) > 0 {
			var w []string
			for _, c := range op.Where {
				w = append(w, fmt.Sprintf("%s %s %s", c.Col, c.Fn, c.Val))
			}
			m["where"] = w
		}
		if len(op.Muts) > 0 {
			var w []string
			for _, c := range op.Muts {
				w = append(w, fmt.Sprintf("%s %s %s", c.Col, c.Mutator, c.Val))
			}
			m["mutations"] = w
		}
		if op.Columns != nil {
			m["columns"] = op.Columns
		}
		if op.Kind == "wait" {
			m["until"] = op.Until
			var rs []string
			for _, r := range op.Rows {
				rs = append(rs, r.String())
			}
			m["rows"] = rs
		}
		out = append(out, m)
	}
	return out
}

func stateJSON(db *ref.DB) map[string]interface{} {
	out := map[string]interface{}{}
	for _, t := range db.S.Tables {
		rows := map[string]string{}
		for u, r := range db.T[t.Name] {
			rows[u] = r.String()
		}
		out[t.Name] = rows
	}
	return out
}

func witness(m *dyn.Model, pre *ref.DB, ops []ref.Op, extra map[string]interface{}) map[string]interface{} {
	w := map[string]interface{}{
		"schema": json.RawMessage(m.S.JSON()),
		"ops":    opsJSON(ops),
	}
	if pre != nil {
		w["pre_state"] = stateJSON(pre)
	}
	if wire, err := m.WireOps(ops); err == nil {
		if b, err := json.Marshal(wire); err == nil {
			w["wire_ops"] = json.RawMessage(b)
		}
	}
	mach := map[string]interface{}{"schema": m.S, "ops": ops}
	if pre != nil {
		mach["pre"] = pre.T
	}
	w["machine"] = mach
	for k, v := range extra {
		w[k] = v
	}
	return w
}

// Machine is the machine-readable part of a witness.
type Machine struct {
	Schema  *tspace.Schema                `json:"schema"`
	Pre     map[string]map[string]ref.Row `json:"pre"`
	Ops     []ref.Op                      `json:"ops"`
	History [][]ref.Op                    `json:"history,omitempty"` // transactions executed on the same database object before Ops
	Wire    json.RawMessage               `json:"wire,omitempty"`    // wire operations (used instead of Ops when present)
}

// LoadMachine reads the machine-readable witness out of a replay file.
func LoadMachine(path string) (*Machine, string, error) {
	b, err := os.ReadFile(path)
	if err != nil {
		return nil, "", err
	}
	var f struct {
		Signature string `json:"signature"`
		Witness   struct {
			Machine *Machine `json:"machine"`
		} `json:"witness"`
	}
	if err := json.Unmarshal(b, &f); err != nil {
		return nil, "", err
	}
	if f.Witness.Machine == nil || f.Witness.Machine.Schema == nil {
		return nil, f.Signature, fmt.Errorf("replay file has no machine-readable witness")
	}
	mc := f.Witness.Machine
	// JSON turned integer enum members into float64: restore
	for _, t := range mc.Schema.Tables {
		for _, c := range t.Cols {
			for _, b := range []*tspace.Base{&c.Key, c.Val} {
				if b == nil || b.Type != "integer" {
					continue
				}
				for i, e := range b.Enum {
					if f, ok := e.(float64); ok {
						b.Enum[i] = int(f)
					}
				}
			}
		}
	}
	return mc, f.Signature, nil
}

// DebugReplay re-executes a recorded (schema, pre-state, ops) case on a fresh
// database and prints what the library and the reference answer.
func DebugReplay(path string) int {
	mc, sig, err := LoadMachine(path)
	if err != nil {
		fmt.Println("cannot load:", err)
		return 2
	}
	m, err := dyn.Build(mc.Schema, nil)
	if err != nil {
		fmt.Println("cannot build model:", err)
		return 2
	}
	pre := ref.NewDB(mc.Schema)
	for tn, rows := range mc.Pre {
		for u, r := range rows {
			pre.T[tn][u] = r
		}
	}
	e, err := loadState(m, pre)
	if err != nil {
		fmt.Println("cannot load state:", err)
		return 2
	}
	if len(mc.History) > 0 {
		e, _ = txn.New(m)
		for i, h := range mc.History {
			rep, err := e.Transact(h, true)
			if err != nil {
				fmt.Println("history encode error:", err)
				return 2
			}
			fmt.Printf("history[%d]: %d ops failed=%v err=%q %q\n", i, len(h), rep.Failed, rep.FailErr, rep.FailWhy)
			if os.Getenv("VERIF_DEBUG_HISTORY") != "" {
				b, _ := json.Marshal(opsJSON(h))
				fmt.Printf("   %s\n", b)
			}
		}
		if snap, err := m.Snapshot(e.DB); err == nil {
			fmt.Println("state after history vs recorded pre-state:", snap.Diff(pre))
		}
	}
	fmt.Println("signature:", sig)
	if len(mc.Wire) > 0 {
		var wire []ovsdb.Operation
		if err := json.Unmarshal(mc.Wire, &wire); err != nil {
			fmt.Println("cannot decode wire ops:", err)
			return 2
		}
		seen := map[string]int{}
		for i := 0; i < 12; i++ {
			e2, err := loadState(m, pre)
			if err != nil {
				fmt.Println("cannot load state:", err)
				return 2
			}
			b, _ := json.Marshal(wire)
			var w2 []ovsdb.Operation
			_ = json.Unmarshal(b, &w2)
			rep := e2.TransactWire(w2, true)
			seen[canonReply(rep)]++
		}
		for k, n := range seen {
			fmt.Printf("%d x reply: %s\n", n, k)
		}
		return 0
	}
	out := pre.Transact(cloneOps(mc.Ops))
	fmt.Printf("reference: failed=%v results=%+v commitErr=%q %s outOfDomain=%q\n", out.Failed(), out.Results, out.CommitErr, out.CommitWhy, out.OutOfDom)
	rep, err := e.Transact(mc.Ops, true)
	if err != nil {
		fmt.Println("encode error:", err)
		return 2
	}
	fmt.Printf("library: failed=%v hung=%v failIndex=%d err=%q details=%q committed=%v commitErr=%v\n", rep.Failed, rep.Hung, rep.FailIndex, rep.FailErr, rep.FailWhy, rep.Committed, rep.CommitErr)
	for i, r := range rep.Results {
		fmt.Printf("  result[%d] skipped=%v %+v\n", i, rep.Skipped[i], r)
	}
	if post, err := m.Snapshot(e.DB); err == nil {
		fmt.Println("library post-state vs reference post-state:", post.Diff(out.Post))
	} else {
		fmt.Println("snapshot error:", err)
	}
	return 0
}

// loadState builds a fresh engine holding exactly the rows of db (one
// transaction inserting every row under its UUID).
func loadState(m *dyn.Model, db *ref.DB) (*txn.Engine, error) {
	e, err := txn.New(m)
	if err != nil {
		return nil, err
	}
	var ops []ref.Op
	for _, t := range m.S.Tables {
		us := make([]string, 0, len(db.T[t.Name]))
		for u := range db.T[t.Name] {
			us = append(us, u)
		}
		sort.Strings(us)
		for _, u := range us {
			row := db.T[t.Name][u].Clone()
			for _, c := range t.Cols {
				// the library spells the default of a scalar uuid column "":
				// leave it unset instead of writing the all-zero uuid
				if c.IsScalar() && c.Key.Type == "uuid" && row[c.Name].Len() == 1 && row[c.Name].K[0].S == ref.ZeroUUID {
					delete(row, c.Name)
				}
			}
			ops = append(ops, ref.Op{Kind: "insert", Table: t.Name, UUID: u, Row: row})
		}
	}
	if len(ops) == 0 {
		return e, nil
	}
	rep, err := e.Transact(ops, true)
	if err != nil {
		return nil, err
	}
	if rep.Failed || !rep.Committed {
		return nil, fmt.Errorf("loading state failed: %s %s %v", rep.FailErr, rep.FailWhy, rep.CommitErr)
	}
	return e, nil
}

func errClassOf(s string) string {
	s = strings.ToLower(s)
	if i := strings.Index(s, "failed warming transaction cache row"); i >= 0 {
		return "failed warming transaction cache row"
	}
	var words []string
	for _, w := range strings.Fields(s) {
		if strings.ContainsAny(w, "0123456789") {
			continue // uuids, values
		}
		words = append(words, w)
	}
	s = strings.Join(words, " ")
	var sb strings.Builder
	for _, r := range s {
		if (r >= 'a' && r <= 'z') || r == ' ' {
			sb.WriteRune(r)
		}
		if sb.Len() >= 48 {
			break
		}
	}
	return strings.TrimSpace(sb.String())
}

// colKindsOf summarises the column kinds an operation list touches.
func opShape(s *tspace.Schema, ops []ref.Op) string {
	var parts []string
	for _, op := range ops {
		t := s.Table(op.Table)
		p := op.Kind
		var d []string
		if t != nil {
			for cn := range op.Row {
				if c := t.Col(cn); c != nil {
					d = append(d, c.Desc())
				}
			}
			for _, c := range op.Where {
				if col := t.Col(c.Col); col != nil {
					d = append(d, c.Fn+col.Desc())
				} else {
					d = append(d, c.Fn+c.Col)
				}
			}
			for _, mu := range op.Muts {
				if col := t.Col(mu.Col); col != nil {
					d = append(d, mu.Mutator+col.Desc())
				}
			}
		}
		sort.Strings(d)
		parts = append(parts, p+"("+strings.Join(d, ",")+")")
	}
	return strings.Join(parts, ";")
}

// shrinkOps removes operations, conditions, mutations and row columns while
// the predicate keeps returning the same signature.
func shrinkOps(ops []ref.Op, still func([]ref.Op) bool) []ref.Op {
	cur := ops
	changed := true
	for rounds := 0; changed && rounds < 6; rounds++ {
		changed = false
		for i := len(cur) - 1; i >= 0 && len(cur) > 1; i-- {
			cand := append(append([]ref.Op{}, cur[:i]...), cur[i+1:]...)
			if still(cand) {
				cur = cand
				changed = true
			}
		}
		for i := range cur {
			for j := len(cur[i].Where) - 1; j >= 0; j-- {
				cand := cloneOps(cur)
				cand[i].Where = append(append([]ref.Cond{}, cand[i].Where[:j]...), cand[i].Where[j+1:]...)
				if still(cand) {
					cur = cand
					changed = true
				}
			}
			for j := len(cur[i].Muts) - 1; j >= 0 && len(cur[i].Muts) > 1; j-- {
				cand := cloneOps(cur)
				cand[i].Muts = append(append([]ref.Mut{}, cand[i].Muts[:j]...), cand[i].Muts[j+1:]...)
				if still(cand) {
					cur = cand
					changed = true
				}
			}
			keys := make([]string, 0, len(cur[i].Row))
			for k := range cur[i].Row {
				keys = append(keys, k)
			}
			sort.Strings(keys)
			for _, k := range keys {
				if len(cur[i].Row) <= 1 && cur[i].Kind == "update" {
					break
				}
				cand := cloneOps(cur)
				delete(cand[i].Row, k)
				if still(cand) {
					cur = cand
					changed = true
				}
			}
		}
	}
	return cur
}

func cloneOps(ops []ref.Op) []ref.Op {
	out := make([]ref.Op, len(ops))
	for i, op := range ops {
		o := op
		if op.Row != nil {
			o.Row = op.Row.Clone()
		}
		o.Where = append([]ref.Cond{}, op.Where...)
		o.Muts = append([]ref.Mut{}, op.Muts...)
		o.Rows = append([]ref.Row{}, op.Rows...)
		out[i] = o
	}
	return out
}

// report records findings with a witness, shrinking first when possible.
func report(r *ev.Run, m *dyn.Model, pre *ref.DB, ops []ref.Op, fs []finding, judge func(pre *ref.DB, ops []ref.Op) []finding, hist ...[][]ref.Op) {
	for _, f := range fs {
		if r.HasViolation(f.Sig) {
			r.Violation(f.Sig, f.What, nil)
			continue
		}
		small := ops
		what := f.What
		if judge != nil {
			small = shrinkOps(ops, func(cand []ref.Op) bool {
				for _, g := range judge(pre, cand) {
					if g.Sig == f.Sig {
						return true
					}
				}
				return false
			})
			for _, g := range judge(pre, small) {
				if g.Sig == f.Sig {
					what = g.What
				}
			}
		}
		extra := map[string]interface{}{"original_ops": len(ops)}
		reproduced := judge == nil
		if judge != nil {
			for _, g := range judge(pre, small) {
				if g.Sig == f.Sig {
					reproduced = true
				}
			}
		}
		w := witness(m, pre, small, extra)
		if judge == nil && len(hist) > 0 {
			w["machine"].(map[string]interface{})["history"] = hist[0]
		}
		if !reproduced {
			extra["history_dependent"] = "not reproduced on a fresh database loaded with the same rows: depends on the history of the database object (or on map iteration order)"
			w = witness(m, pre, small, extra)
			if len(hist) > 0 {
				w["machine"].(map[string]interface{})["history"] = hist[0]
			}
		}
		r.Violation(f.Sig, what, w)
	}
}
