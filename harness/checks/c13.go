package checks

// C13 — cached models are isolated copies; Clone and Equal keep their contract.
// Oracle D (read - mutate - re-read): for every read path and every mutation a
// caller can perform on a returned model the canonical dump of the cache must
// not change; symmetrically for models handed to the cache. Clone laws:
// Equal(m, Clone(m)), no shared slice/map/pointer (pointer identity and
// mutate-and-compare), Equal reflexive, symmetric and false under every
// one-field perturbation.

import (
	"context"
	"encoding/json"
	"fmt"
	"reflect"
	"sort"
	"strings"
	"sync"

	"github.com/ovn-org/libovsdb/cache"
	"github.com/ovn-org/libovsdb/client"
	"github.com/ovn-org/libovsdb/model"
	"github.com/ovn-org/libovsdb/ovsdb"
	"github.com/ovn-org/libovsdb/ovsdb/serverdb"
	"verifharness/internal/dyn"
	"verifharness/internal/ev"
	"verifharness/internal/gen"
	"verifharness/internal/prng"
	"verifharness/internal/ref"
	"verifharness/internal/tspace"
)

func init() { Register("C13", c13Parent, c13Child) }

func c13Parent(r *ev.Run) {
	r.Rule = "cache states over generated schemas (every column kind, incl. real/boolean map keys) x read paths (Row, Rows, RowByModel by uuid and by index, RowsByModels, RowsByCondition with no / one _uuid / indexed / general conditions, client Get, List, Where.List, WhereAll.List, WhereCache.List, each List into []*T and into []T, event handler arguments) x mutations of everything reachable from the returned model (scalars, slice elements, append within capacity, map insert/delete, write through pointer); write paths (Create, Update, ApplyCacheUpdate, Populate2) with mutation of the caller's model afterwards; Clone/Equal laws on run-time, hand-written and generated (serverdb.Database) models; a case is one probe; distinct = (path, column kinds of the model, mutation)"
	r.Assume("RowsShallow is exempt by its documentation and is used as the self-check of the detector (a mutation through it must show)")
	r.RunBatches(ev.BatchOpts{N: r.N(8, 32)})
}

// mutateAll changes everything reachable from a model without replacing the
// fields themselves where in-place mutation is possible. Returns how many
// in-place mutations were made.
func mutateAll(m model.Model) int {
	n := 0
	v := reflect.ValueOf(m)
	if v.Kind() != reflect.Ptr || v.IsNil() {
		return 0
	}
	v = v.Elem()
	for i := 0; i < v.NumField(); i++ {
		f := v.Field(i)
		if !f.CanSet() {
			continue
		}
		switch f.Kind() {
		case reflect.Slice:
			for j := 0; j < f.Len(); j++ {
				scramble(f.Index(j))
				n++
			}
			if f.Cap() > f.Len() {
				ext := f.Slice(0, f.Len()+1)
				scramble(ext.Index(f.Len()))
				n++
			}
			if f.Len() > 0 {
				f.Set(f.Slice(0, f.Len()-1))
			}
		case reflect.Map:
			if !f.IsNil() {
				for _, k := range f.MapKeys() {
					nv := reflect.New(f.Type().Elem()).Elem()
					nv.Set(f.MapIndex(k))
					scramble(nv)
					f.SetMapIndex(k, nv)
					n++
				}
				nk := reflect.New(f.Type().Key()).Elem()
				scramble(nk)
				nv := reflect.New(f.Type().Elem()).Elem()
				scramble(nv)
				f.SetMapIndex(nk, nv)
				n++
			}
		case reflect.Ptr:
			if !f.IsNil() {
				scramble(f.Elem())
				n++
			}
		case reflect.Struct:
		default:
			if f.Type().Name() != "" || f.Kind() == reflect.String || f.Kind() == reflect.Int || f.Kind() == reflect.Float64 || f.Kind() == reflect.Bool {
				if v.Type().Field(i).Name != "UUID" {
					scramble(f)
				}
			}
		}
	}
	return n
}

func scramble(v reflect.Value) {
	switch v.Kind() {
	case reflect.String:
		v.SetString(v.String() + "~mutated")
	case reflect.Int, reflect.Int64:
		v.SetInt(v.Int() + 7777)
	case reflect.Float64:
		v.SetFloat(v.Float() + 0.7777)
	case reflect.Bool:
		v.SetBool(!v.Bool())
	}
}

type c13env struct {
	m  *dyn.Model
	t  *tspace.Table
	tc *cache.TableCache
	p  *prng.R
}

func (e *c13env) dump() string {
	rows, err := e.m.SnapshotRows(e.t.Name, e.tc.Table(e.t.Name).Rows())
	if err != nil {
		return "error: " + err.Error()
	}
	var l []string
	for u, r := range rows {
		l = append(l, u+":"+r.String())
	}
	sort.Strings(l)
	return strings.Join(l, "\n")
}

func colKinds(t *tspace.Table) string {
	var l []string
	for _, c := range t.Cols {
		l = append(l, strings.SplitN(c.Desc(), "[", 2)[0])
	}
	sort.Strings(l)
	return strings.Join(uniq(l), ",")
}

func (e *c13env) readPaths() map[string]func() []model.Model {
	rc := e.tc.Table(e.t.Name)
	api := client.VerifNewAPI(e.tc)
	anyUUID := func() string {
		for u := range rc.RowsShallow() {
			return u
		}
		return ""
	}
	anyRow := func() (string, ref.Row) {
		u := anyUUID()
		if u == "" {
			return "", nil
		}
		_, r, _ := e.m.RowOf(e.t.Name, rc.Row(u))
		return u, r
	}
	toList := func(m map[string]model.Model) []model.Model {
		var l []model.Model
		for _, x := range m {
			l = append(l, x)
		}
		return l
	}
	listVia := func(c client.ConditionalAPI) []model.Model {
		lst := reflect.New(reflect.SliceOf(reflect.PtrTo(e.m.Types[e.t.Name])))
		if err := c.List(context.Background(), lst.Interface()); err != nil {
			return nil
		}
		var l []model.Model
		for i := 0; i < lst.Elem().Len(); i++ {
			l = append(l, lst.Elem().Index(i).Interface())
		}
		return l
	}
	// List into a slice of values ([]T, not []*T): the elements are struct copies, what they
	// reach (maps, slices, pointer targets) must still be the caller's own
	type lister interface {
		List(ctx context.Context, result interface{}) error
	}
	valuesVia := func(c lister) []model.Model {
		lst := reflect.New(reflect.SliceOf(e.m.Types[e.t.Name]))
		if err := c.List(context.Background(), lst.Interface()); err != nil {
			return nil
		}
		var l []model.Model
		for i := 0; i < lst.Elem().Len(); i++ {
			l = append(l, lst.Elem().Index(i).Addr().Interface())
		}
		return l
	}
	byName := func() model.Model {
		_, r := anyRow()
		if r == nil {
			return e.m.NewModel(e.t.Name, "", ref.Row{})
		}
		return e.m.NewModel(e.t.Name, "", ref.Row{"name": r["name"]}) // no uuid: resolved through the index on name
	}
	return map[string]func() []model.Model{
		"Row": func() []model.Model {
			if m := rc.Row(anyUUID()); m != nil {
				return []model.Model{m}
			}
			return nil
		},
		"Rows": func() []model.Model { return toList(rc.Rows()) },
		"RowByModel(uuid)": func() []model.Model {
			_, m, _ := rc.RowByModel(e.m.NewModel(e.t.Name, anyUUID(), ref.Row{}))
			if m == nil {
				return nil
			}
			return []model.Model{m}
		},
		"RowByModel(index)": func() []model.Model {
			_, m, _ := rc.RowByModel(byName())
			if m == nil {
				return nil
			}
			return []model.Model{m}
		},
		"RowsByModels(index)": func() []model.Model {
			ms, _ := rc.RowsByModels([]model.Model{byName()})
			return toList(ms)
		},
		"RowsByModels(uuid)": func() []model.Model {
			ms, _ := rc.RowsByModels([]model.Model{e.m.NewModel(e.t.Name, anyUUID(), ref.Row{})})
			return toList(ms)
		},
		"RowsByCondition": func() []model.Model {
			ms, _ := rc.RowsByCondition([]ovsdb.Condition{{Column: "_uuid", Function: "!=", Value: ovsdb.UUID{GoUUID: "00000009-0000-4000-8000-000000000000"}}})
			return toList(ms)
		},
		"RowsByCondition(no conditions)": func() []model.Model {
			ms, _ := rc.RowsByCondition(nil)
			return toList(ms)
		},
		"RowsByCondition(empty list)": func() []model.Model {
			ms, _ := rc.RowsByCondition([]ovsdb.Condition{})
			return toList(ms)
		},
		"RowsByCondition(_uuid ==)": func() []model.Model {
			ms, _ := rc.RowsByCondition([]ovsdb.Condition{{Column: "_uuid", Function: "==", Value: ovsdb.UUID{GoUUID: anyUUID()}}})
			return toList(ms)
		},
		"RowsByCondition(index)": func() []model.Model {
			_, r := anyRow()
			if r == nil {
				return nil
			}
			ms, _ := rc.RowsByCondition([]ovsdb.Condition{{Column: "name", Function: "==", Value: r["name"].K[0].S}})
			return toList(ms)
		},
		"client.Get(uuid)": func() []model.Model {
			m := e.m.NewModel(e.t.Name, anyUUID(), ref.Row{})
			if api.Get(context.Background(), m) != nil {
				return nil
			}
			return []model.Model{m}
		},
		"client.Get(index)": func() []model.Model {
			m := byName()
			if api.Get(context.Background(), m) != nil {
				return nil
			}
			return []model.Model{m}
		},
		"client.List": func() []model.Model {
			lst := reflect.New(reflect.SliceOf(reflect.PtrTo(e.m.Types[e.t.Name])))
			if api.List(context.Background(), lst.Interface()) != nil {
				return nil
			}
			var l []model.Model
			for i := 0; i < lst.Elem().Len(); i++ {
				l = append(l, lst.Elem().Index(i).Interface())
			}
			return l
		},
		"client.List(values)":              func() []model.Model { return valuesVia(api) },
		"client.Where(index).List(values)": func() []model.Model { return valuesVia(api.Where(byName())) },
		"client.WhereAll.List(values)": func() []model.Model {
			mdl := reflect.New(e.m.Types[e.t.Name]).Interface()
			return valuesVia(api.WhereAll(mdl, model.Condition{Field: e.m.FieldPtr(e.t.Name, mdl, "name"), Function: ovsdb.ConditionNotEqual, Value: "no-such-name"}))
		},
		"client.WhereCache.List(values)": func() []model.Model {
			fn := reflect.MakeFunc(reflect.FuncOf([]reflect.Type{reflect.PtrTo(e.m.Types[e.t.Name])}, []reflect.Type{reflect.TypeOf(true)}, false),
				func(args []reflect.Value) []reflect.Value { return []reflect.Value{reflect.ValueOf(true)} })
			return valuesVia(api.WhereCache(fn.Interface()))
		},
		"client.Where(index).List": func() []model.Model { return listVia(api.Where(byName())) },
		"client.Where(uuid).List": func() []model.Model {
			return listVia(api.Where(e.m.NewModel(e.t.Name, anyUUID(), ref.Row{})))
		},
		"client.WhereAll.List": func() []model.Model {
			mdl := reflect.New(e.m.Types[e.t.Name]).Interface()
			return listVia(api.WhereAll(mdl, model.Condition{Field: e.m.FieldPtr(e.t.Name, mdl, "name"), Function: ovsdb.ConditionNotEqual, Value: "no-such-name"}))
		},
		"client.WhereCache.List": func() []model.Model {
			fn := reflect.MakeFunc(reflect.FuncOf([]reflect.Type{reflect.PtrTo(e.m.Types[e.t.Name])}, []reflect.Type{reflect.TypeOf(true)}, false),
				func(args []reflect.Value) []reflect.Value { return []reflect.Value{reflect.ValueOf(true)} })
			return listVia(api.WhereCache(fn.Interface()))
		},
	}
}

type mutatingHandler struct {
	mu   sync.Mutex
	seen int
}

func (h *mutatingHandler) OnAdd(table string, m model.Model) {
	h.mu.Lock()
	h.seen += 1 + mutateAll(m)*0
	mutateAll(m)
	h.mu.Unlock()
}
func (h *mutatingHandler) OnUpdate(table string, old, new model.Model) {
	h.mu.Lock()
	h.seen++
	mutateAll(old)
	mutateAll(new)
	h.mu.Unlock()
}
func (h *mutatingHandler) OnDelete(table string, m model.Model) {
	h.mu.Lock()
	h.seen++
	mutateAll(m)
	h.mu.Unlock()
}

func c13CacheProbes(r *ev.Run, p *prng.R, batch, round int) {
	o := tspace.Full(1)
	o.Refs, o.NonRoot = false, false
	o.OddMapKeys = false // JSON clone of real/boolean map keys is judged by the Clone laws below
	o.MaxCols = 7
	s := tspace.Gen(p, o)
	t := s.Tables[0]
	if round%4 == 3 {
		onlyAtoms(t) // a model without slice or map fields (pointers and scalars only)
	}
	t.Indexes = [][]string{{"name"}}
	var ci []model.ClientIndex
	for _, c := range t.Cols {
		if c.Name != "name" && (c.IsScalar() || c.IsOptional()) && c.Key.Type != "uuid" && p.Bool() {
			ci = append(ci, model.ClientIndex{Columns: []model.ColumnKey{{Column: c.Name}}})
			break
		}
	}
	m, err := dyn.Build(s, map[string][]model.ClientIndex{t.Name: ci})
	if err != nil {
		r.Violation("C13/harness/model-build", err.Error(), nil)
		return
	}
	tc, err := cache.NewTableCache(m.DB, nil, nil)
	if err != nil {
		return
	}
	h := &mutatingHandler{}
	tc.AddEventHandler(h)
	stop := make(chan struct{})
	go tc.Run(stop)
	defer close(stop)
	g := gen.New(p, s)
	e := &c13env{m: m, t: t, tc: tc, p: p}
	kinds := colKinds(t)
	rc := tc.Table(t.Name)
	fullRow := func(i int) ref.Row {
		row := g.InsertRow(t, ref.NewDB(s), nil)
		for _, c := range t.Cols {
			if _, ok := row[c.Name]; !ok || p.Chance(1, 2) {
				row[c.Name] = g.Value(c, nil, nil)
			}
		}
		row["name"] = ref.Set(ref.Str(fmt.Sprintf("n%d-%d", round, i)))
		return row
	}
	// write paths: hand a model to the cache, mutate it afterwards
	writeProbe := func(path string, do func(u string, mdl model.Model, row ref.Row) error) {
		u := p.UUID()
		row := fullRow(p.Intn(1000) + 100)
		mdl := m.NewModel(t.Name, u, row)
		if err := do(u, mdl, row); err != nil {
			return
		}
		before := e.dump()
		n := mutateAll(mdl)
		r.Eval(1)
		r.Distinct("write|" + path + "|" + kinds)
		if after := e.dump(); after != before {
			r.Violation("C13/write-path-aliases-caller-model/"+path, fmt.Sprintf("after %s the cache changes when the caller mutates the model it handed over (%d in-place mutations)", path, n),
				map[string]interface{}{"schema": string(s.JSON()), "before": before, "after": after})
		}
	}
	for i := 0; i < 3; i++ {
		writeProbe("Create", func(u string, mdl model.Model, row ref.Row) error { return rc.Create(u, mdl, true) })
	}
	writeProbe("Update", func(u string, mdl model.Model, row ref.Row) error {
		if err := rc.Create(u, m.NewModel(t.Name, u, fullRow(p.Intn(1000)+2000)), true); err != nil {
			return err
		}
		_, err := rc.Update(u, mdl, true)
		return err
	})
	writeProbe("Populate2(insert)", func(u string, mdl model.Model, row ref.Row) error {
		wire := ovsdb.Row{}
		for _, c := range t.Cols {
			wire[c.Name] = dyn.ToOvs(c, row[c.Name])
		}
		b, _ := json.Marshal(wire)
		var back ovsdb.Row
		if err := json.Unmarshal(b, &back); err != nil {
			return err
		}
		err := tc.Populate2(ovsdb.TableUpdates2{t.Name: {u: &ovsdb.RowUpdate2{Insert: &back}}})
		// mutate the decoded row the caller still holds
		for k, v := range back {
			switch x := v.(type) {
			case ovsdb.OvsSet:
				for i := range x.GoSet {
					x.GoSet[i] = "mutated"
				}
			case ovsdb.OvsMap:
				for kk := range x.GoMap {
					x.GoMap[kk] = "mutated"
				}
			default:
				back[k] = "mutated"
			}
		}
		return err
	})
	// read paths
	paths := e.readPaths()
	names := make([]string, 0, len(paths))
	for k := range paths {
		names = append(names, k)
	}
	sort.Strings(names)
	for _, pn := range names {
		before := e.dump()
		got := paths[pn]()
		n := 0
		for _, mdl := range got {
			n += mutateAll(mdl)
		}
		r.Eval(1)
		if len(got) > 0 {
			r.Distinct("read|" + pn + "|" + kinds)
			r.Count("read_probes."+pn, 1)
			if r.NeedSample() {
				r.Sample(map[string]interface{}{"read_path": pn, "models_returned": len(got), "in_place_mutations": n, "column_kinds": kinds, "cache_dump_before": before})
			}
		}
		if after := e.dump(); after != before {
			r.Violation("C13/read-path-returns-cache-memory/"+pn, fmt.Sprintf("mutating the models returned by %s (%d in-place mutations on %d models) changes what the cache returns next", pn, n, len(got)),
				map[string]interface{}{"schema": string(s.JSON()), "before": before, "after": after})
			// repair the cache for the next probes
			return
		}
	}
	// updates through Populate2 so that update/delete events carry old models
	us := []string{}
	for u := range rc.RowsShallow() {
		us = append(us, u)
	}
	sort.Strings(us)
	before := ""
	for i, u := range us {
		if i%2 == 0 {
			col := t.Cols[p.Intn(len(t.Cols))]
			if col.Name == "name" {
				continue
			}
			_, cur, _ := m.RowOf(t.Name, rc.Row(u))
			nv := g.Value(col, nil, nil)
			if nv.Equal(cur[col.Name]) {
				continue
			}
			next := cur.Clone()
			next[col.Name] = nv
			mod := ref.Modify2(t, cur, next, nil)
			wire := ovsdb.Row{}
			for cn, d := range mod {
				wire[cn] = dyn.ToOvs(t.Col(cn), d)
			}
			b, _ := json.Marshal(wire)
			var back ovsdb.Row
			_ = json.Unmarshal(b, &back)
			_ = tc.Populate2(ovsdb.TableUpdates2{t.Name: {u: &ovsdb.RowUpdate2{Modify: &back}}})
		}
	}
	// let the dispatcher deliver (and the handler mutate) everything queued so far
	sentinel := p.UUID()
	_ = rc.Create(sentinel, m.NewModel(t.Name, sentinel, fullRow(99999)), true)
	before = e.dump()
	_ = tc.Populate2(ovsdb.TableUpdates2{t.Name: {sentinel: &ovsdb.RowUpdate2{Delete: &ovsdb.Row{}}}})
	waitFor(func() bool { h.mu.Lock(); defer h.mu.Unlock(); return h.seen > 0 })
	// after all handlers ran (they mutated every model they were given) the cache still equals itself minus the sentinel
	r.Eval(1)
	r.Distinct("events|" + kinds)
	after := e.dump()
	want := strings.Join(filterLines(strings.Split(before, "\n"), sentinel), "\n")
	if after != want {
		r.Violation("C13/event-handler-argument-aliases-cache", "a handler mutating the models it is given changes what the cache returns", map[string]interface{}{"schema": string(s.JSON()), "before": want, "after": after})
	}
	// self-check of the detector: a mutation through RowsShallow must show
	if batch == 0 && round == 0 {
		b0 := e.dump()
		n := 0
		for _, mdl := range rc.RowsShallow() {
			n += mutateAll(mdl)
		}
		if n > 0 && e.dump() == b0 {
			r.Inconclusive("self-check failed: mutating through RowsShallow did not change the dump (detector blind)")
		} else if n > 0 {
			r.Count("detector_self_check_passed", 1)
		}
	}
}

func filterLines(l []string, without string) []string {
	var out []string
	for _, x := range l {
		if !strings.HasPrefix(x, without+":") {
			out = append(out, x)
		}
	}
	return out
}

func waitFor(cond func() bool) {
	for i := 0; i < 2000; i++ {
		if cond() {
			return
		}
		// yield to the dispatcher goroutine; logical completion is awaited, no verdict depends on the time taken
		sleepShort()
	}
}

// ---- Clone / Equal laws ---------------------------------------------------------------

type handModel struct {
	UUID        string            `ovsdb:"_uuid"`
	Name        string            `ovsdb:"name"`
	Ports       []string          `ovsdb:"ports"`
	ExternalIDs map[string]string `ovsdb:"external_ids"`
	Tag         *int              `ovsdb:"tag"`
	Weights     map[string]int    `ovsdb:"weights"`
	Reals       []float64         `ovsdb:"reals"`
	Enabled     *bool             `ovsdb:"enabled"`
	Note        string            // untagged
}

func sharesMemory(a, b model.Model) string {
	va, vb := reflect.ValueOf(a).Elem(), reflect.ValueOf(b).Elem()
	for i := 0; i < va.NumField(); i++ {
		fa, fb := va.Field(i), vb.Field(i)
		switch fa.Kind() {
		case reflect.Slice:
			if fa.Len() > 0 && fb.Len() > 0 && fa.Pointer() == fb.Pointer() {
				return va.Type().Field(i).Name + " (slice backing array)"
			}
		case reflect.Map, reflect.Ptr:
			if !fa.IsNil() && !fb.IsNil() && fa.Pointer() == fb.Pointer() {
				return va.Type().Field(i).Name + " (" + fa.Kind().String() + ")"
			}
		}
	}
	return ""
}

// perturb changes exactly field i of a copy of m (returns nil if not possible).
func perturb(m model.Model, i int) model.Model {
	c := deepCopyModel(m)
	f := reflect.ValueOf(c).Elem().Field(i)
	if !f.CanSet() {
		return nil
	}
	switch f.Kind() {
	case reflect.Slice:
		if f.Len() > 0 {
			scramble(f.Index(0))
		} else {
			n := reflect.MakeSlice(f.Type(), 1, 1)
			scramble(n.Index(0))
			f.Set(n)
		}
	case reflect.Map:
		if f.IsNil() {
			f.Set(reflect.MakeMap(f.Type()))
		}
		k := reflect.New(f.Type().Key()).Elem()
		scramble(k)
		v := reflect.New(f.Type().Elem()).Elem()
		scramble(v)
		if f.MapIndex(k).IsValid() {
			f.SetMapIndex(k, reflect.Value{})
		} else {
			f.SetMapIndex(k, v)
		}
	case reflect.Ptr:
		if f.IsNil() {
			f.Set(reflect.New(f.Type().Elem()))
			scramble(f.Elem())
		} else if f.Elem().Kind() == reflect.Bool || f.Elem().Kind() == reflect.Int || f.Elem().Kind() == reflect.String || f.Elem().Kind() == reflect.Float64 {
			scramble(f.Elem())
		} else {
			return nil
		}
	case reflect.String, reflect.Int, reflect.Float64, reflect.Bool:
		scramble(f)
	default:
		return nil
	}
	return c
}

func cloneLaws(r *ev.Run, kind string, m model.Model, desc string) {
	r.Eval(1)
	r.Distinct("clone|" + kind + "|" + desc)
	wit := map[string]interface{}{"model_kind": kind, "model": fmt.Sprintf("%+v", reflect.ValueOf(m).Elem().Interface())}
	snap := deepCopyModel(m)
	c := model.Clone(m)
	if !reflect.DeepEqual(m, snap) {
		r.Violation("C13/clone/alters-source/"+kind, "Clone altered its argument", wit)
	}
	if !model.Equal(m, c) {
		cls := kind
		mt := reflect.TypeOf(m).Elem()
		for i := 0; i < mt.NumField(); i++ {
			if ft := mt.Field(i).Type; ft.Kind() == reflect.Map && (ft.Key().Kind() == reflect.Float64 || ft.Key().Kind() == reflect.Bool) {
				cls = kind + "/map-keyed-by-real-or-boolean"
			}
		}
		r.Violation("C13/clone/not-equal/"+cls, "Equal(m, Clone(m)) is false", wit)
		return
	}
	if !model.Equal(c, m) {
		r.Violation("C13/equal/not-symmetric/"+kind, "Equal(Clone(m), m) is false although Equal(m, Clone(m)) is true", wit)
	}
	if !model.Equal(m, m) {
		r.Violation("C13/equal/not-reflexive/"+kind, "Equal(m, m) is false", wit)
	}
	if f := sharesMemory(m, c); f != "" {
		r.Violation("C13/clone/shares-memory/"+kind, "Clone shares memory with its argument: field "+f, wit)
	}
	mutateAll(c)
	if !reflect.DeepEqual(m, snap) {
		r.Violation("C13/clone/mutation-shows-in-source/"+kind, "mutating the clone changes the source", wit)
	}
	// CloneInto a pre-filled destination
	dst := deepCopyModel(m)
	mutateAll(dst)
	model.CloneInto(m, dst)
	if !model.Equal(m, dst) {
		r.Violation("C13/cloneinto/not-equal/"+kind, "after CloneInto(m, dst) on a pre-filled destination Equal(m, dst) is false", wit)
	}
	// one-field perturbations
	n := reflect.ValueOf(m).Elem().NumField()
	for i := 0; i < n; i++ {
		fld := reflect.ValueOf(m).Elem().Type().Field(i)
		if fld.Tag.Get("ovsdb") == "" {
			continue // only mapped fields are part of the contract
		}
		pm := perturb(m, i)
		if pm == nil || reflect.DeepEqual(pm, m) {
			continue
		}
		r.Eval(1)
		if model.Equal(m, pm) || model.Equal(pm, m) {
			r.Violation("C13/equal/blind-to-field/"+kind+"/"+fld.Type.String(), fmt.Sprintf("Equal is true for models differing in field %s", fld.Name), wit)
		}
	}
}

// onlyAtoms reduces a table to its scalar and optional columns and makes sure it has two
// optional ones: the run-time model then has no slice and no map field.
func onlyAtoms(t *tspace.Table) {
	var keep []*tspace.Col
	opt := 0
	for _, c := range t.Cols {
		if c.IsScalar() || c.IsOptional() {
			keep = append(keep, c)
			if c.IsOptional() {
				opt++
			}
		}
	}
	for i, typ := range []string{"string", "integer"} {
		if opt+i < 2 {
			keep = append(keep, &tspace.Col{Name: fmt.Sprintf("opt_extra%d", i), Key: tspace.Base{Type: typ}, Min: 0, Max: 1})
		}
	}
	t.Cols = keep
	t.Indexes = nil
}

// handAtoms is a hand-written model with scalar and optional columns only.
type handAtoms struct {
	UUID    string  `ovsdb:"_uuid"`
	Name    string  `ovsdb:"name"`
	Tag     *int    `ovsdb:"tag"`
	Enabled *bool   `ovsdb:"enabled"`
	Note    *string `ovsdb:"note"`
}

func c13CloneLaws(r *ev.Run, p *prng.R) {
	// run-time models over the whole type space (JSON clone path)
	o := tspace.Full(1)
	o.Refs, o.NonRoot, o.Indexes = false, false, false
	o.OddMapKeys = true
	o.MaxCols = 8
	s := tspace.Gen(p, o)
	t := s.Tables[0]
	if p.Chance(1, 3) {
		onlyAtoms(t)
	}
	m, err := dyn.Build(s, nil)
	if err == nil {
		g := gen.New(p, s)
		for i := 0; i < 6; i++ {
			row := ref.Row{}
			for _, c := range t.Cols {
				if p.Chance(4, 5) {
					row[c.Name] = g.Value(c, nil, nil)
				}
			}
			var ds []string
			for _, c := range t.Cols {
				if d, ok := row[c.Name]; ok && d.Len() > 0 {
					ds = append(ds, strings.SplitN(c.Desc(), "[", 2)[0])
				}
			}
			sort.Strings(ds)
			cloneLaws(r, "runtime-struct", m.NewModel(t.Name, p.UUID(), row), strings.Join(uniq(ds), ","))
		}
	}
	// hand-written struct
	for i := 0; i < 4; i++ {
		h := &handModel{UUID: p.UUID(), Name: fmt.Sprintf("n%d", p.Intn(5)), Note: "x"}
		desc := []string{}
		if p.Bool() {
			h.Ports = []string{"a", "b", "c"}[:p.Intn(4)]
			desc = append(desc, "ports")
		}
		if p.Bool() {
			h.ExternalIDs = map[string]string{}
			for j := p.Intn(3); j > 0; j-- {
				h.ExternalIDs[fmt.Sprintf("k%d", j)] = "v"
			}
			desc = append(desc, fmt.Sprintf("ids%d", len(h.ExternalIDs)))
		}
		if p.Bool() {
			x := p.Intn(3)
			h.Tag = &x
			desc = append(desc, "tag")
		}
		if p.Bool() {
			h.Weights = map[string]int{"a": 1, "": 0}
			desc = append(desc, "weights")
		}
		if p.Bool() {
			h.Reals = []float64{0.5, -1, 1e-9}
			desc = append(desc, "reals")
		}
		if p.Bool() {
			b := p.Bool()
			h.Enabled = &b
			desc = append(desc, "enabled")
		}
		cloneLaws(r, "hand-written-struct", h, strings.Join(desc, ","))
	}
	// hand-written struct without slice or map fields
	for i := 0; i < 3; i++ {
		h := &handAtoms{UUID: p.UUID(), Name: fmt.Sprintf("n%d", p.Intn(5))}
		desc := []string{"atoms"}
		if p.Chance(2, 3) {
			x := p.Intn(3)
			h.Tag = &x
			desc = append(desc, "tag")
		}
		if p.Chance(2, 3) {
			b := p.Bool()
			h.Enabled = &b
			desc = append(desc, "enabled")
		}
		if p.Chance(2, 3) {
			n := "note"
			h.Note = &n
			desc = append(desc, "note")
		}
		cloneLaws(r, "hand-written-struct", h, strings.Join(desc, ","))
	}
	// generated model with its own deep copy / equality
	for i := 0; i < 3; i++ {
		d := &serverdb.Database{UUID: p.UUID(), Name: fmt.Sprintf("db%d", p.Intn(3)), Model: []string{"standalone", "clustered"}[p.Intn(2)], Connected: p.Bool(), Leader: p.Bool(), Schema: nil}
		desc := "plain"
		if p.Bool() {
			x := p.UUID()
			d.Sid = &x
			y := p.UUID()
			d.Cid = &y
			z := p.Intn(100)
			d.Index = &z
			sc := "{}"
			d.Schema = &sc
			desc = "pointers"
		}
		cloneLaws(r, "generated-struct", d, desc)
	}
}

func c13Child(r *ev.Run, batch int) {
	rounds := r.N(40, 9000)
	for ri := 0; ri < rounds; ri++ {
		p := prng.Derive(r.Seed, "C13", batch, ri)
		r.LogCase(fmt.Sprintf("C13 batch=%d round=%d", batch, ri))
		func() {
			defer func() {
				if pv := recover(); pv != nil {
					r.Violation("C13/panic/"+ev.PanicSignature(fmt.Sprint(pv), ""), fmt.Sprintf("panic: %v", pv), nil)
				}
			}()
			c13CacheProbes(r, p, batch, ri)
			c13CloneLaws(r, p)
		}()
	}
}
