package checks

import (
	"encoding/json"
	"fmt"
	"os"
	"sort"
	"strings"
	"time"

	"github.com/ovn-org/libovsdb/ovsdb"
	"verifharness/internal/dyn"
	"verifharness/internal/peer"
	"verifharness/internal/prng"
	"verifharness/internal/ref"
	"verifharness/internal/tspace"
)

// monReq is one monitor registered by a raw peer.
type monReq struct {
	ID      string // JSON text of the monitor id
	Method  string // monitor | monitor_cond | monitor_cond_since
	Tables  map[string]*monTable
	PeerIdx int
}

type monTable struct {
	Columns   []string // nil = omitted (all columns)
	HasSelect bool
	Initial   *bool
	Insert    *bool
	Delete    *bool
	Modify    *bool
}

func flag(p *bool) bool { return p == nil || *p }

func (t *monTable) cols(tb *tspace.Table) map[string]bool {
	out := map[string]bool{}
	if t.Columns == nil {
		for _, c := range tb.Cols {
			out[c.Name] = true
		}
		return out
	}
	for _, c := range t.Columns {
		out[c] = true
	}
	return out
}

func (t *monTable) json() map[string]interface{} {
	m := map[string]interface{}{}
	if t.Columns != nil {
		m["columns"] = t.Columns
	}
	if t.HasSelect {
		sel := map[string]interface{}{}
		if t.Initial != nil {
			sel["initial"] = *t.Initial
		}
		if t.Insert != nil {
			sel["insert"] = *t.Insert
		}
		if t.Delete != nil {
			sel["delete"] = *t.Delete
		}
		if t.Modify != nil {
			sel["modify"] = *t.Modify
		}
		m["select"] = sel
	}
	return m
}

func (m *monReq) desc() string {
	var l []string
	for tn, t := range m.Tables {
		c := "all"
		if t.Columns != nil {
			c = fmt.Sprintf("%dcols", len(t.Columns))
		}
		sel := "nosel"
		if t.HasSelect {
			sel = fmt.Sprintf("i%v/n%v/d%v/m%v", flagS(t.Initial), flagS(t.Insert), flagS(t.Delete), flagS(t.Modify))
		}
		l = append(l, tn+":"+c+":"+sel)
	}
	sort.Strings(l)
	return m.Method + "{" + strings.Join(l, ",") + "}"
}

func flagS(p *bool) string {
	if p == nil {
		return "-"
	}
	if *p {
		return "1"
	}
	return "0"
}

// genMonReq generates a random monitor request.
func genMonReq(p *prng.R, s *tspace.Schema, id int, allowNoSelect, allowOmittedColumns bool) *monReq {
	m := &monReq{ID: fmt.Sprintf(`"mon%d"`, id), Method: []string{"monitor", "monitor_cond", "monitor_cond_since"}[p.Intn(3)], Tables: map[string]*monTable{}}
	for len(m.Tables) == 0 {
		for _, t := range s.Tables {
			if !p.Chance(2, 3) {
				continue
			}
			mt := &monTable{}
			if !(allowOmittedColumns && p.Chance(1, 4)) {
				mt.Columns = []string{}
				for _, c := range t.Cols {
					if p.Chance(2, 3) {
						mt.Columns = append(mt.Columns, c.Name)
					}
				}
			}
			if !(allowNoSelect && p.Chance(1, 5)) {
				mt.HasSelect = true
				pick := func() *bool {
					switch p.Intn(4) {
					case 0:
						return nil
					case 1:
						b := false
						return &b
					}
					b := true
					return &b
				}
				mt.Initial, mt.Insert, mt.Delete, mt.Modify = pick(), pick(), pick(), pick()
			}
			m.Tables[t.Name] = mt
		}
	}
	return m
}

// register sends the monitor request and returns the raw reply.
func (m *monReq) register(pr *peer.Peer, db string) (json.RawMessage, error) {
	req := map[string]interface{}{}
	for tn, t := range m.Tables {
		req[tn] = t.json()
	}
	args := []interface{}{db, json.RawMessage(m.ID), req}
	if m.Method == "monitor_cond_since" {
		args = append(args, "00000000-0000-0000-0000-000000000000")
	}
	var reply json.RawMessage
	err := pr.Call(m.Method, args, &reply, 30*time.Second)
	return reply, err
}

// rowChangeW is a row-level difference on one table.
type rowChangeW struct {
	table    string
	uuid     string
	old, new ref.Row
}

func dbDelta(pre, post *ref.DB) []rowChangeW {
	var out []rowChangeW
	for _, t := range pre.S.Tables {
		a, b := pre.T[t.Name], post.T[t.Name]
		for u, r := range a {
			if nr, ok := b[u]; !ok {
				out = append(out, rowChangeW{t.Name, u, r, nil})
			} else if !nr.Equal(r) {
				out = append(out, rowChangeW{t.Name, u, r, nr})
			}
		}
		for u, r := range b {
			if _, ok := a[u]; !ok {
				out = append(out, rowChangeW{t.Name, u, nil, r})
			}
		}
	}
	return out
}

// decoded notification
type notif struct {
	Method string
	ID     string
	V1     ovsdb.TableUpdates
	V2     ovsdb.TableUpdates2
	Raw    string
}

func decodeNotif(m peer.Msg) (*notif, error) {
	n := &notif{Method: m.Method}
	var raws []string
	for _, p := range m.Params {
		raws = append(raws, string(p))
	}
	n.Raw = strings.Join(raws, " ")
	if len(m.Params) < 2 {
		return n, fmt.Errorf("%s with %d params", m.Method, len(m.Params))
	}
	n.ID = string(m.Params[0])
	switch m.Method {
	case "update":
		if err := json.Unmarshal(m.Params[1], &n.V1); err != nil {
			return n, err
		}
	case "update2":
		if err := json.Unmarshal(m.Params[1], &n.V2); err != nil {
			return n, err
		}
	case "update3":
		if len(m.Params) < 3 {
			return n, fmt.Errorf("update3 with %d params", len(m.Params))
		}
		if err := json.Unmarshal(m.Params[2], &n.V2); err != nil {
			return n, err
		}
	}
	return n, nil
}

func wireScratch() string {
	d := os.Getenv("VERIF_SCRATCH")
	if d == "" {
		d = os.TempDir()
	}
	return d
}

// projected compares rows on a set of columns.
func projEqual(t *tspace.Table, a, b ref.Row, cols map[string]bool) (bool, string) {
	for _, c := range t.Cols {
		if !cols[c.Name] {
			continue
		}
		if !a[c.Name].Equal(b[c.Name]) {
			return false, fmt.Sprintf("column %s (%s): %s vs %s", c.Name, c.Desc(), a[c.Name], b[c.Name])
		}
	}
	return true, ""
}

// rowFromWire decodes a wire row of a table into (given columns, error).
func rowFromWire(m *dyn.Model, table string, r *ovsdb.Row) (ref.Row, error) {
	if r == nil {
		return nil, nil
	}
	return m.RowFromOvs(table, *r)
}
