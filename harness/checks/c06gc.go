package checks

// Directed workload for C06: unique indexes on a NON-ROOT table whose rows come
// and go by garbage collection. A row that the transaction looks at or changes
// loses its last strong referrer while another row (new, or an existing one)
// takes over its index values in the same transaction: the final state has no
// duplicate and must be accepted; taking over the value of a row that STAYS
// referenced must be rejected.

import (
	"fmt"
	"sync/atomic"

	"verifharness/internal/dyn"
	"verifharness/internal/prng"
	"verifharness/internal/ref"
	"verifharness/internal/tspace"
)

func c06GCSchema(p *prng.R) *tspace.Schema {
	str, in := tspace.Base{Type: "string"}, tspace.Base{Type: "integer"}
	item := tspace.Base{Type: "uuid", RefTable: "Item", RefType: "strong"}
	it := &tspace.Table{Name: "Item", IsRoot: false, Indexes: [][]string{{"name"}}, Cols: []*tspace.Col{
		{Name: "name", Key: str, Min: 1, Max: 1},
		{Name: "code", Key: in, Min: 1, Max: 1},
		{Name: "note", Key: str, Min: 1, Max: 1},
	}}
	switch p.Intn(3) {
	case 1:
		it.Indexes = [][]string{{"name"}, {"code"}}
	case 2:
		it.Indexes = [][]string{{"name", "code"}}
	}
	root := &tspace.Table{Name: "Owner", IsRoot: true, Indexes: [][]string{{"name"}}, Cols: []*tspace.Col{
		{Name: "name", Key: str, Min: 1, Max: 1},
		{Name: "items", Key: item, Min: 0, Max: -1},
		{Name: "main", Key: item, Min: 0, Max: 1},
	}}
	return &tspace.Schema{Name: "VDB", Tables: []*tspace.Table{root, it}}
}

// c06GCTxn builds one directed transaction on the schema above.
func c06GCTxn(p *prng.R, s *tspace.Schema, db *ref.DB) []ref.Op {
	owners := dyn.SortedUUIDs(db.T["Owner"])
	items := dyn.SortedUUIDs(db.T["Item"])
	newItem := func(name string, code int64, uname string) ref.Op {
		return ref.Op{Kind: "insert", Table: "Item", UUID: p.UUID(), UUIDName: uname, Row: ref.Row{"name": ref.Set(ref.Str(name)), "code": ref.Set(ref.Int(code)), "note": ref.Set(ref.Str("n"))}}
	}
	if len(owners) == 0 || len(items) < 2 || p.Chance(1, 4) {
		// an owner with two or three items
		var ops []ref.Op
		kids := ref.Datum{}
		for i := 0; i < 2+p.Intn(2); i++ {
			un := fmt.Sprintf("it%d", i)
			ops = append(ops, newItem(fmt.Sprintf("i%d", p.Intn(8)), int64(p.Intn(8)), un))
			kids = kids.With(ref.UUID(un))
		}
		ops = append(ops, ref.Op{Kind: "insert", Table: "Owner", UUID: p.UUID(), Row: ref.Row{"name": ref.Set(ref.Str(fmt.Sprintf("o%d", p.Intn(50)))), "items": kids}})
		return ops
	}
	// pick an item X referenced by exactly one owner column entry
	var x, holder, hcol string
	for _, cand := range items {
		n := 0
		for _, o := range owners {
			for _, cn := range []string{"items", "main"} {
				if db.T["Owner"][o][cn].Has(ref.UUID(cand)) {
					n++
					holder, hcol = o, cn
				}
			}
		}
		if n == 1 {
			x = cand
			if p.Bool() {
				break
			}
		}
	}
	if x == "" {
		return nil
	}
	// recompute the holder of x
	for _, o := range owners {
		for _, cn := range []string{"items", "main"} {
			if db.T["Owner"][o][cn].Has(ref.UUID(x)) {
				holder, hcol = o, cn
			}
		}
	}
	xr := db.T["Item"][x]
	var ops []ref.Op
	switch p.Intn(4) { // touch X first
	case 0:
		ops = append(ops, ref.Op{Kind: "select", Table: "Item", Where: byUUID(x)})
	case 1:
		ops = append(ops, ref.Op{Kind: "update", Table: "Item", Where: byUUID(x), Row: ref.Row{"note": ref.Set(ref.Str("touched"))}})
	case 2:
		ops = append(ops, ref.Op{Kind: "update", Table: "Item", Where: eqStr("name", datumStr(xr["name"])), Row: ref.Row{"note": ref.Set(ref.Str("by-name"))}})
	}
	keep := p.Chance(1, 4) // X stays referenced: the take-over must be rejected
	if !keep {
		ops = append(ops, ref.Op{Kind: "mutate", Table: "Owner", Where: byUUID(holder), Muts: []ref.Mut{{Col: hcol, Mutator: "delete", Val: ref.Set(ref.UUID(x))}}})
	}
	// the successor takes X's index values
	if p.Bool() {
		ops = append(ops, newItem(datumStr(xr["name"]), datumInt(xr["code"]), "successor"))
		ops = append(ops, ref.Op{Kind: "mutate", Table: "Owner", Where: byUUID(owners[p.Intn(len(owners))]), Muts: []ref.Mut{{Col: "items", Mutator: "insert", Val: ref.Set(ref.UUID("successor"))}}})
	} else {
		// an existing, still referenced item is renamed to X's values
		for _, y := range items {
			if y != x {
				ops = append(ops, ref.Op{Kind: "update", Table: "Item", Where: byUUID(y), Row: ref.Row{"name": xr["name"].Clone(), "code": xr["code"].Clone()}})
				break
			}
		}
	}
	if p.Bool() && len(ops) > 2 {
		ops[len(ops)-1], ops[len(ops)-2] = ops[len(ops)-2], ops[len(ops)-1]
	}
	atomic.AddInt64(&c06GCHandOvers, 1)
	return ops
}
