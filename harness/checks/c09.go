package checks

// C09 — model <-> row mapping is lossless for every column type.
// Round-trip identity (model -> NewRow -> JSON -> Row.UnmarshalJSON ->
// GetRowData / CreateModel), the wire form against an independent RFC 7047
// encoder, absent columns leave pre-filled fields untouched, and values of the
// wrong Go type are rejected instead of converted.

import (
	"encoding/json"
	"fmt"
	"math"
	"reflect"
	"sort"
	"strings"

	"github.com/ovn-org/libovsdb/model"
	"github.com/ovn-org/libovsdb/ovsdb"
	"verifharness/internal/dyn"
	"verifharness/internal/ev"
	"verifharness/internal/prng"
	"verifharness/internal/ref"
	"verifharness/internal/tspace"
)

func init() { Register("C09", c09Parent, c09Child) }

func c09Parent(r *ev.Run) {
	r.Rule = "generated schemas over the whole type space (every atomic type in key and value position incl. real/boolean map keys, min/max 0..1, 1..1, 0..n, 1..n, bounded sets, enums, references) x generated rows (empty/singleton/multi collections, nil and non-nil optionals, zero values, integers at 0, +-1, +-2^31, +-2^53, +-(2^53+1), +-2^62, min/max int64); a case is one row round trip or one wrong-type probe; distinct = (column kinds, canonical values)"
	r.Assume("non-finite reals excluded; the all-zero uuid and the empty string are the same 'no uuid' value of a scalar uuid column")
	r.RunBatches(ev.BatchOpts{N: r.N(8, 32)})
}

var c09Ints = []int64{0, 1, -1, 2, 1 << 31, -(1 << 31), 1<<53 - 1, 1 << 53, 1<<53 + 1, -(1<<53 + 1), 1 << 62, -(1 << 62), math.MaxInt64, math.MinInt64, 12345}

func c09Atom(p *prng.R, b tspace.Base) ref.Atom {
	if len(b.Enum) > 0 {
		switch e := b.Enum[p.Intn(len(b.Enum))].(type) {
		case int:
			return ref.Int(int64(e))
		case float64:
			return ref.Real(e)
		case string:
			return ref.Str(e)
		}
	}
	switch b.Type {
	case "integer":
		return ref.Int(c09Ints[p.Intn(len(c09Ints))])
	case "real":
		return ref.Real([]float64{0, 0.5, -1.25, 1e-9, 1e15, 3, 1.0000000000000002}[p.Intn(7)])
	case "boolean":
		return ref.Bool(p.Bool())
	case "string":
		// incl. control characters (JSON needs \uXXXX escapes for them), DEL, a line
		// separator and a character outside the basic plane
		return ref.Str([]string{"", "a", "é\"\\", "set", "map", "uuid", "x y", " ", "\x01", "tab\tnl\n", "\v\x7f", "\u2028", "\U0001F600", "a\x00b"}[p.Intn(14)])
	}
	if p.Chance(1, 6) {
		// a uuid-typed field may hold the name of a row inserted in the same transaction
		// (encoded as ["named-uuid", name]); names are identifiers, case matters
		return ref.UUID([]string{"rowA", "Port_B2", "lsp_x", "N", "myRow_01"}[p.Intn(5)])
	}
	return ref.UUID(p.UUID())
}

func c09IsUUID(s string) bool {
	if len(s) != 36 {
		return false
	}
	for i, ch := range s {
		switch {
		case i == 8 || i == 13 || i == 18 || i == 23:
			if ch != '-' {
				return false
			}
		case !((ch >= '0' && ch <= '9') || (ch >= 'a' && ch <= 'f') || (ch >= 'A' && ch <= 'F')):
			return false
		}
	}
	return true
}

func c09Value(p *prng.R, c *tspace.Col) ref.Datum {
	n := []int{0, 1, 1, 2, 3, 6}[p.Intn(6)]
	if c.Max != -1 && n > c.Max {
		n = c.Max
	}
	if n < c.Min {
		n = c.Min
	}
	d := ref.Datum{Map: c.IsMap()}
	for tries := 0; d.Len() < n && tries < 30; tries++ {
		if c.IsMap() {
			d = d.WithPair(c09Atom(p, c.Key), c09Atom(p, *c.Val))
		} else {
			d = d.With(c09Atom(p, c.Key))
		}
	}
	return d
}

// rfcJSON is the harness's independent RFC 7047 encoder of a column value.
func rfcJSON(c *tspace.Col, d ref.Datum) interface{} {
	atom := func(a ref.Atom) interface{} {
		switch a.T {
		case 'i':
			return json.Number(fmt.Sprint(a.I))
		case 'r':
			return a.F
		case 'b':
			return a.B
		case 's':
			return a.S
		}
		if !c09IsUUID(a.S) {
			return []interface{}{"named-uuid", a.S}
		}
		return []interface{}{"uuid", a.S}
	}
	if c.IsMap() {
		pairs := []interface{}{}
		for i, k := range d.K {
			pairs = append(pairs, []interface{}{atom(k), atom(d.V[i])})
		}
		return []interface{}{"map", pairs}
	}
	if d.Len() == 1 {
		return atom(d.K[0])
	}
	elems := []interface{}{}
	for _, k := range d.K {
		elems = append(elems, atom(k))
	}
	return []interface{}{"set", elems}
}

// canonJSON parses JSON text with exact numbers and sorts set/map members.
func canonJSONText(b []byte) (string, error) {
	dec := json.NewDecoder(strings.NewReader(string(b)))
	dec.UseNumber()
	var v interface{}
	if err := dec.Decode(&v); err != nil {
		return "", err
	}
	return canonJSONValue(v), nil
}

func canonJSONValue(v interface{}) string {
	switch x := v.(type) {
	case []interface{}:
		if len(x) == 2 {
			if tag, ok := x[0].(string); ok && (tag == "set" || tag == "map") {
				if inner, ok := x[1].([]interface{}); ok {
					var l []string
					for _, e := range inner {
						l = append(l, canonJSONValue(e))
					}
					sort.Strings(l)
					return tag + "{" + strings.Join(l, ",") + "}"
				}
			}
		}
		var l []string
		for _, e := range x {
			l = append(l, canonJSONValue(e))
		}
		return "[" + strings.Join(l, ",") + "]"
	case json.Number:
		s := x.String()
		if f, err := x.Float64(); err == nil && !strings.ContainsAny(s, ".eE") {
			_ = f
			return "n" + s
		}
		f, _ := x.Float64()
		return "n" + fmtFloat(f)
	case float64:
		return "n" + fmtFloat(x)
	case string:
		return fmt.Sprintf("%q", x)
	case bool:
		return fmt.Sprint(x)
	case nil:
		return "null"
	case map[string]interface{}:
		var l []string
		for k, e := range x {
			l = append(l, fmt.Sprintf("%q:%s", k, canonJSONValue(e)))
		}
		sort.Strings(l)
		return "{" + strings.Join(l, ",") + "}"
	}
	return fmt.Sprint(v)
}

func fmtFloat(f float64) string {
	if f == math.Trunc(f) && math.Abs(f) < 1e18 {
		return fmt.Sprintf("%d", int64(f))
	}
	return fmt.Sprintf("%g", f)
}

func intClass(d ref.Datum) string {
	big := false
	for _, a := range append(append([]ref.Atom{}, d.K...), d.V...) {
		if a.T == 'i' && (a.I > 1<<53 || a.I < -(1<<53)) {
			big = true
		}
	}
	if big {
		return "integer-beyond-2^53"
	}
	return "value"
}

func c09RoundTrip(r *ev.Run, m *dyn.Model, t *tspace.Table, p *prng.R, viaCreate bool) {
	row := ref.Row{}
	for _, c := range t.Cols {
		if p.Chance(4, 5) {
			row[c.Name] = c09Value(p, c)
		}
	}
	uuid := p.UUID()
	src := m.NewModel(t.Name, uuid, row)
	_, want, err := m.RowOf(t.Name, src)
	if err != nil {
		r.Violation("C09/harness/rowof", err.Error(), nil)
		return
	}
	r.Distinct(t.Name + want.String())
	info, err := m.DB.NewModelInfo(src)
	if err != nil {
		r.Violation("C09/newmodelinfo-error", err.Error(), nil)
		return
	}
	ovsRow, err := m.DB.Mapper.NewRow(info)
	if err != nil {
		r.Violation("C09/newrow-error/"+errClassOf(err.Error()), "NewRow failed on a well-typed model: "+err.Error(), map[string]interface{}{"row": want.String(), "schema": json.RawMessage(m.S.JSON())})
		return
	}
	text, err := json.Marshal(ovsRow)
	if err != nil {
		r.Violation("C09/encode-error/"+errClassOf(err.Error()), "row does not encode: "+err.Error(), map[string]interface{}{"row": want.String()})
		return
	}
	// wire form against the reference encoder, column by column
	var raw map[string]json.RawMessage
	_ = json.Unmarshal(text, &raw)
	for _, c := range t.Cols {
		got, present := raw[c.Name]
		d := want[c.Name]
		if !present {
			if !d.Equal(ref.Default(c)) && !(c.IsScalar() && c.Key.Type == "uuid") {
				r.Violation("C09/wire/non-default-column-omitted/"+c.Desc(), fmt.Sprintf("column %s with non-default value %s is missing from the row %s", c.Name, d, text), nil)
			}
			continue
		}
		gc, err := canonJSONText(got)
		wb, _ := json.Marshal(rfcJSON(c, d))
		wc, _ := canonJSONText(wb)
		if err != nil || gc != wc {
			r.Violation("C09/wire/notation/"+c.Desc(), fmt.Sprintf("column %s value %s is encoded as %s, RFC 7047 notation is %s", c.Name, d, got, wb), nil)
		}
	}
	var back ovsdb.Row
	if err := json.Unmarshal(text, &back); err != nil {
		r.Violation("C09/decode-error/"+errClassOf(err.Error()), "encoded row does not decode: "+err.Error(), map[string]interface{}{"text": string(text)})
		return
	}
	var dst model.Model
	if viaCreate {
		dst, err = model.CreateModel(m.DB, t.Name, &back, uuid)
	} else {
		dst = reflect.New(m.Types[t.Name]).Interface()
		var dinfo interface{}
		_ = dinfo
		di, e2 := m.DB.NewModelInfo(dst)
		if e2 != nil {
			r.Violation("C09/newmodelinfo-error", e2.Error(), nil)
			return
		}
		err = m.DB.Mapper.GetRowData(&back, di)
	}
	if err != nil {
		r.Violation("C09/getrowdata-error/"+errClassOf(err.Error()), "a row produced by NewRow is rejected on the way back: "+err.Error(), map[string]interface{}{"text": string(text), "row": want.String()})
		return
	}
	anyBig := false
	for _, d := range want {
		if intClass(d) != "value" {
			anyBig = true
		}
	}
	_, got, err := m.RowOf(t.Name, dst)
	if err != nil {
		if anyBig && strings.Contains(err.Error(), "duplicate") {
			r.Violation("C09/roundtrip/integer-beyond-2^53", "integers beyond +-2^53 collapse onto each other after the JSON round trip: "+err.Error(), map[string]interface{}{"text": string(text)})
			return
		}
		r.Violation("C09/roundtrip/invalid-model/"+errClassOf(err.Error()), err.Error(), map[string]interface{}{"text": string(text)})
		return
	}
	for _, c := range t.Cols {
		if !got[c.Name].Equal(want[c.Name]) {
			if intClass(want[c.Name]) != "value" {
				r.Violation("C09/roundtrip/integer-beyond-2^53", fmt.Sprintf("column %s (%s): %s became %s after model -> row -> JSON -> row -> model", c.Name, c.Desc(), want[c.Name], got[c.Name]),
					map[string]interface{}{"text": string(text), "schema_column": c.Desc()})
				continue
			}
			r.Violation("C09/roundtrip/value/"+c.Desc(), fmt.Sprintf("column %s: %s became %s after model -> row -> JSON -> row -> model", c.Name, want[c.Name], got[c.Name]),
				map[string]interface{}{"text": string(text), "schema_column": c.Desc()})
		}
	}
	if r.NeedSample() {
		r.Sample(map[string]interface{}{"table": t.Name, "row": want.String(), "wire": json.RawMessage(text)})
	}
}

// c09Absent: columns absent from a row leave pre-filled fields untouched.
func c09Absent(r *ev.Run, m *dyn.Model, t *tspace.Table, p *prng.R) {
	pre := ref.Row{}
	for _, c := range t.Cols {
		pre[c.Name] = c09Value(p, c)
	}
	dst := m.NewModel(t.Name, p.UUID(), pre)
	_, before, _ := m.RowOf(t.Name, dst)
	row := ref.Row{}
	for _, c := range t.Cols {
		if p.Bool() {
			row[c.Name] = c09Value(p, c)
			if p.Chance(1, 3) {
				row[c.Name] = ref.Default(c) // "", 0, false, unset, empty: given all the same
			}
		}
	}
	r.Distinct("absent" + t.Name + before.String() + row.String())
	wire := ovsdb.Row{}
	for cn, d := range row {
		wire[cn] = dyn.ToOvs(t.Col(cn), d)
	}
	text, _ := json.Marshal(wire)
	var back ovsdb.Row
	if json.Unmarshal(text, &back) != nil {
		return
	}
	di, _ := m.DB.NewModelInfo(dst)
	if err := m.DB.Mapper.GetRowData(&back, di); err != nil {
		big := false
		for _, d := range row {
			if intClass(d) != "value" {
				big = true
			}
		}
		if !big {
			r.Violation("C09/absent/getrowdata-error/"+errClassOf(err.Error()), err.Error(), map[string]interface{}{"text": string(text)})
		}
		return
	}
	_, after, err := m.RowOf(t.Name, dst)
	if err != nil {
		return
	}
	for _, c := range t.Cols {
		if d, given := row[c.Name]; given {
			// a column the row gives replaces what the field held, whatever the value
			if intClass(d) == "value" && !after[c.Name].Equal(d) {
				r.Violation("C09/given-column-does-not-replace-field/"+c.Desc(), fmt.Sprintf("column %s given as %s, field held %s before and holds %s afterwards", c.Name, d, before[c.Name], after[c.Name]), map[string]interface{}{"text": string(text)})
			}
			continue
		}
		if !after[c.Name].Equal(before[c.Name]) {
			r.Violation("C09/absent-column-changes-field/"+c.Desc(), fmt.Sprintf("column %s absent from the row, field changed from %s to %s", c.Name, before[c.Name], after[c.Name]), map[string]interface{}{"text": string(text)})
		}
	}
}

// wrongTyped returns values of a Go type that does not match the column.
func wrongTyped(c *tspace.Col) []interface{} {
	var out []interface{}
	gt := dyn.GoType(c)
	cands := []interface{}{int32(1), int64(1), uint(1), float32(1.5), 1.5, 1, "x", true, []interface{}{"a"}, []string{"a"}, []int{1}, []float64{1},
		map[string]interface{}{"a": 1}, map[string]string{"a": "b"}, map[interface{}]interface{}{"a": "b"}, ovsdb.UUID{GoUUID: "x"}, nil,
		func() *string { s := "x"; return &s }(), func() *int { i := 1; return &i }(), []bool{true}, map[string]int{"a": 1}, map[int]string{1: "a"}}
	for _, v := range cands {
		if v == nil || reflect.TypeOf(v) != gt {
			out = append(out, v)
		}
	}
	return out
}

// wrongWire returns decoded wire values that do not fit the column type.
func wrongWire(c *tspace.Col) []interface{} {
	var out []interface{}
	add := func(v interface{}) { out = append(out, v) }
	switch {
	case c.IsMap():
		add("x")
		add(1.0)
		add(ovsdb.OvsSet{GoSet: []interface{}{"a"}})
		if c.Key.Type != "string" {
			add(ovsdb.OvsMap{GoMap: map[interface{}]interface{}{"k": wireOK(c.Val.Type)}})
		} else {
			add(ovsdb.OvsMap{GoMap: map[interface{}]interface{}{1.0: wireOK(c.Val.Type)}})
		}
		if c.Val.Type == "integer" {
			add(ovsdb.OvsMap{GoMap: map[interface{}]interface{}{wireOK(c.Key.Type): -3.75}})
		}
		if c.Key.Type == "integer" {
			add(ovsdb.OvsMap{GoMap: map[interface{}]interface{}{-0.5: wireOK(c.Val.Type)}})
		}
		if c.Val.Type != "string" {
			add(ovsdb.OvsMap{GoMap: map[interface{}]interface{}{wireOK(c.Key.Type): "v"}})
		} else {
			add(ovsdb.OvsMap{GoMap: map[interface{}]interface{}{wireOK(c.Key.Type): true}})
		}
	default:
		for _, v := range []interface{}{"x", 1.0, 1.5, -1.5, -0.25, true, ovsdb.UUID{GoUUID: "00000001-0000-4000-8000-000000000000"}} {
			if !wireFits(c.Key.Type, v) {
				add(v)
				if !c.IsScalar() {
					add(ovsdb.OvsSet{GoSet: []interface{}{v}})
				}
			}
		}
		add(ovsdb.OvsMap{GoMap: map[interface{}]interface{}{"a": "b"}})
		if c.IsOptional() {
			add(ovsdb.OvsSet{GoSet: []interface{}{wireOK(c.Key.Type), wireOK2(c.Key.Type)}})
		}
	}
	return out
}

func wireOK(t string) interface{} {
	switch t {
	case "integer":
		return 1.0
	case "real":
		return 2.5
	case "boolean":
		return true
	case "string":
		return "s"
	}
	return ovsdb.UUID{GoUUID: "00000001-0000-4000-8000-000000000000"}
}

func wireOK2(t string) interface{} {
	switch t {
	case "integer":
		return 2.0
	case "real":
		return 3.5
	case "boolean":
		return false
	case "string":
		return "t"
	}
	return ovsdb.UUID{GoUUID: "00000002-0000-4000-8000-000000000000"}
}

func wireFits(t string, v interface{}) bool {
	switch x := v.(type) {
	case string:
		return t == "string"
	case float64:
		if t == "real" {
			return true
		}
		return t == "integer" && x == math.Trunc(x)
	case bool:
		return t == "boolean"
	case ovsdb.UUID:
		return t == "uuid"
	}
	return false
}

func c09WrongTypes(r *ev.Run, m *dyn.Model, t *tspace.Table) {
	for _, c := range t.Cols {
		cs := m.Ovs.Tables[t.Name].Columns[c.Name]
		for _, v := range wrongTyped(c) {
			r.Eval(1)
			r.Distinct(fmt.Sprintf("wrongnative|%s|%T", c.Desc(), v))
			func() {
				defer func() {
					if p := recover(); p != nil {
						r.Violation(fmt.Sprintf("C09/wrong-type/panic/NativeToOvs/%s/%T", c.Kind(), v), fmt.Sprintf("NativeToOvs(%s, %T) panicked: %v", c.Desc(), v, p), nil)
					}
				}()
				if v == nil {
					return // NativeToOvs(nil) is a programming error outside the mapping (reflect.TypeOf(nil))
				}
				if _, err := ovsdb.NativeToOvs(cs, v); err == nil {
					r.Violation(fmt.Sprintf("C09/wrong-type/accepted/NativeToOvs/%s/%T", c.Desc(), v), fmt.Sprintf("NativeToOvs accepts a %T for column %s (%s)", v, c.Name, c.Desc()), nil)
				}
			}()
			func() {
				defer func() {
					if p := recover(); p != nil {
						r.Violation(fmt.Sprintf("C09/wrong-type/panic/SetField/%s/%T", c.Kind(), v), fmt.Sprintf("SetField(%s, %T) panicked: %v", c.Desc(), v, p), nil)
					}
				}()
				if v == nil {
					return
				}
				dst := reflect.New(m.Types[t.Name]).Interface()
				di, _ := m.DB.NewModelInfo(dst)
				if err := di.SetField(c.Name, v); err == nil {
					r.Violation(fmt.Sprintf("C09/wrong-type/accepted/SetField/%s/%T", c.Desc(), v), fmt.Sprintf("SetField accepts a %T for column %s (%s)", v, c.Name, c.Desc()), nil)
				}
			}()
		}
		for _, v := range wrongWire(c) {
			r.Eval(1)
			r.Distinct(fmt.Sprintf("wrongwire|%s|%T|%v", c.Desc(), v, v))
			func() {
				defer func() {
					if p := recover(); p != nil {
						r.Violation(fmt.Sprintf("C09/wrong-type/panic/OvsToNative/%s/%T", c.Kind(), v), fmt.Sprintf("OvsToNative(%s, %T %v) panicked: %v", c.Desc(), v, v, p), nil)
					}
				}()
				if got, err := ovsdb.OvsToNative(cs, v); err == nil {
					cls := fmt.Sprintf("%T", v)
					if f, ok := v.(float64); ok && f != math.Trunc(f) {
						cls = "fractional-number"
					}
					if s, ok := v.(ovsdb.OvsSet); ok && len(s.GoSet) == 1 {
						if f, ok := s.GoSet[0].(float64); ok && f != math.Trunc(f) {
							cls = "set-of-fractional-number"
						}
					}
					r.Violation(fmt.Sprintf("C09/wrong-type/accepted/OvsToNative/%s/%s", c.Key.Type+":"+c.Kind(), cls), fmt.Sprintf("OvsToNative converts wire value %v (%T) for column %s (%s) into %v instead of rejecting it", v, v, c.Name, c.Desc(), got), nil)
				}
			}()
		}
	}
}

func c09Child(r *ev.Run, batch int) {
	schemas := r.N(6, 60)
	rows := r.N(1000, 2600)
	for si := 0; si < schemas; si++ {
		p := prng.Derive(r.Seed, "C09", batch, si)
		o := tspace.Full(1 + p.Intn(3))
		o.OddMapKeys = true
		o.ScalarRefs = true
		o.MaxCols = 8
		s := tspace.Gen(p, o)
		m, err := dyn.Build(s, nil)
		if err != nil {
			r.Violation("C09/harness/model-build", err.Error(), map[string]interface{}{"schema": string(s.JSON())})
			continue
		}
		for _, t := range s.Tables {
			for _, c := range t.Cols {
				r.SetAdd("column_kinds", strings.SplitN(c.Desc(), "[", 2)[0])
			}
			c09WrongTypes(r, m, t)
		}
		for i := 0; i < rows; i++ {
			t := s.Tables[p.Intn(len(s.Tables))]
			r.Eval(1)
			r.LogCase(fmt.Sprintf("C09 batch=%d schema=%d row=%d table=%s schema=%s", batch, si, i, t.Name, s.JSON()))
			func() {
				defer func() {
					if pv := recover(); pv != nil {
						r.Violation("C09/panic/"+ev.PanicSignature(fmt.Sprint(pv), ""), fmt.Sprintf("panic: %v", pv), map[string]interface{}{"schema": string(s.JSON())})
					}
				}()
				if i%5 == 4 {
					c09Absent(r, m, t, p)
				} else {
					c09RoundTrip(r, m, t, p, i%2 == 0)
				}
			}()
		}
	}
}
