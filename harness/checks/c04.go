package checks

// C04 — referential integrity after every commit.
// Oracles: (I) the stored rows, read back through List, are checked from
// scratch for dangling strong/weak references, unreferenced non-root rows and
// weak columns below their minimum; (R) accept/reject and post-state against
// the reference model's literal commit rules; (D) history independence: the
// same transaction on a fresh twin loaded with the same rows must answer the
// same, and the reference index (GetReferences) must equal the referrers
// recomputed from the rows.

import (
	"fmt"
	"os"
	"sort"
	"strings"

	"github.com/ovn-org/libovsdb/database"
	"verifharness/internal/dyn"
	"verifharness/internal/ev"
	"verifharness/internal/gen"
	"verifharness/internal/prng"
	"verifharness/internal/ref"
	"verifharness/internal/tspace"
	"verifharness/internal/txn"
)

func init() { Register("C04", c04Parent, c04Child) }

func c04Parent(r *ev.Run) {
	r.Rule = "reference-rich generated schemas (root/non-root tables, strong/weak references in scalar, optional, set, map-key and map-value position, self references, cycles, chains) x long histories on one database object; distinct = (operation kinds, reference column kinds touched) of committed transactions that changed reference columns or removed rows"
	r.Assume("garbage collection follows the literal rule of the property: a non-root row survives iff an existing row holds a strong reference to it (self references and cycles keep rows alive)")
	r.Assume("a uuid column holding the all-zero uuid / empty string is 'no reference'")
	r.RunBatches(ev.BatchOpts{N: r.N(16, 64)})
}

func refCols(s *tspace.Schema) map[string]bool {
	out := map[string]bool{}
	for _, t := range s.Tables {
		for _, c := range t.Cols {
			if c.Key.IsRef() || (c.Val != nil && c.Val.IsRef()) {
				out[t.Name+"."+c.Name] = true
			}
		}
	}
	return out
}

// refShape: operation kinds plus the kinds of reference columns they touch.
func refShape(s *tspace.Schema, ops []ref.Op) string {
	var parts []string
	for _, op := range ops {
		t := s.Table(op.Table)
		if t == nil {
			continue
		}
		var d []string
		add := func(cn, pre string) {
			if c := t.Col(cn); c != nil && (c.Key.IsRef() || (c.Val != nil && c.Val.IsRef())) {
				d = append(d, pre+c.Desc())
			}
		}
		for cn := range op.Row {
			add(cn, "")
		}
		for _, mu := range op.Muts {
			add(mu.Col, mu.Mutator)
		}
		sort.Strings(d)
		root := "root"
		if !s.RootSet(op.Table) {
			root = "nonroot"
		}
		parts = append(parts, op.Kind+"@"+root+"("+strings.Join(d, ",")+")")
	}
	sort.Strings(parts)
	return strings.Join(parts, ";")
}

// integrityFindings turns CheckIntegrity output into findings classed by
// kind and column description.
func integrityFindings(pfx string, s *tspace.Schema, bad []string, only map[string]bool) []finding {
	var fs []finding
	seen := map[string]bool{}
	for _, b := range bad {
		kind := strings.SplitN(b, ":", 2)[0]
		if only != nil && !only[kind] {
			continue
		}
		desc := ""
		// "kind: Table/uuid.col -> ..." : find the column
		rest := strings.TrimSpace(strings.SplitN(b, ":", 2)[1])
		if i := strings.Index(rest, "/"); i > 0 {
			tn := rest[:i]
			if j := strings.Index(rest, "."); j > i {
				cn := rest[j+1:]
				if k := strings.IndexAny(cn, " "); k > 0 {
					cn = cn[:k]
				}
				if t := s.Table(tn); t != nil {
					if c := t.Col(cn); c != nil {
						desc = c.Desc()
					}
				}
			}
		}
		sig := fmt.Sprintf("%s/state/%s/%s", pfx, kind, desc)
		if seen[sig] {
			continue
		}
		seen[sig] = true
		fs = append(fs, finding{sig, "stored rows violate referential integrity after a commit: " + b})
	}
	return fs
}

// recomputedReferrers returns spec -> to -> sorted unique referrers from the rows.
func recomputedReferrers(db *ref.DB) map[database.ReferenceSpec]map[string][]string {
	out := map[database.ReferenceSpec]map[string][]string{}
	add := func(spec database.ReferenceSpec, to, from string) {
		if to == ref.ZeroUUID || to == "" {
			return
		}
		if out[spec] == nil {
			out[spec] = map[string][]string{}
		}
		for _, f := range out[spec][to] {
			if f == from {
				return
			}
		}
		out[spec][to] = append(out[spec][to], from)
	}
	for _, t := range db.S.Tables {
		for u, r := range db.T[t.Name] {
			for _, c := range t.Cols {
				d := r[c.Name]
				if c.Key.IsRef() {
					for _, k := range d.K {
						add(database.ReferenceSpec{ToTable: c.Key.RefTable, FromTable: t.Name, FromColumn: c.Name, FromValue: false}, k.S, u)
					}
				}
				if c.Val != nil && c.Val.IsRef() {
					for _, v := range d.V {
						add(database.ReferenceSpec{ToTable: c.Val.RefTable, FromTable: t.Name, FromColumn: c.Name, FromValue: true}, v.S, u)
					}
				}
			}
		}
	}
	return out
}

// referenceIndexSuspects compares GetReferences for every existing row with the recomputation.
func referenceIndexSuspects(m *dyn.Model, e *txn.Engine, db *ref.DB) []string {
	want := recomputedReferrers(db)
	var out []string
	for _, t := range m.S.Tables {
		for u := range db.T[t.Name] {
			got, err := e.DB.GetReferences(m.S.Name, t.Name, u)
			if err != nil {
				out = append(out, fmt.Sprintf("GetReferences(%s,%s): %v", t.Name, u, err))
				continue
			}
			// expected specs for this target
			for spec, byTo := range want {
				if spec.ToTable != t.Name {
					continue
				}
				exp := append([]string{}, byTo[u]...)
				sort.Strings(exp)
				var have []string
				if g, ok := got[spec]; ok {
					have = append(have, g[u]...)
				}
				hs := map[string]bool{}
				for _, h := range have {
					hs[h] = true
				}
				var hl []string
				for h := range hs {
					hl = append(hl, h)
				}
				sort.Strings(hl)
				if strings.Join(hl, ",") != strings.Join(exp, ",") || len(have) != len(hl) {
					out = append(out, fmt.Sprintf("%s/%s via %s.%s(value=%v): index says %v, rows say %v", t.Name, u, spec.FromTable, spec.FromColumn, spec.FromValue, have, exp))
				}
			}
			for spec, g := range got {
				if _, ok := want[spec]; !ok && len(g[u]) > 0 {
					out = append(out, fmt.Sprintf("%s/%s via %s.%s(value=%v): index says %v, rows say none", t.Name, u, spec.FromTable, spec.FromColumn, spec.FromValue, g[u]))
				}
			}
		}
	}
	sort.Strings(out)
	return out
}

// twinCompare runs ops (uncommitted) on the live engine and on a fresh twin
// loaded with the same rows; replies must agree.
func twinCompare(pfx string, m *dyn.Model, live *txn.Engine, pre *ref.DB, ops []ref.Op) []finding {
	twin, err := loadState(m, pre)
	if err != nil {
		return []finding{{pfx + "/twin/cannot-load/" + errClassOf(err.Error()), "a fresh database rejects the rows another database holds: " + err.Error()}}
	}
	a, err1 := live.Transact(cloneOps(ops), false)
	b, err2 := twin.Transact(cloneOps(ops), false)
	if err1 != nil || err2 != nil {
		return nil
	}
	if a.Hung || b.Hung {
		return nil
	}
	if a.Failed != b.Failed || (a.Failed && (a.FailIndex != b.FailIndex || failClass(a) != failClass(b))) {
		return []finding{{fmt.Sprintf("%s/twin-diverges/%s-vs-%s", pfx, replyClass(a), replyClass(b)),
			fmt.Sprintf("the same transaction on two databases holding the same rows is answered differently: live: failed=%v at %d %q %q; fresh twin: failed=%v at %d %q %q",
				a.Failed, a.FailIndex, a.FailErr, a.FailWhy, b.Failed, b.FailIndex, b.FailErr, b.FailWhy)}}
	}
	return nil
}

func replyClass(r *txn.Reply) string {
	if !r.Failed {
		return "accepted"
	}
	return "rejected(" + failClass(r) + ")"
}

// failClass normalises the error of a failed reply: which of several failing
// rows or columns of one operation is reported depends on map iteration order.
func failClass(r *txn.Reply) string {
	if strings.Contains(r.FailErr+" "+r.FailWhy, "not mutable") {
		return "immutable column"
	}
	return errClassOf(r.FailErr)
}

func c04Judge(m *dyn.Model) func(pre *ref.DB, ops []ref.Op) []finding {
	return func(pre *ref.DB, ops []ref.Op) []finding {
		e, err := loadState(m, pre)
		if err != nil {
			return nil
		}
		return c04Step(m, e, pre, ops, nil)
	}
}

// c04Step executes one transaction and applies the C04 oracles.
func c04Step(m *dyn.Model, e *txn.Engine, pre *ref.DB, ops []ref.Op, r *ev.Run) []finding {
	out := pre.Transact(cloneOps(ops))
	rep, err := e.Transact(ops, true)
	if err != nil {
		return []finding{{"C04/harness/encode", "cannot encode operations: " + err.Error()}}
	}
	if rep.Hung {
		return []finding{{"C04/transaction-does-not-terminate/" + refShape(m.S, ops), fmt.Sprintf("Transact did not return within %s on a database of %d rows", txn.HangLimit, pre.Rows())}}
	}
	if out.OutOfDom != "" {
		if r != nil {
			r.Count("out_of_domain", 1)
		}
		return nil
	}
	refRejectsForIntegrity := out.CommitErr == "referential integrity violation" ||
		(out.CommitErr == "constraint violation" && strings.Contains(out.CommitWhy, "weak reference"))
	if rep.Failed {
		if r != nil {
			r.Count("rejected", 1)
		}
		if !out.Failed() && rep.FailIndex >= rep.NOps {
			cls := errClassOf(rep.FailErr)
			if rep.FailErr == "referential integrity violation" || (rep.FailErr == "constraint violation" && strings.Contains(rep.FailWhy, "weak reference")) {
				// The property does not forbid rejecting more than the literal
				// rules require (e.g. a dangling reference held by a row that
				// garbage collection would remove anyway): counted, not judged.
				if r != nil {
					r.Count("conservative_integrity_rejections", 1)
					r.SetAdd("conservative_integrity_rejection_classes", cls+": "+refShape(m.S, ops))
				}
				return nil
			}
			if r != nil {
				r.SetAdd("other_commit_rejections", cls+": "+errClassOf(rep.FailWhy))
			}
			if os.Getenv("VERIF_C04_DEBUG") != "" {
				return []finding{{"C04/debug/commit-rejection/" + cls, rep.FailWhy}}
			}
		}
		if r != nil && refRejectsForIntegrity {
			r.Count("rejected_for_integrity_by_both", 1)
		}
		return nil
	}
	if rep.CommitErr != nil {
		return []finding{{"C04/commit-failed-after-success-reply/" + errClassOf(rep.CommitErr.Error()), "reply reported success but Commit failed: " + rep.CommitErr.Error()}}
	}
	post, err := m.Snapshot(e.DB)
	if err != nil {
		return []finding{{"C04/stored-state-unreadable/" + errClassOf(err.Error()), "database state cannot be read back: " + err.Error()}}
	}
	var fs []finding
	if refRejectsForIntegrity {
		kind := "dangling-strong"
		if out.CommitErr == "constraint violation" {
			kind = "weak-below-min"
		}
		fs = append(fs, finding{fmt.Sprintf("C04/accepted-%s/%s", kind, refShape(m.S, ops)),
			fmt.Sprintf("database accepted a transaction that the integrity rules reject: %s", out.CommitWhy)})
	}
	only := map[string]bool{"dangling-strong": true, "dangling-weak": true, "unreferenced-nonroot": true, "weak-below-min": true}
	fs = append(fs, integrityFindings("C04", m.S, post.CheckIntegrity(), only)...)
	if len(fs) == 0 && !out.Failed() {
		if d := post.Diff(out.Post); d != "" {
			fs = append(fs, finding{"C04/post-state/" + postClass(m.S, ops, d), "database contents after the commit differ from the literal rules: " + d + " (first=database, second=reference)"})
		}
	}
	if r != nil {
		r.Count("committed", 1)
		touched := false
		rc := refCols(m.S)
		for _, op := range ops {
			for cn := range op.Row {
				if rc[op.Table+"."+cn] {
					touched = true
				}
			}
			for _, mu := range op.Muts {
				if rc[op.Table+"."+mu.Col] {
					touched = true
				}
			}
			if op.Kind == "delete" {
				touched = true
			}
		}
		if touched && !post.Equal(pre) {
			r.Distinct(refShape(m.S, ops))
			r.Count("committed_touching_references", 1)
		}
		if post.Rows() < pre.Rows() {
			r.Count("commits_removing_rows", 1)
		}
	}
	return fs
}

func c04Child(r *ev.Run, batch int) {
	schemas := r.N(4, 30)
	txns := r.N(200, 500)
	for si := 0; si < schemas; si++ {
		p := prng.Derive(r.Seed, "C04", batch, si)
		o := tspace.Full(2 + p.Intn(3))
		o.RefBias = 55
		o.Indexes = false
		o.ScalarRefs = p.Chance(1, 3)
		o.MaxCols = 4
		s := tspace.Gen(p, o)
		cascade := si%2 == 1 // directed chain family: multi-iteration garbage collection and weak pruning
		if cascade {
			s = cascadeSchema(p)
		}
		m, err := dyn.Build(s, nil)
		if err != nil {
			r.Violation("C04/harness/model-build", "cannot build run-time model: "+err.Error(), map[string]interface{}{"schema": string(s.JSON())})
			continue
		}
		e, err := txn.New(m)
		if err != nil {
			r.Inconclusive("engine: " + err.Error())
			continue
		}
		g := gen.New(p, s)
		g.NoWait, g.NoSelect = true, true
		g.DanglingPct = 8
		pre := ref.NewDB(s)
		judge := c04Judge(m)
		var hist [][]ref.Op
		restart := func() bool {
			var err error
			if e, err = txn.New(m); err != nil {
				return false
			}
			pre = ref.NewDB(s)
			hist = nil
			return true
		}
		for ti := 0; ti < txns; ti++ {
			ops := g.Txn(pre)
			if cascade && p.Chance(3, 5) {
				ops = cascadeTxn(p, s, pre)
				r.Count("directed_cascade_transactions", 1)
			}
			r.LogCase(fmt.Sprintf("C04 batch=%d schema=%d txn=%d schema=%s ops=%v", batch, si, ti, s.JSON(), opsJSON(ops)))
			r.Eval(1)
			// history independence: the twin must answer like the live database
			if ti%5 == 4 {
				r.Count("twin_comparisons", 1)
				if fs := twinCompare("C04", m, e, pre, ops); len(fs) > 0 {
					report(r, m, pre, ops, fs, nil, hist)
				}
			}
			fs := c04Step(m, e, pre, ops, r)
			if len(fs) > 0 {
				if strings.Contains(fs[0].Sig, "does-not-terminate") {
					report(r, m, pre, ops, fs, nil, hist)
					return
				}
				report(r, m, pre, ops, fs, judge, hist)
			}
			hist = append(hist, cloneOps(ops))
			if r.NeedSample() && len(ops) > 1 && len(fs) == 0 {
				r.Sample(map[string]interface{}{"schema": string(s.JSON()), "transaction": opsJSON(ops)})
			}
			post, err := m.Snapshot(e.DB)
			if err != nil {
				if !restart() {
					break
				}
				continue
			}
			pre = post
			if bad := pre.CheckIntegrity(); len(bad) > 0 {
				r.Count("restarts_after_integrity_violation", 1)
				r.SetAdd("restart_reasons", strings.SplitN(bad[0], ":", 2)[0])
				if !restart() {
					break
				}
				continue
			}
			// reference index vs rows (suspects are confirmed by probes on a twin)
			if ti%7 == 6 {
				r.Count("reference_index_comparisons", 1)
				if sus := referenceIndexSuspects(m, e, pre); len(sus) > 0 {
					r.Count("reference_index_suspects", 1)
					confirmed := false
					for _, t := range s.Tables {
						for u := range pre.T[t.Name] {
							probe := []ref.Op{{Kind: "delete", Table: t.Name, Where: []ref.Cond{{Col: "_uuid", Fn: "==", Val: ref.Set(ref.UUID(u))}}}}
							if fs := twinCompare("C04", m, e, pre, probe); len(fs) > 0 {
								fs[0].What += " (probe after reference index mismatch: " + sus[0] + ")"
								report(r, m, pre, probe, fs, nil, hist)
								confirmed = true
								break
							}
						}
						if confirmed {
							break
						}
					}
					if !confirmed {
						r.Count("reference_index_suspects_without_behavioural_difference", 1)
						r.SetAdd("reference_index_suspect_examples", sus[0])
					}
					if !restart() {
						break
					}
					continue
				}
			}
			if pre.Rows() > 18 {
				if !restart() {
					break
				}
			}
		}
	}
}
