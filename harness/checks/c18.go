package checks

// C18 — client and cache are safe and live under concurrent use.
//
// (A) stress scenarios: one client object shared by many goroutines that call
// the whole API in PRNG order while a direct writer streams notifications, a
// fault proxy cuts the connection and verif pause points stretch the windows
// inside monitor set-up and update handling. Oracles: race detector (reports
// with a libovsdb frame), version-uniform rows on every read path and in every
// event (no torn row), completion of every call (blocked forever = still
// pending long after all load stopped), and convergence of the cache once the
// scenario is over.
// (B) error-path enumeration: each API call is made to fail in each way it can
// and is followed by a probe sequence (Echo, Get, List, Transact, Monitor,
// Disconnect, Connect, Echo, Close); every probe must return.

import (
	"context"
	"fmt"
	"os"
	"reflect"
	"regexp"
	"runtime"
	"sort"
	"strings"
	"sync"
	"sync/atomic"
	"time"

	"github.com/cenkalti/backoff/v4"
	"github.com/go-logr/logr"
	"github.com/ovn-org/libovsdb/cache"
	"github.com/ovn-org/libovsdb/client"
	"github.com/ovn-org/libovsdb/model"
	"github.com/ovn-org/libovsdb/ovsdb"
	"verifharness/internal/dyn"
	"verifharness/internal/ev"
	"verifharness/internal/peer"
	"verifharness/internal/prng"
	"verifharness/internal/proxy"
	"verifharness/internal/ref"
	"verifharness/internal/tspace"
)

func init() { Register("C18", c18Parent, c18Child) }

func c18Parent(r *ev.Run) {
	r.Rule = "(A) scenario = 8-24 goroutines x 40-120 calls each on ONE client (Get by uuid/index, List, Where/WhereAll/WhereCache List, cache Rows/Row/RowByModel/RowsByCondition, Transact, Create+Transact, Monitor, Monitor with an unknown table, MonitorCancel, Echo, Disconnect, Connect, Connected, Schema, CurrentEndpoint, UpdateEndpoints, SetOption) while a direct writer rewrites rows version by version, the proxy cuts the connection several times and pause points delay monitor set-up and update handling; (B) every error path of the list x probe sequence. distinct = (A) multiset of call outcomes per scenario, (B) error path x probe outcome"
	r.Assume("blocked forever is decided after all load has stopped: a call (each has a context deadline of at most 5 s) still pending 60 s later is reported with all goroutine stacks; no verdict depends on latency under load")
	r.Assume("all writers keep the columns (a, b, c, d) of a row at one version; a model mixing versions is a torn row")
	r.RunBatches(ev.BatchOpts{N: r.N(8, 64), Race: true, Timeout: 90 * time.Minute})
}

func c18Schema(extra bool) *tspace.Schema {
	str, in := tspace.Base{Type: "string"}, tspace.Base{Type: "integer"}
	sv := str
	mk := func(name string) *tspace.Table {
		return &tspace.Table{Name: name, IsRoot: true, Indexes: [][]string{{"name"}}, Cols: []*tspace.Col{
			{Name: "name", Key: str, Min: 1, Max: 1},
			{Name: "a", Key: in, Min: 1, Max: 1},
			{Name: "b", Key: str, Min: 1, Max: 1},
			{Name: "c", Key: str, Min: 0, Max: -1},
			{Name: "d", Key: str, Val: &sv, Min: 0, Max: -1},
		}}
	}
	// U is used by the probes, U0..U5 by the stress workers: one monitor per table at most
	s := &tspace.Schema{Name: "VDB", Tables: []*tspace.Table{mk("T"), mk("U"), mk("U0"), mk("U1"), mk("U2"), mk("U3"), mk("U4"), mk("U5")}}
	if extra {
		s.Tables = append(s.Tables, mk("Extra"))
	}
	return s
}

// c18Alien is a model type that belongs to no table.
type c18Alien struct {
	UUID string `ovsdb:"_uuid"`
	Name string `ovsdb:"name"`
}

func c18Row(name string, v int64) ref.Row {
	b := fmt.Sprintf("v%d", v)
	return ref.Row{"name": ref.Set(ref.Str(name)), "a": ref.Set(ref.Int(v)), "b": ref.Set(ref.Str(b)), "c": ref.Set(ref.Str(b)), "d": ref.MapOf([2]ref.Atom{ref.Str("k"), ref.Str(b)})}
}

// c18Torn returns "" when the model is version-uniform.
func c18Torn(m *dyn.Model, table string, mdl model.Model) string {
	_, row, err := m.RowOf(table, mdl)
	if err != nil {
		return "unreadable model: " + err.Error()
	}
	want := c18Row(datumStr(row["name"]), datumInt(row["a"]))
	for _, cn := range []string{"b", "c", "d"} {
		if !row[cn].Equal(want[cn]) {
			return fmt.Sprintf("row %s: a=%d but %s=%s", datumStr(row["name"]), datumInt(row["a"]), cn, row[cn])
		}
	}
	return ""
}

// ---- client hook: random short delays at the pause points ------------------

var (
	c18HookOnce sync.Once
	c18HookMu   sync.Mutex
	c18HookRng  *prng.R
	c18HookHits int64
)

func c18InstallHook() {
	c18HookOnce.Do(func() {
		client.VerifHook = func(point string) {
			c18HookMu.Lock()
			var d time.Duration
			if c18HookRng != nil && c18HookRng.Chance(1, 4) {
				d = time.Duration(20+c18HookRng.Intn(1500)) * time.Microsecond
			}
			c18HookMu.Unlock()
			if d > 0 {
				atomic.AddInt64(&c18HookHits, 1)
				time.Sleep(d)
			}
		}
	})
}

// ---- event handler checking models handed to handlers ----------------------

type c18handler struct {
	m     *dyn.Model
	mu    sync.Mutex
	torn  []string
	n     int64
	trace func(kind, table string, mdl model.Model) // optional, debugging
	cl    client.Client                             // when set, callbacks call back into the client API
	calls int64
}

func (h *c18handler) check(table string, mdl model.Model) {
	n := atomic.AddInt64(&h.n, 1)
	if h.cl != nil && n%16 == 0 {
		// an application reacting to an event from inside the callback; this also happens
		// while the connection is being lost or re-established
		atomic.AddInt64(&h.calls, 1)
		_ = h.cl.Connected()
		_ = h.cl.CurrentEndpoint()
		if n%64 == 0 {
			ctx, cancel := context.WithTimeout(context.Background(), 300*time.Millisecond)
			_ = h.cl.Echo(ctx)
			if mdl != nil {
				_ = h.cl.Get(ctx, model.Clone(mdl))
			}
			cancel()
		}
	}
	if t := c18Torn(h.m, table, mdl); t != "" {
		h.mu.Lock()
		h.torn = append(h.torn, t)
		h.mu.Unlock()
	}
}
func (h *c18handler) OnAdd(table string, mdl model.Model) {
	h.check(table, mdl)
	if h.trace != nil {
		h.trace("add", table, mdl)
	}
}
func (h *c18handler) OnUpdate(table string, old, new model.Model) {
	h.check(table, old)
	h.check(table, new)
	if h.trace != nil {
		h.trace("update", table, new)
	}
}
func (h *c18handler) OnDelete(table string, mdl model.Model) {
	h.check(table, mdl)
	if h.trace != nil {
		h.trace("delete", table, mdl)
	}
}

var _ cache.EventHandler = (*c18handler)(nil)

// ---- environment -------------------------------------------------------------

type c18env struct {
	m      *dyn.Model
	srv    *peer.Server
	px     *proxy.Proxy
	writer *peer.Peer
	cl     client.Client
	uuids  []string // rows of T
}

func (e *c18env) close() {
	if e.writer != nil {
		e.writer.Close()
	}
	if e.px != nil {
		e.px.Close()
	}
	if e.srv != nil {
		e.srv.Close()
	}
}

func c18NewEnv(m *dyn.Model, cm *dyn.Model, tag string, p *prng.R, reconnect bool) (*c18env, error) {
	e := &c18env{m: m}
	dir := wireScratch()
	var err error
	if e.srv, err = peer.StartServer(m, dir, "c18s-"+tag); err != nil {
		return nil, err
	}
	if e.px, err = proxy.New(fmt.Sprintf("%s/c18p-%s.sock", dir, tag), e.srv.Path); err != nil {
		e.close()
		return nil, err
	}
	if e.writer, err = peer.Dial(e.srv.Path); err != nil {
		e.close()
		return nil, err
	}
	var ops []ref.Op
	for i := 0; i < 6; i++ {
		u := p.UUID()
		e.uuids = append(e.uuids, u)
		ops = append(ops, ref.Op{Kind: "insert", Table: "T", UUID: u, Row: c18Row(fmt.Sprintf("r%d", i), 0)})
	}
	for i := 0; i < 3; i++ {
		ops = append(ops, ref.Op{Kind: "insert", Table: "U", UUID: p.UUID(), Row: c18Row(fmt.Sprintf("u%d", i), 0)})
	}
	wire, _ := m.WireOps(ops)
	if rs, err := e.writer.Transact(m.S.Name, wire); err != nil || firstErr(rs) != "" {
		e.close()
		return nil, fmt.Errorf("initial rows: %v %s", err, firstErr(rs))
	}
	l := logr.Discard()
	opts := []client.Option{client.WithEndpoint("unix:" + e.px.Listen), client.WithLogger(&l)}
	if reconnect {
		opts = append(opts, client.WithReconnect(500*time.Millisecond, backoff.NewConstantBackOff(5*time.Millisecond)))
	}
	if e.cl, err = client.NewOVSDBClient(cm.Client, opts...); err != nil {
		e.close()
		return nil, err
	}
	return e, nil
}

func allStacks() string {
	buf := make([]byte, 1<<20)
	n := runtime.Stack(buf, true)
	s := string(buf[:n])
	// keep the goroutines that are inside libovsdb
	var keep []string
	for _, g := range strings.Split(s, "\n\n") {
		if strings.Contains(g, "ovn-org/libovsdb") {
			keep = append(keep, g)
		}
	}
	out := strings.Join(keep, "\n\n")
	if len(out) > 60000 {
		out = out[:60000]
	}
	return out
}

// blockedFrame names the libovsdb function most of the stuck harness calls are parked in.
func blockedFrame(stacks, call string) string {
	count := map[string]int{}
	for _, g := range strings.Split(stacks, "\n\n") {
		if !strings.Contains(g, "checks.c18") {
			continue
		}
		for _, ln := range strings.Split(g, "\n") {
			if strings.HasPrefix(ln, "github.com/ovn-org/libovsdb/") {
				f := strings.TrimPrefix(ln, "github.com/ovn-org/libovsdb/")
				if i := strings.LastIndex(f, "("); i > 0 {
					f = f[:i]
				}
				count[f]++
				break
			}
		}
	}
	best, n := "unknown", 0
	for f, c := range count {
		if c > n || (c == n && f < best) {
			best, n = f, c
		}
	}
	return best
}

// ---- (A) stress ----------------------------------------------------------------

type c18worker struct {
	cur   atomic.Value // string: call in flight ("" = none)
	since int64
}

func c18Stress(r *ev.Run, m *dyn.Model, p *prng.R, batch, si int) {
	tag := fmt.Sprintf("%d-%d", batch, si)
	e, err := c18NewEnv(m, m, tag, p, true)
	if err != nil {
		r.Inconclusive("environment: " + err.Error())
		return
	}
	defer e.close()
	e.px.SetKeepPayloads(3000)
	cl := e.cl
	ctx0, cancel0 := context.WithTimeout(context.Background(), 20*time.Second)
	err = cl.Connect(ctx0)
	if err == nil {
		_, err = cl.Monitor(ctx0, cl.NewMonitor(client.WithTable(m.NewModel("T", "", nil))))
	}
	cancel0()
	if err != nil {
		r.Inconclusive("connect/monitor: " + err.Error())
		return
	}
	h := &c18handler{m: m, cl: cl}
	cl.Cache().AddEventHandler(h)
	defer func() { r.Count("client_api_calls_from_inside_event_callbacks", int(atomic.LoadInt64(&h.calls))) }()
	var tlf func(format string, a ...interface{})
	if os.Getenv("VERIF_C18_TRACE") != "" {
		h.trace = func(kind, table string, mdl model.Model) {
			if table != "T" {
				return
			}
			_, row, _ := m.RowOf(table, mdl)
			if datumStr(row["name"]) != "r1" {
				return
			}
			if kind == "update" && row["c"].Len() == 1 && datumInt(row["a"])%20 != 0 {
				return
			}
			tlf("event %s r1 a=%d c=%s", kind, datumInt(row["a"]), row["c"])
		}
	}
	seenCaches := map[*cache.TableCache]bool{cl.Cache(): true}
	var seenMu sync.Mutex
	attach := func() {
		tc := cl.Cache()
		if tc == nil {
			return
		}
		seenMu.Lock()
		if !seenCaches[tc] {
			seenCaches[tc] = true
			tc.AddEventHandler(h)
			if tlf != nil {
				tlf("handler attached to new cache %p", tc)
			}
		}
		seenMu.Unlock()
	}

	c18HookMu.Lock()
	c18HookRng = prng.Derive(int64(p.U64()>>1), "c18hook")
	c18HookMu.Unlock()
	defer func() {
		c18HookMu.Lock()
		c18HookRng = nil
		c18HookMu.Unlock()
	}()

	nWorkers := 8 + p.Intn(9)
	calls := 40 + p.Intn(40)
	if !r.Quick() {
		nWorkers = 8 + p.Intn(17)
		calls = 60 + p.Intn(60)
	}
	var mu sync.Mutex
	outcomes := map[string]int{}
	var torn []string
	var monitors int64
	var cookies []client.MonitorCookie
	t0 := time.Now()
	var timeline []string
	tl := func(format string, a ...interface{}) {
		mu.Lock()
		if len(timeline) < 1500 {
			timeline = append(timeline, fmt.Sprintf("%7.1fms ", float64(time.Since(t0).Microseconds())/1000)+fmt.Sprintf(format, a...))
		}
		mu.Unlock()
	}
	tlf = tl
	note := func(call string, err error) {
		cls := "ok"
		if err != nil {
			cls = errClassOf(err.Error())
		}
		if strings.HasPrefix(call, "Connect") && os.Getenv("VERIF_C18_TRACE") != "" {
			attach()
		}
		if strings.HasPrefix(call, "Disconnect") || strings.HasPrefix(call, "Connect") || strings.HasPrefix(call, "Monitor") {
			tl("%s returned %s", call, cls)
		}
		mu.Lock()
		outcomes[call+": "+cls]++
		mu.Unlock()
	}
	checkModels := func(path, table string, mdls ...model.Model) {
		for _, md := range mdls {
			if t := c18Torn(m, table, md); t != "" {
				mu.Lock()
				first := len(torn) == 0
				torn = append(torn, path+": "+t)
				mu.Unlock()
				if first {
					tl("FIRST TORN ROW %s: %s (cache %p)", path, t, cl.Cache())
					// what did the wire carry for the versions involved?
					for _, v := range regexp.MustCompile(`"v[0-9]+"`).FindAllString(t, -1) {
						for _, pl := range e.px.PayloadsContaining(v) {
							tl("wire message containing %s: %s", v, pl)
						}
					}
				}
			}
		}
	}
	tT := m.Types["T"]
	workers := make([]*c18worker, nWorkers)
	var wg sync.WaitGroup
	stopWriter := make(chan struct{})
	for wi := 0; wi < nWorkers; wi++ {
		w := &c18worker{}
		w.cur.Store("")
		workers[wi] = w
		wg.Add(1)
		go func(wi int, wp *prng.R) {
			defer wg.Done()
			myName := fmt.Sprintf("w%d", wi)
			myVer := int64(0)
			inserted := false
			for ci := 0; ci < calls; ci++ {
				ctx, cancel := context.WithTimeout(context.Background(), time.Duration(200+wp.Intn(2800))*time.Millisecond)
				do := func(name string, f func() error) {
					w.cur.Store(name)
					atomic.StoreInt64(&w.since, time.Now().UnixNano())
					r.LogCase(fmt.Sprintf("C18 stress %s worker %d call %d %s", tag, wi, ci, name))
					err := f()
					w.cur.Store("")
					note(name, err)
				}
				x := wp.Intn(100)
				if dbg := os.Getenv("VERIF_C18_SKIP"); dbg != "" {
					// debugging aid: disable groups of calls (d=Disconnect/Connect, m=Monitor*, t=Transact, o=options/endpoints)
					if (strings.Contains(dbg, "d") && x >= 86 && x < 93) || (strings.Contains(dbg, "m") && x >= 70 && x < 80) ||
						(strings.Contains(dbg, "t") && x >= 54 && x < 70) || (strings.Contains(dbg, "o") && x >= 96) {
						x = 0
					}
				}
				switch {
				case x < 10:
					do("Get(uuid)", func() error {
						md := m.NewModel("T", e.uuids[wp.Intn(len(e.uuids))], nil)
						err := cl.Get(ctx, md)
						if err == nil {
							checkModels("Get(uuid)", "T", md)
						}
						return err
					})
				case x < 18:
					do("Get(index)", func() error {
						md := m.NewModel("T", "", ref.Row{"name": ref.Set(ref.Str(fmt.Sprintf("r%d", wp.Intn(6))))})
						err := cl.Get(ctx, md)
						if err == nil {
							checkModels("Get(index)", "T", md)
						}
						return err
					})
				case x < 28:
					do("List", func() error {
						var res reflect.Value
						ptrs := wp.Bool()
						if ptrs {
							res = reflect.New(reflect.SliceOf(reflect.PtrTo(tT)))
						} else {
							res = reflect.New(reflect.SliceOf(tT))
						}
						err := cl.List(ctx, res.Interface())
						if err == nil {
							for i := 0; i < res.Elem().Len(); i++ {
								el := res.Elem().Index(i)
								if !ptrs {
									el = el.Addr()
								}
								checkModels("List", "T", el.Interface())
							}
						}
						return err
					})
				case x < 34:
					do("Where.List", func() error {
						md := m.NewModel("T", "", ref.Row{"name": ref.Set(ref.Str(fmt.Sprintf("r%d", wp.Intn(6))))})
						res := reflect.New(reflect.SliceOf(reflect.PtrTo(tT)))
						err := cl.Where(md).List(ctx, res.Interface())
						if err == nil {
							for i := 0; i < res.Elem().Len(); i++ {
								checkModels("Where.List", "T", res.Elem().Index(i).Interface())
							}
						}
						return err
					})
				case x < 39:
					do("WhereAll.List", func() error {
						md := m.NewModel("T", "", nil)
						res := reflect.New(reflect.SliceOf(reflect.PtrTo(tT)))
						cond := model.Condition{Field: m.FieldPtr("T", md, "a"), Function: ovsdb.ConditionGreaterThan, Value: 1}
						if wp.Bool() {
							// a lone condition on the uuid
							cond = model.Condition{Field: m.FieldPtr("T", md, "_uuid"), Function: ovsdb.ConditionEqual, Value: e.uuids[wp.Intn(len(e.uuids))]}
						}
						var err error
						if wp.Bool() {
							err = cl.WhereAll(md, cond).List(ctx, res.Interface())
						} else {
							err = cl.WhereAny(md, cond).List(ctx, res.Interface())
						}
						if err == nil {
							for i := 0; i < res.Elem().Len(); i++ {
								checkModels("WhereAll.List", "T", res.Elem().Index(i).Interface())
							}
						}
						return err
					})
				case x < 44:
					do("WhereCache.List", func() error {
						pred := reflect.MakeFunc(reflect.FuncOf([]reflect.Type{reflect.PtrTo(tT)}, []reflect.Type{reflect.TypeOf(true)}, false), func(args []reflect.Value) []reflect.Value {
							a := args[0].Elem().FieldByName(dyn.FieldName("a")).Int()
							return []reflect.Value{reflect.ValueOf(a%2 == 0)}
						})
						res := reflect.New(reflect.SliceOf(reflect.PtrTo(tT)))
						err := cl.WhereCache(pred.Interface()).List(ctx, res.Interface())
						if err == nil {
							for i := 0; i < res.Elem().Len(); i++ {
								checkModels("WhereCache.List", "T", res.Elem().Index(i).Interface())
							}
						}
						return err
					})
				case x < 54:
					do("Cache.reads", func() error {
						tc := cl.Cache()
						if tc == nil {
							return fmt.Errorf("no cache")
						}
						rc := tc.Table("T")
						if rc == nil {
							return fmt.Errorf("no table")
						}
						for _, md := range rc.Rows() {
							checkModels("Cache.Rows", "T", md)
						}
						if md := rc.Row(e.uuids[wp.Intn(len(e.uuids))]); md != nil {
							checkModels("Cache.Row", "T", md)
						}
						if _, md, err := rc.RowByModel(m.NewModel("T", "", ref.Row{"name": ref.Set(ref.Str("r1"))})); err == nil && md != nil {
							checkModels("Cache.RowByModel", "T", md)
						}
						rows, err := rc.RowsByCondition([]ovsdb.Condition{{Column: "a", Function: ovsdb.ConditionGreaterThanOrEqual, Value: 0}})
						for _, md := range rows {
							checkModels("Cache.RowsByCondition", "T", md)
						}
						_ = rc.Len()
						_, _ = rc.Index("name")
						// the single "_uuid ==" condition and the by-model lookups take their own paths
						u := e.uuids[wp.Intn(len(e.uuids))]
						if rows, err := rc.RowsByCondition([]ovsdb.Condition{{Column: "_uuid", Function: ovsdb.ConditionEqual, Value: ovsdb.UUID{GoUUID: u}}}); err == nil {
							for _, md := range rows {
								checkModels("Cache.RowsByCondition(_uuid)", "T", md)
							}
						}
						if rows, err := rc.RowsByModels([]model.Model{m.NewModel("T", u, nil), m.NewModel("T", "", ref.Row{"name": ref.Set(ref.Str("r2"))})}); err == nil {
							for _, md := range rows {
								checkModels("Cache.RowsByModels", "T", md)
							}
						}
						_ = rc.HasRow(u)
						_ = rc.IndexExists(m.NewModel("T", "", ref.Row{"name": ref.Set(ref.Str("r3"))}))
						_ = tc.Tables()
						_ = tc.Mapper()
						_ = tc.DatabaseModel()
						return err
					})
				case x < 66:
					do("Transact(update own row)", func() error {
						myVer++
						var ops []ref.Op
						if !inserted {
							ops = append(ops, ref.Op{Kind: "insert", Table: "T", UUID: wp.UUID(), Row: c18Row(myName, myVer)})
						} else {
							row := c18Row(myName, myVer)
							delete(row, "name")
							ops = append(ops, ref.Op{Kind: "update", Table: "T", Where: eqStr("name", myName), Row: row})
						}
						wire, _ := m.WireOps(ops)
						rs, err := cl.Transact(ctx, wire...)
						if err == nil && firstErr(rs) == "" {
							inserted = true
						}
						if err == nil && firstErr(rs) != "" && firstErr(rs) != "constraint violation" {
							return fmt.Errorf("result error: %s", firstErr(rs))
						}
						if err != nil && !inserted {
							// unknown outcome of the insert: it may have been applied
							inserted = wp.Bool()
						}
						return err
					})
				case x < 70:
					do("Create+Transact", func() error {
						md := m.NewModel("U", "", c18Row(fmt.Sprintf("%s-%d", myName, ci), int64(ci)))
						ops, err := cl.Create(md)
						if err != nil {
							return err
						}
						_, err = cl.Transact(ctx, ops...)
						return err
					})
				case x < 74:
					do("Monitor(Ui)", func() error {
						k := atomic.AddInt64(&monitors, 1)
						if k > 6 {
							return nil
						}
						// a table of its own: two monitors on one table would deliver every change twice
						tn := fmt.Sprintf("U%d", k-1)
						ck, err := cl.Monitor(ctx, cl.NewMonitor(client.WithTable(m.NewModel(tn, "", nil))))
						if err == nil {
							mu.Lock()
							cookies = append(cookies, ck)
							mu.Unlock()
						}
						return err
					})
				case x < 77:
					do("Monitor(unknown table)", func() error {
						_, err := cl.Monitor(ctx, cl.NewMonitor(client.WithTable(&c18Alien{})))
						return err
					})
				case x < 80:
					do("MonitorCancel", func() error {
						mu.Lock()
						var ck client.MonitorCookie
						if len(cookies) > 0 {
							ck = cookies[wp.Intn(len(cookies))]
						}
						mu.Unlock()
						return cl.MonitorCancel(ctx, ck)
					})
				case x < 86:
					do("Echo", func() error { return cl.Echo(ctx) })
				case x < 88:
					do("Disconnect", func() error { cl.Disconnect(); return nil })
				case x < 93:
					do("Connect", func() error { return cl.Connect(ctx) })
				case x < 96:
					do("Connected/Schema/CurrentEndpoint", func() error {
						_ = cl.Connected()
						_ = cl.Schema()
						_ = cl.CurrentEndpoint()
						return nil
					})
				case x < 98:
					do("UpdateEndpoints", func() error { cl.UpdateEndpoints([]string{"unix:" + e.px.Listen}); return nil })
				default:
					do("SetOption", func() error {
						return cl.SetOption(client.WithReconnect(500*time.Millisecond, backoff.NewConstantBackOff(5*time.Millisecond)))
					})
				}
				cancel()
			}
		}(wi, prng.Derive(int64(p.U64()>>1), "c18worker", wi))
	}
	// direct writer: rewrites rows version by version
	var wwg sync.WaitGroup
	wwg.Add(1)
	var written int64
	go func(wp *prng.R) {
		defer wwg.Done()
		ver := int64(0)
		for {
			select {
			case <-stopWriter:
				return
			default:
			}
			ver++
			i := wp.Intn(6)
			row := c18Row("", ver)
			delete(row, "name")
			ops := []ref.Op{{Kind: "update", Table: "T", Where: eqStr("name", fmt.Sprintf("r%d", i)), Row: row}}
			if wp.Chance(1, 10) {
				// replace a row: delete + insert under the same name and uuid-less identity
				j := wp.Intn(3)
				ops = []ref.Op{{Kind: "delete", Table: "U", Where: eqStr("name", fmt.Sprintf("u%d", j))},
					{Kind: "insert", Table: "U", UUID: wp.UUID(), Row: c18Row(fmt.Sprintf("u%d", j), ver)}}
			}
			wire, _ := m.WireOps(ops)
			_, _ = e.writer.Transact(m.S.Name, wire)
			atomic.AddInt64(&written, 1)
			time.Sleep(time.Duration(50+wp.Intn(400)) * time.Microsecond)
		}
	}(prng.Derive(int64(p.U64()>>1), "c18writer"))
	// chaos: cut the connection a few times
	chaosDone := make(chan struct{})
	stopChaos := make(chan struct{})
	cuts := 0
	go func(cp *prng.R) {
		defer close(chaosDone)
		n := 2 + cp.Intn(4)
		for i := 0; i < n; i++ {
			select {
			case <-stopChaos:
				return
			case <-time.After(time.Duration(5+cp.Intn(60)) * time.Millisecond):
			}
			if cp.Chance(1, 4) {
				e.px.Refuse(1 + cp.Intn(2))
			}
			e.px.CutAll()
			tl("proxy cut all connections")
			cuts++
		}
	}(prng.Derive(int64(p.U64()>>1), "c18chaos"))

	// wait for the workers; all load stops afterwards
	workersDone := make(chan struct{})
	go func() { wg.Wait(); close(workersDone) }()
	blocked := false
	select {
	case <-workersDone:
	case <-time.After(2 * time.Minute):
		// workers issue at most `calls` calls of <= 3 s each; stop the rest of the load and grant the quiet period
		close(stopChaos)
		<-chaosDone
		close(stopWriter)
		wwg.Wait()
		select {
		case <-workersDone:
		case <-time.After(60 * time.Second):
			blocked = true
		}
	}
	if !blocked {
		close(stopChaos)
		<-chaosDone
		close(stopWriter)
		wwg.Wait()
	}
	if blocked {
		stacks := allStacks()
		var stuck []string
		for wi, w := range workers {
			if c := w.cur.Load().(string); c != "" {
				stuck = append(stuck, fmt.Sprintf("worker %d: %s", wi, c))
			}
		}
		sort.Strings(stuck)
		call := "unknown"
		if len(stuck) > 0 {
			call = strings.SplitN(stuck[0], ": ", 2)[1]
		}
		r.Violation(fmt.Sprintf("C18/blocked-forever/stress@%s", blockedFrame(stacks, call)), fmt.Sprintf("%d calls never returned although every call had a context deadline and all load stopped 60 s ago: %s", len(stuck), strings.Join(stuck, "; ")),
			map[string]interface{}{"scenario": tag, "stuck": stuck, "goroutines_in_libovsdb": stacks})
		return
	}
	r.Eval(1)
	// no torn rows
	h.mu.Lock()
	ht := append([]string{}, h.torn...)
	h.mu.Unlock()
	for _, t := range ht {
		torn = append(torn, "event handler: "+t)
	}
	if len(torn) > 0 {
		path := strings.SplitN(torn[0], ":", 2)[0]
		r.Violation("C18/torn-row/"+path, fmt.Sprintf("%d models mixed two versions of a row, e.g. %s", len(torn), torn[0]), map[string]interface{}{"scenario": tag, "examples": torn[:minInt(len(torn), 10)], "timeline": timeline, "proxy_log_tail": tailStr(e.px.Log, 60)})
	}
	// after the storm: the client must be usable again and converge
	final := func() string {
		for try := 0; try < 400; try++ {
			ctx, cancel := context.WithTimeout(context.Background(), 3*time.Second)
			err := cl.Connect(ctx)
			cancel()
			if err == nil && cl.Connected() {
				return ""
			}
			time.Sleep(10 * time.Millisecond)
		}
		return "Connect keeps failing after all faults stopped"
	}
	finalDone := make(chan string, 1)
	go func() { finalDone <- final() }()
	select {
	case msg := <-finalDone:
		if msg != "" {
			r.Violation("C18/unusable-after-stress/connect", msg, map[string]interface{}{"scenario": tag, "proxy_log_tail": tailStr(e.px.Log, 30)})
			return
		}
	case <-time.After(120 * time.Second):
		stacks := allStacks()
		r.Violation("C18/blocked-forever/after-stress/Connect@"+blockedFrame(stacks, "Connect"), "Connect after the stress scenario never returned", map[string]interface{}{"scenario": tag, "goroutines_in_libovsdb": stacks})
		return
	}
	// Disconnect on a reconnecting client keeps the monitors, so the monitor on T
	// set up at the start must still be (or become again) live: the cache converges
	conv := func() string {
		wire, _ := m.WireOps([]ref.Op{{Kind: "insert", Table: "T", UUID: p.UUID(), Row: c18Row("barrier", 1)}})
		_, _ = e.writer.Transact(m.S.Name, wire)
		post, _ := m.Snapshot(e.srv.DB)
		monitored := map[string]map[string]bool{"T": {"name": true, "a": true, "b": true, "c": true, "d": true}}
		d := ""
		for i := 0; i < 2000; i++ {
			if d = cacheDiff(m, cl, post, monitored); d == "" {
				return ""
			}
			time.Sleep(10 * time.Millisecond)
			if i%300 == 299 {
				// nudge: a notification makes a stale connection visible to the client
				wire, _ := m.WireOps([]ref.Op{{Kind: "insert", Table: "T", UUID: p.UUID(), Row: c18Row(fmt.Sprintf("barrier%d", i), 1)}})
				_, _ = e.writer.Transact(m.S.Name, wire)
				post, _ = m.Snapshot(e.srv.DB)
			}
		}
		return d
	}
	convDone := make(chan string, 1)
	go func() { convDone <- conv() }()
	select {
	case d := <-convDone:
		if d != "" {
			r.Violation("C18/cache-does-not-converge-after-stress/"+cacheDiffClass(d), "20 s after the stress scenario ended (client connected, nothing else running) the cache still differs from the database on the table monitored from the start: "+d, map[string]interface{}{"scenario": tag, "timeline": timeline, "proxy_log_tail": tailStr(e.px.Log, 40)})
		}
	case <-time.After(180 * time.Second):
		stacks := allStacks()
		r.Violation("C18/blocked-forever/after-stress/cache-read@"+blockedFrame(stacks, "cacheDiff"), "reading the cache after the stress scenario never returned", map[string]interface{}{"scenario": tag, "goroutines_in_libovsdb": stacks})
		return
	}
	closeDone := make(chan struct{})
	go func() { cl.Close(); close(closeDone) }()
	select {
	case <-closeDone:
	case <-time.After(60 * time.Second):
		stacks := allStacks()
		r.Violation("C18/blocked-forever/after-stress/Close@"+blockedFrame(stacks, "Close"), "Close after the stress scenario never returned", map[string]interface{}{"scenario": tag, "goroutines_in_libovsdb": stacks})
	}
	// evidence
	var keys []string
	total := 0
	for k, n := range outcomes {
		keys = append(keys, k)
		total += n
		r.Count("stress.calls."+k, n)
	}
	sort.Strings(keys)
	r.Distinct("stress|" + strings.Join(keys, "|") + fmt.Sprint(total))
	r.Count("stress.scenarios", 1)
	r.Count("stress.calls", total)
	r.Count("stress.connection-cuts", cuts)
	r.Count("stress.writer-transactions", int(atomic.LoadInt64(&written)))
	r.Count("stress.models-checked-in-events", int(atomic.LoadInt64(&h.n)))
	if r.NeedSample() {
		r.Sample(map[string]interface{}{"scenario": tag, "workers": nWorkers, "calls_per_worker": calls, "cuts": cuts, "outcomes": outcomes})
	}
}

func minInt(a, b int) int {
	if a < b {
		return a
	}
	return b
}

func tailStr(l []string, n int) []string {
	if len(l) > n {
		return l[len(l)-n:]
	}
	return l
}

// ---- (B) error paths -------------------------------------------------------------

type c18path struct {
	name      string
	connected bool // connect (and monitor T) before the failing call
	wrongDB   bool // the client is built on a schema with a table the server lacks
	fail      func(e *c18env, ctx context.Context) error
}

func c18Paths(m *dyn.Model) []c18path {
	short := func() (context.Context, context.CancelFunc) {
		return context.WithTimeout(context.Background(), 300*time.Millisecond)
	}
	cancelled := func() context.Context {
		ctx, cancel := context.WithCancel(context.Background())
		cancel()
		return ctx
	}
	tT := m.Types["T"]
	return []c18path{
		{"Monitor/unknown-table", true, false, func(e *c18env, ctx context.Context) error {
			_, err := e.cl.Monitor(ctx, e.cl.NewMonitor(client.WithTable(&c18Alien{})))
			return err
		}},
		{"Monitor/no-tables", true, false, func(e *c18env, ctx context.Context) error {
			_, err := e.cl.Monitor(ctx, e.cl.NewMonitor())
			return err
		}},
		{"Monitor/field-of-another-model", true, false, func(e *c18env, ctx context.Context) error {
			other := m.NewModel("U", "", nil)
			_, err := e.cl.Monitor(ctx, e.cl.NewMonitor(client.WithTable(m.NewModel("T", "", nil), m.FieldPtr("U", other, "a"))))
			return err
		}},
		{"Monitor/unsupported-method", true, false, func(e *c18env, ctx context.Context) error {
			mon := e.cl.NewMonitor(client.WithTable(m.NewModel("U", "", nil)))
			mon.Method = "monitor_bogus"
			_, err := e.cl.Monitor(ctx, mon)
			return err
		}},
		{"Monitor/not-connected", false, false, func(e *c18env, ctx context.Context) error {
			_, err := e.cl.Monitor(ctx, e.cl.NewMonitor(client.WithTable(m.NewModel("U", "", nil))))
			return err
		}},
		{"Monitor/cancelled-context", true, false, func(e *c18env, ctx context.Context) error {
			_, err := e.cl.Monitor(cancelled(), e.cl.NewMonitor(client.WithTable(m.NewModel("U", "", nil))))
			return err
		}},
		{"Monitor/server-silent", true, false, func(e *c18env, ctx context.Context) error {
			e.px.BlackHoleAll()
			c, cancel := short()
			defer cancel()
			_, err := e.cl.Monitor(c, e.cl.NewMonitor(client.WithTable(m.NewModel("U", "", nil))))
			return err
		}},
		{"Monitor/same-monitor-twice", true, false, func(e *c18env, ctx context.Context) error {
			mon := e.cl.NewMonitor(client.WithTable(m.NewModel("U", "", nil)))
			if _, err := e.cl.Monitor(ctx, mon); err != nil {
				return nil
			}
			_, err := e.cl.Monitor(ctx, mon)
			return err
		}},
		{"Monitor/condition-on-foreign-field", true, false, func(e *c18env, ctx context.Context) error {
			other := m.NewModel("U", "", nil)
			md := m.NewModel("T", "", nil)
			_, err := e.cl.Monitor(ctx, e.cl.NewMonitor(client.WithConditionalTable(md, []model.Condition{{Field: m.FieldPtr("U", other, "a"), Function: ovsdb.ConditionEqual, Value: 1}})))
			return err
		}},
		{"Monitor/connection-cut-during-setup", true, false, func(e *c18env, ctx context.Context) error {
			e.px.AddFault(&proxy.Fault{Dir: proxy.S2C, AfterMsg: 0, Inside: true, ConnIndex: -1})
			// the fault fires on the next server message of any connection: the monitor reply
			_, err := e.cl.Monitor(ctx, e.cl.NewMonitor(client.WithTable(m.NewModel("U", "", nil))))
			return err
		}},
		{"Transact/unknown-column", true, false, func(e *c18env, ctx context.Context) error {
			_, err := e.cl.Transact(ctx, ovsdb.Operation{Op: "insert", Table: "T", Row: ovsdb.Row{"nosuch": 1}})
			return err
		}},
		{"Transact/unknown-table", true, false, func(e *c18env, ctx context.Context) error {
			_, err := e.cl.Transact(ctx, ovsdb.Operation{Op: "insert", Table: "Nosuch", Row: ovsdb.Row{"name": "x"}})
			return err
		}},
		{"Transact/not-connected", false, false, func(e *c18env, ctx context.Context) error {
			_, err := e.cl.Transact(ctx, ovsdb.Operation{Op: "insert", Table: "T", Row: ovsdb.Row{"name": "x"}})
			return err
		}},
		{"Transact/context-expiry", true, false, func(e *c18env, ctx context.Context) error {
			e.px.BlackHoleAll()
			c, cancel := short()
			defer cancel()
			_, err := e.cl.Transact(c, ovsdb.Operation{Op: "insert", Table: "T", Row: ovsdb.Row{"name": "x"}})
			return err
		}},
		{"Transact/constraint-violation-result", true, false, func(e *c18env, ctx context.Context) error {
			rs, err := e.cl.Transact(ctx, ovsdb.Operation{Op: "insert", Table: "T", Row: ovsdb.Row{"name": "r0"}})
			if err == nil && firstErr(rs) != "" {
				return fmt.Errorf("result: %s", firstErr(rs))
			}
			return err
		}},
		{"Transact/no-operations", true, false, func(e *c18env, ctx context.Context) error {
			_, err := e.cl.Transact(ctx)
			return err
		}},
		{"Transact/connection-cut-in-flight", true, false, func(e *c18env, ctx context.Context) error {
			e.px.AddFault(&proxy.Fault{Dir: proxy.S2C, AfterMsg: 0, Inside: true, ConnIndex: -1})
			_, err := e.cl.Transact(ctx, ovsdb.Operation{Op: "insert", Table: "U", Row: ovsdb.Row{"name": "cut"}})
			return err
		}},
		{"Get/model-of-no-table", true, false, func(e *c18env, ctx context.Context) error { return e.cl.Get(ctx, &c18Alien{UUID: "x"}) }},
		{"Get/non-pointer", true, false, func(e *c18env, ctx context.Context) error { return e.cl.Get(ctx, c18Alien{}) }},
		{"Get/not-found", true, false, func(e *c18env, ctx context.Context) error {
			return e.cl.Get(ctx, m.NewModel("T", "00000000-0000-4000-8000-00000000dead", nil))
		}},
		{"Get/not-connected", false, false, func(e *c18env, ctx context.Context) error {
			return e.cl.Get(ctx, m.NewModel("T", e.uuids[0], nil))
		}},
		{"Where/not-connected", false, false, func(e *c18env, ctx context.Context) error {
			res := reflect.New(reflect.SliceOf(tT))
			if err := e.cl.Where(m.NewModel("T", e.uuids[0], nil)).List(ctx, res.Interface()); err == nil {
				return nil
			}
			if _, err := e.cl.WhereAll(m.NewModel("T", "", nil)).Delete(); err == nil {
				return nil
			}
			_, _ = e.cl.WhereAny(m.NewModel("T", "", nil)).Delete()
			return e.cl.WhereCache(func(a int) bool { return true }).List(ctx, res.Interface())
		}},
		{"Create/not-connected", false, false, func(e *c18env, ctx context.Context) error {
			_, err := e.cl.Create(m.NewModel("T", "", c18Row("x", 1)))
			return err
		}},
		{"List/nil-result", true, false, func(e *c18env, ctx context.Context) error { return e.cl.List(ctx, nil) }},
		{"List/non-slice", true, false, func(e *c18env, ctx context.Context) error {
			return e.cl.List(ctx, m.NewModel("T", "", nil))
		}},
		{"List/slice-of-no-table", true, false, func(e *c18env, ctx context.Context) error {
			var res []c18Alien
			return e.cl.List(ctx, &res)
		}},
		{"List/cancelled-context-not-connected", false, false, func(e *c18env, ctx context.Context) error {
			res := reflect.New(reflect.SliceOf(tT))
			return e.cl.List(cancelled(), res.Interface())
		}},
		{"Where/models-of-two-tables", true, false, func(e *c18env, ctx context.Context) error {
			res := reflect.New(reflect.SliceOf(tT))
			return e.cl.Where(m.NewModel("T", e.uuids[0], nil), m.NewModel("U", "x", nil)).List(ctx, res.Interface())
		}},
		{"WhereCache/predicate-of-wrong-shape", true, false, func(e *c18env, ctx context.Context) error {
			res := reflect.New(reflect.SliceOf(tT))
			return e.cl.WhereCache(func(a int) bool { return true }).List(ctx, res.Interface())
		}},
		{"MonitorCancel/server-refuses", true, false, func(e *c18env, ctx context.Context) error {
			ck, err := e.cl.Monitor(ctx, e.cl.NewMonitor(client.WithTable(m.NewModel("U", "", nil))))
			if err != nil {
				return nil
			}
			return e.cl.MonitorCancel(ctx, ck)
		}},
		{"MonitorCancel/unknown-cookie", true, false, func(e *c18env, ctx context.Context) error {
			return e.cl.MonitorCancel(ctx, client.MonitorCookie{DatabaseName: "VDB", ID: "nosuch"})
		}},
		{"MonitorCancel/unknown-database", true, false, func(e *c18env, ctx context.Context) error {
			return e.cl.MonitorCancel(ctx, client.MonitorCookie{DatabaseName: "Nosuch", ID: "nosuch"})
		}},
		{"MonitorCancel/not-connected", false, false, func(e *c18env, ctx context.Context) error {
			return e.cl.MonitorCancel(ctx, client.MonitorCookie{DatabaseName: "VDB", ID: "nosuch"})
		}},
		{"Echo/server-refuses", true, false, func(e *c18env, ctx context.Context) error {
			e.srv.S.DoEcho(false)
			return e.cl.Echo(ctx)
		}},
		{"Echo/not-connected", false, false, func(e *c18env, ctx context.Context) error { return e.cl.Echo(ctx) }},
		{"Echo/server-silent", true, false, func(e *c18env, ctx context.Context) error {
			e.px.BlackHoleAll()
			c, cancel := short()
			defer cancel()
			return e.cl.Echo(c)
		}},
		{"Connect/no-endpoint", false, false, func(e *c18env, ctx context.Context) error {
			e.cl.UpdateEndpoints([]string{"unix:/nonexistent/verif.sock"})
			c, cancel := short()
			defer cancel()
			err := e.cl.Connect(c)
			e.cl.UpdateEndpoints([]string{"unix:" + e.px.Listen})
			return err
		}},
		{"Connect/schema-lacks-a-table-of-the-model", false, true, func(e *c18env, ctx context.Context) error { return e.cl.Connect(ctx) }},
		{"Connect/cancelled-context", false, false, func(e *c18env, ctx context.Context) error { return e.cl.Connect(cancelled()) }},
		{"Connect/refused-twice", false, false, func(e *c18env, ctx context.Context) error {
			e.px.Refuse(2)
			c, cancel := short()
			defer cancel()
			return e.cl.Connect(c)
		}},
		{"Connect/cut-during-handshake", false, false, func(e *c18env, ctx context.Context) error {
			e.px.AddFault(&proxy.Fault{Dir: proxy.S2C, AfterMsg: 1, Inside: true, ConnIndex: -1})
			c, cancel := short()
			defer cancel()
			return e.cl.Connect(c)
		}},
		{"Connect/already-connected", true, false, func(e *c18env, ctx context.Context) error { return e.cl.Connect(ctx) }},
		{"Disconnect/not-connected", false, false, func(e *c18env, ctx context.Context) error { e.cl.Disconnect(); return nil }},
		{"Disconnect/twice", true, false, func(e *c18env, ctx context.Context) error { e.cl.Disconnect(); e.cl.Disconnect(); return nil }},
		{"Close/then-use", true, false, func(e *c18env, ctx context.Context) error { e.cl.Close(); return e.cl.Echo(ctx) }},
		{"SetOption/while-connected", true, false, func(e *c18env, ctx context.Context) error {
			return e.cl.SetOption(client.WithEndpoint("unix:/nonexistent"))
		}},
		{"Create/model-of-no-table", true, false, func(e *c18env, ctx context.Context) error {
			_, err := e.cl.Create(&c18Alien{})
			return err
		}},
		{"Server/inconsistent-update", true, false, func(e *c18env, ctx context.Context) error {
			// a delete for a row the cache does not hold arrives: the cache reports an inconsistency and the client reconnects
			return nil
		}},
	}
}

// c18Probe runs f with a generous bound; it returns false when f never returned.
func c18Probe(f func()) bool {
	done := make(chan struct{})
	go func() { f(); close(done) }()
	select {
	case <-done:
		return true
	case <-time.After(45 * time.Second):
		return false
	}
}

func c18ErrorPath(r *ev.Run, m, mExtra *dyn.Model, pa c18path, batch, pi int, reconnect bool) {
	p := prng.Derive(ev.Seed(), "C18path", pa.name)
	cm := m
	if pa.wrongDB {
		cm = mExtra
	}
	tag := fmt.Sprintf("%d-p%d", batch, pi)
	e, err := c18NewEnv(m, cm, tag, p, reconnect)
	if err != nil {
		r.Inconclusive("environment: " + err.Error())
		return
	}
	defer e.close()
	cl := e.cl
	r.LogCase(fmt.Sprintf("C18 error path %s reconnect=%v", pa.name, reconnect))
	if pa.connected {
		ctx, cancel := context.WithTimeout(context.Background(), 20*time.Second)
		err := cl.Connect(ctx)
		if err == nil {
			_, err = cl.Monitor(ctx, cl.NewMonitor(client.WithTable(m.NewModel("T", "", nil))))
		}
		cancel()
		if err != nil {
			r.Inconclusive("connect/monitor before " + pa.name + ": " + err.Error())
			return
		}
	}
	r.Eval(1)
	var outcome []string
	report := func(stage string) {
		stacks := allStacks()
		call := strings.SplitN(stage, " ", 2)[0]
		r.Violation(fmt.Sprintf("C18/blocked-forever/%s/%s@%s", pa.name, stage, blockedFrame(stacks, call)),
			fmt.Sprintf("after the failing call %s (reconnect=%v) the call %s never returned (45 s, nothing else running, context deadline 5 s)", pa.name, reconnect, stage),
			map[string]interface{}{"error_path": pa.name, "stage": stage, "calls_before": outcome, "goroutines_in_libovsdb": stacks})
	}
	var ferr error
	if !c18Probe(func() {
		ctx, cancel := context.WithTimeout(context.Background(), 5*time.Second)
		defer cancel()
		ferr = pa.fail(e, ctx)
	}) {
		report("failing-call")
		return
	}
	if ferr == nil {
		r.Count("error-paths.did-not-fail", 1)
		r.SetAdd("error_paths_that_returned_no_error", pa.name)
		outcome = append(outcome, pa.name+": nil")
	} else {
		outcome = append(outcome, pa.name+": "+errClassOf(ferr.Error()))
	}
	type probe struct {
		name string
		f    func(ctx context.Context) error
	}
	probes := []probe{
		{"Echo", func(ctx context.Context) error { return cl.Echo(ctx) }},
		{"Get", func(ctx context.Context) error { return cl.Get(ctx, m.NewModel("T", e.uuids[0], nil)) }},
		{"List", func(ctx context.Context) error {
			return cl.List(ctx, reflect.New(reflect.SliceOf(m.Types["T"])).Interface())
		}},
		{"Transact", func(ctx context.Context) error {
			_, err := cl.Transact(ctx, ovsdb.Operation{Op: "insert", Table: "U", Row: ovsdb.Row{"name": "probe-" + tag}})
			return err
		}},
		{"Monitor", func(ctx context.Context) error {
			_, err := cl.Monitor(ctx, cl.NewMonitor(client.WithTable(m.NewModel("U", "", nil))))
			return err
		}},
		{"Disconnect", func(ctx context.Context) error { cl.Disconnect(); return nil }},
		{"Connect", func(ctx context.Context) error { return cl.Connect(ctx) }},
		{"Echo2", func(ctx context.Context) error { return cl.Echo(ctx) }},
		{"MonitorAll", func(ctx context.Context) error { _, err := cl.MonitorAll(ctx); return err }},
		{"Transact2", func(ctx context.Context) error {
			_, err := cl.Transact(ctx, ovsdb.Operation{Op: "insert", Table: "U", Row: ovsdb.Row{"name": "probe2-" + tag}})
			return err
		}},
		{"Close", func(ctx context.Context) error { cl.Close(); return nil }},
	}
	for _, pr := range probes {
		var perr error
		if !c18Probe(func() {
			ctx, cancel := context.WithTimeout(context.Background(), 5*time.Second)
			defer cancel()
			perr = pr.f(ctx)
		}) {
			report(pr.name + " (probe)")
			return
		}
		cls := "ok"
		if perr != nil {
			cls = errClassOf(perr.Error())
		}
		outcome = append(outcome, pr.name+": "+cls)
	}
	// a client whose schema matches and that could reconnect must work again at the end
	if !pa.wrongDB && pa.name != "Close/then-use" {
		for _, o := range outcome[len(outcome)-5:] {
			if strings.HasPrefix(o, "Echo2: ") && o != "Echo2: ok" {
				r.Count("error-paths.echo-after-reconnect-failed", 1)
				r.SetAdd("error_paths_after_which_echo_failed", pa.name+" -> "+o)
			}
		}
	}
	r.Distinct(fmt.Sprintf("path|%s|%v|%s", pa.name, reconnect, strings.Join(outcome, "|")))
	r.Count("error-paths.run", 1)
	r.SetAdd("error_paths", pa.name)
	if r.NeedSample() {
		r.Sample(map[string]interface{}{"error_path": pa.name, "reconnect": reconnect, "calls": outcome})
	}
}

// c18FallbackCase: against a server without monitor_cond_since the client falls back to
// monitor_cond. A first monitor is established that way; a second Monitor call falls back
// too and is refused. After that failed call the client must go on applying the updates of
// the first monitor, and reads must return.
func c18FallbackCase(r *ev.Run, m *dyn.Model, batch int) {
	p := prng.Derive(ev.Seed(), "C18fallback", batch)
	dir := wireScratch()
	hs, err := newHistServer(m, fmt.Sprintf("%s/c18h-%d.sock", dir, batch), p)
	if err != nil {
		r.Inconclusive("history server: " + err.Error())
		return
	}
	defer hs.close()
	hs.mu.Lock()
	hs.oldServer, hs.condAllowed = true, 1
	hs.mu.Unlock()
	l := logr.Discard()
	cl, err := client.NewOVSDBClient(m.Client, client.WithEndpoint("unix:"+hs.path), client.WithLogger(&l))
	if err != nil {
		return
	}
	stuck := false
	defer func() {
		if !stuck {
			cl.Close()
		}
	}()
	r.LogCase("C18 fallback monitor refused")
	r.Eval(1)
	r.Count("fallback_cases", 1)
	ctx, cancel := context.WithTimeout(context.Background(), 20*time.Second)
	defer cancel()
	if err := cl.Connect(ctx); err != nil {
		r.Inconclusive("connect to the old server: " + err.Error())
		return
	}
	if _, err := cl.Monitor(ctx, cl.NewMonitor(client.WithTable(m.NewModel("T", "", nil)))); err != nil {
		r.Violation("C18/fallback/first-monitor-fails", "Monitor against a server without monitor_cond_since fails although monitor_cond is available: "+err.Error(), nil)
		return
	}
	seen := func(name string) bool {
		for i := 0; i < 1000; i++ {
			lst := reflect.New(reflect.SliceOf(m.Types["T"]))
			lctx, lcancel := context.WithTimeout(context.Background(), 2*time.Second)
			err := cl.List(lctx, lst.Interface())
			lcancel()
			if err == nil {
				for k := 0; k < lst.Elem().Len(); k++ {
					if _, row, rerr := m.RowOf("T", lst.Elem().Index(k).Addr().Interface()); rerr == nil && datumStr(row["name"]) == name {
						return true
					}
				}
			}
			time.Sleep(10 * time.Millisecond)
		}
		return false
	}
	_ = hs.apply([]ref.Op{{Kind: "insert", Table: "T", UUID: p.UUID(), Row: c18Row("before", 1)}})
	if !seen("before") {
		lst := reflect.New(reflect.SliceOf(m.Types["T"]))
		lctx, lcancel := context.WithTimeout(context.Background(), 2*time.Second)
		lerr := cl.List(lctx, lst.Interface())
		lcancel()
		r.Inconclusive(fmt.Sprintf("the update of the first monitor never showed up (harness?): List error %v, %d rows, last notes %v", lerr, lst.Elem().Len(), hs.lastNotes))
		return
	}
	mctx, mcancel := context.WithTimeout(context.Background(), 5*time.Second)
	_, merr := cl.Monitor(mctx, cl.NewMonitor(client.WithTable(m.NewModel("U", "", nil))))
	mcancel()
	if merr == nil {
		r.Count("fallback.second-monitor-accepted", 1)
		return
	}
	_ = hs.apply([]ref.Op{{Kind: "insert", Table: "T", UUID: p.UUID(), Row: c18Row("after", 2)}})
	if !c18Probe(func() { _ = cl.Get(context.Background(), m.NewModel("T", "", ref.Row{"name": ref.Set(ref.Str("before"))})) }) {
		stuck = true
		r.Violation("C18/blocked-forever/fallback-monitor-refused/Get@"+blockedFrame(allStacks(), "Get"), "after a Monitor call that fell back to monitor_cond and was refused, Get never returns (45 s, nothing else running)", map[string]interface{}{"goroutines_in_libovsdb": allStacks()})
		return
	}
	if !seen("after") {
		r.Violation("C18/updates-not-applied-after-failed-monitor/fallback", "after a Monitor call that fell back to monitor_cond and was refused, the updates of the established monitor are no longer applied (10 s, nothing else running)", nil)
	}
}

// c18Update3Case: a monitor_cond_since monitor is established; while a second Monitor call
// waits for its reply, the server notifies the first monitor (update3). The read loop must
// handle that notification without waiting for anything the pending call holds, or the
// reply is never read.
func c18Update3Case(r *ev.Run, m *dyn.Model, batch int) {
	p := prng.Derive(ev.Seed(), "C18update3", batch)
	dir := wireScratch()
	hs, err := newHistServer(m, fmt.Sprintf("%s/c18u-%d.sock", dir, batch), p)
	if err != nil {
		r.Inconclusive("history server: " + err.Error())
		return
	}
	defer hs.close()
	l := logr.Discard()
	cl, err := client.NewOVSDBClient(m.Client, client.WithEndpoint("unix:"+hs.path), client.WithLogger(&l))
	if err != nil {
		return
	}
	stuck := false // a client that is blocked for good would block Close as well
	defer func() {
		if !stuck {
			cl.Close()
		}
	}()
	r.LogCase("C18 update3 during a monitor set-up")
	r.Eval(1)
	r.Count("update3_during_setup_cases", 1)
	ctx, cancel := context.WithTimeout(context.Background(), 20*time.Second)
	defer cancel()
	if err := cl.Connect(ctx); err != nil {
		r.Inconclusive("connect to the history server: " + err.Error())
		return
	}
	if _, err := cl.Monitor(ctx, cl.NewMonitor(client.WithTable(m.NewModel("T", "", nil)))); err != nil {
		r.Inconclusive("first monitor: " + err.Error())
		return
	}
	hs.mu.Lock()
	hs.replyDelay = 200 * time.Millisecond
	hs.mu.Unlock()
	go func() {
		time.Sleep(60 * time.Millisecond) // the second request is with the server, its reply is not
		_ = hs.apply([]ref.Op{{Kind: "insert", Table: "T", UUID: p.UUID(), Row: c18Row("during", 1)}})
	}()
	var merr error
	if !c18Probe(func() {
		_, merr = cl.Monitor(context.Background(), cl.NewMonitor(client.WithTable(m.NewModel("U", "", nil))))
	}) {
		stuck = true
		r.Violation("C18/blocked-forever/update3-during-monitor-setup/Monitor@"+blockedFrame(allStacks(), "Monitor"), "a Monitor call never returns when the server notifies an established monitor_cond_since monitor before replying (45 s, nothing else running)", map[string]interface{}{"goroutines_in_libovsdb": allStacks()})
		return
	}
	if merr != nil {
		r.Count("update3_case.second_monitor_failed", 1)
	}
	if !c18Probe(func() { _ = cl.Echo(context.Background()) }) {
		stuck = true
		r.Violation("C18/blocked-forever/update3-during-monitor-setup/Echo", "Echo never returns after a Monitor call during which an update3 arrived", nil)
	}
}

func c18Child(r *ev.Run, batch int) {
	if m, err := dyn.Build(c18Schema(false), nil); err == nil {
		c18FallbackCase(r, m, batch)
		c18Update3Case(r, m, batch)
	}

	m, err := dyn.Build(c18Schema(false), nil)
	if err != nil {
		r.Violation("C18/harness/model-build", err.Error(), nil)
		return
	}
	mExtra, err := dyn.Build(c18Schema(true), nil)
	if err != nil {
		r.Violation("C18/harness/model-build", err.Error(), nil)
		return
	}
	c18InstallHook()
	nb := r.N(8, 64)
	paths := c18Paths(m)
	if os.Getenv("VERIF_C18_NOPATHS") != "" {
		paths = nil
	}
	for pi, pa := range paths {
		// quick: every path once; thorough: every path with and without reconnect
		if r.Quick() {
			if pi%nb == batch {
				c18ErrorPath(r, m, mExtra, pa, batch, pi, pi%2 == 0)
			}
		} else if (2*pi)%nb == batch || (2*pi+1)%nb == batch {
			if (2*pi)%nb == batch {
				c18ErrorPath(r, m, mExtra, pa, batch, pi, true)
			}
			if (2*pi+1)%nb == batch {
				c18ErrorPath(r, m, mExtra, pa, batch, pi, false)
			}
		}
	}
	n := 3
	if !r.Quick() {
		n = 20
	}
	for si := 0; si < n; si++ {
		p := prng.Derive(ev.Seed(), "C18", batch, si)
		c18Stress(r, m, p, batch, si)
	}
	r.Count("pause-point-delays", int(atomic.LoadInt64(&c18HookHits)))
}
