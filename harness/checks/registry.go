// Package checks holds one file per property. Each registers a parent entry
// (orchestrates batches / child processes) and a child entry (runs one batch).
package checks

import (
	"io"
	"log"
	"os"

	"time"

	"github.com/go-logr/stdr"
	"verifharness/internal/ev"
)

type Entry struct {
	Parent func(r *ev.Run)
	Child  func(r *ev.Run, batch int)
}

var Registry = map[string]Entry{}

var origStderr *os.File

func Register(id string, parent func(*ev.Run), child func(*ev.Run, int)) {
	Registry[id] = Entry{Parent: parent, Child: child}
}

// Silence re-points the library's loggers (stdr on os.Stderr, standard log)
// at a scratch file and lowers verbosity. Must run before any library object
// is created.
func Silence() {
	if f, err := os.OpenFile(os.DevNull, os.O_WRONLY, 0); err == nil {
		origStderr = os.Stderr // keep fd 2 alive (a dropped *os.File is closed by its finalizer)
		os.Stderr = f          // runtime panics and SIGQUIT dumps still go to fd 2
	}
	stdr.SetVerbosity(0)
	log.SetOutput(io.Discard)
}

func sleepShort() { time.Sleep(200 * time.Microsecond) }
