package checks

// C10 — a modify difference, applied to the old value, gives the new value.
// Law checking over a completely enumerated small scope (all ordered element
// lists of all subsets of a 4-element universe per set element type, all maps
// over 3 keys x 2 values, optionals and atoms over {default/unset, x, y}) plus
// random larger values. Route (i) uses only the public API
// (ModelUpdates.AddOperation / AddRowUpdate2); route (ii) calls the
// verif-exported difference primitives directly.

import (
	"encoding/json"
	"fmt"
	"reflect"
	"sort"
	"strings"

	"github.com/ovn-org/libovsdb/model"
	"github.com/ovn-org/libovsdb/ovsdb"
	"github.com/ovn-org/libovsdb/updates"
	"verifharness/internal/dyn"
	"verifharness/internal/ev"
	"verifharness/internal/prng"
	"verifharness/internal/ref"
	"verifharness/internal/tspace"
)

func init() { Register("C10", c10Parent, c10Child) }

const c10UUID = "aaaaaaaa-0000-4000-8000-000000000001"

func c10Parent(r *ev.Run) {
	r.Rule = "pairs (a,b) of values of one column; small scope enumerated completely: every ordered list of every subset of a 4-element universe for sets of integer/string/real/uuid (65 lists, 4225 pairs each) and of the 2-element universe for boolean, all 27 maps over 3 keys x 2 values (729 pairs) for 4 map types, optionals and atoms over 3 values; plus random larger sets/maps (thorough: more); distinct = (column kind, canonical a, canonical b); non-trivial = a != b as values or a's element order differs from b's"
	r.Assume("sets are compared as sets; an optional is a set of at most one element")
	r.RunBatches(ev.BatchOpts{N: r.N(8, 32)})
}

type c10col struct {
	col  *tspace.Col
	univ []ref.Atom // universe of keys
	vals []ref.Atom // universe of map values
}

func c10Schema() (*tspace.Schema, []c10col) {
	b := func(t string) tspace.Base { return tspace.Base{Type: t} }
	var cols []c10col
	t := &tspace.Table{Name: "T", IsRoot: true}
	t.Cols = append(t.Cols, &tspace.Col{Name: "name", Key: b("string"), Min: 1, Max: 1})
	add := func(c *tspace.Col, univ, vals []ref.Atom) {
		t.Cols = append(t.Cols, c)
		cols = append(cols, c10col{c, univ, vals})
	}
	ints := []ref.Atom{ref.Int(0), ref.Int(1), ref.Int(2), ref.Int(-7)}
	strs := []ref.Atom{ref.Str(""), ref.Str("a"), ref.Str("b"), ref.Str("c d")}
	reals := []ref.Atom{ref.Real(0), ref.Real(0.5), ref.Real(-1.25), ref.Real(3)}
	uuids := []ref.Atom{ref.UUID("00000001-0000-4000-8000-000000000000"), ref.UUID("00000002-0000-4000-8000-000000000000"), ref.UUID("00000003-0000-4000-8000-000000000000"), ref.UUID("00000004-0000-4000-8000-000000000000")}
	bools := []ref.Atom{ref.Bool(false), ref.Bool(true)}
	for _, x := range []struct {
		n string
		t string
		u []ref.Atom
	}{{"int", "integer", ints}, {"str", "string", strs}, {"real", "real", reals}, {"uuid", "uuid", uuids}, {"bool", "boolean", bools}} {
		add(&tspace.Col{Name: "set_" + x.n, Key: b(x.t), Min: 0, Max: -1}, x.u, nil)
		add(&tspace.Col{Name: "opt_" + x.n, Key: b(x.t), Min: 0, Max: 1}, x.u[:2], nil)
		n3 := 3
		if len(x.u) < 3 {
			n3 = len(x.u)
		}
		add(&tspace.Col{Name: "s_" + x.n, Key: b(x.t), Min: 1, Max: 1}, x.u[:n3], nil)
	}
	// bounded multi-valued collections (1 < max < unlimited) take their own branches in the library
	add(&tspace.Col{Name: "bset_int", Key: b("integer"), Min: 0, Max: 8}, ints, nil)
	add(&tspace.Col{Name: "bset_str", Key: b("string"), Min: 0, Max: 4096}, strs, nil)
	sv, iv, uv := b("string"), b("integer"), b("uuid")
	add(&tspace.Col{Name: "bmap_ss", Key: b("string"), Val: &sv, Min: 0, Max: 8}, strs[:3], strs[1:3])
	add(&tspace.Col{Name: "map_ss", Key: b("string"), Val: &sv, Min: 0, Max: -1}, strs[:3], strs[1:3])
	add(&tspace.Col{Name: "map_si", Key: b("string"), Val: &iv, Min: 0, Max: -1}, strs[:3], ints[:2])
	add(&tspace.Col{Name: "map_is", Key: b("integer"), Val: &sv, Min: 0, Max: -1}, ints[:3], strs[:2])
	add(&tspace.Col{Name: "map_uu", Key: b("uuid"), Val: &uv, Min: 0, Max: -1}, uuids[:3], uuids[2:4])
	return &tspace.Schema{Name: "VDB", Tables: []*tspace.Table{t}}, cols
}

// ordered value: list of atoms (keys) in a specific order, with map values.
type oval struct {
	k []ref.Atom
	v []ref.Atom
}

func (o oval) datum(isMap bool) ref.Datum {
	d := ref.Datum{Map: isMap}
	for i, k := range o.k {
		if isMap {
			d = d.WithPair(k, o.v[i])
		} else {
			d = d.With(k)
		}
	}
	return d
}

// native builds the Go value of the column with the element order of o
// (nilIfEmpty selects nil instead of an empty, non-nil collection).
func (o oval) native(c *tspace.Col, nilIfEmpty bool) interface{} {
	gt := dyn.GoType(c)
	conv := func(a ref.Atom) reflect.Value {
		switch a.T {
		case 'i':
			return reflect.ValueOf(int(a.I))
		case 'r':
			return reflect.ValueOf(a.F)
		case 'b':
			return reflect.ValueOf(a.B)
		}
		return reflect.ValueOf(a.S)
	}
	switch {
	case c.IsMap():
		if len(o.k) == 0 && nilIfEmpty {
			return reflect.Zero(gt).Interface()
		}
		m := reflect.MakeMap(gt)
		for i, k := range o.k {
			m.SetMapIndex(conv(k), conv(o.v[i]))
		}
		return m.Interface()
	case c.IsScalar():
		return conv(o.k[0]).Interface()
	case c.IsOptional():
		if len(o.k) == 0 {
			return reflect.Zero(gt).Interface()
		}
		p := reflect.New(gt.Elem())
		p.Elem().Set(conv(o.k[0]))
		return p.Interface()
	}
	if len(o.k) == 0 && nilIfEmpty {
		return reflect.Zero(gt).Interface()
	}
	s := reflect.MakeSlice(gt, 0, len(o.k)+2)
	for _, k := range o.k {
		s = reflect.Append(s, conv(k))
	}
	return s.Interface()
}

func (o oval) String() string {
	s := "["
	for i, k := range o.k {
		if i > 0 {
			s += ","
		}
		s += k.String()
		if o.v != nil {
			s += ":" + o.v[i].String()
		}
	}
	return s + "]"
}

// enumerate all ordered lists of all subsets of univ.
func orderedLists(univ []ref.Atom) []oval {
	var out []oval
	var rec func(cur []ref.Atom, used []bool)
	rec = func(cur []ref.Atom, used []bool) {
		out = append(out, oval{k: append([]ref.Atom{}, cur...)})
		for i, a := range univ {
			if !used[i] {
				used[i] = true
				rec(append(cur, a), used)
				used[i] = false
			}
		}
	}
	rec(nil, make([]bool, len(univ)))
	return out
}

// all maps over keys x vals (each key absent or one of the values).
func allMaps(keys, vals []ref.Atom) []oval {
	var out []oval
	n := len(vals) + 1
	total := 1
	for range keys {
		total *= n
	}
	for code := 0; code < total; code++ {
		o := oval{v: []ref.Atom{}}
		x := code
		for _, k := range keys {
			d := x % n
			x /= n
			if d > 0 {
				o.k = append(o.k, k)
				o.v = append(o.v, vals[d-1])
			}
		}
		out = append(out, o)
	}
	return out
}

func (cc c10col) small() []oval {
	c := cc.col
	switch {
	case c.IsMap():
		return allMaps(cc.univ, cc.vals)
	case c.IsScalar():
		var out []oval
		for _, a := range cc.univ {
			out = append(out, oval{k: []ref.Atom{a}})
		}
		return out
	case c.IsOptional():
		out := []oval{{}}
		for _, a := range cc.univ {
			out = append(out, oval{k: []ref.Atom{a}})
		}
		return out
	}
	return orderedLists(cc.univ)
}

func (cc c10col) random(p *prng.R) oval {
	c := cc.col
	mk := func(i int) ref.Atom {
		switch c.Key.Type {
		case "integer":
			return ref.Int(int64(i*7 - 100))
		case "real":
			return ref.Real(float64(i) / 4)
		case "string":
			return ref.Str(fmt.Sprintf("k%d", i))
		case "boolean":
			return ref.Bool(i%2 == 0)
		}
		return ref.UUID(fmt.Sprintf("%08d-0000-4000-8000-000000000000", i))
	}
	n := p.Intn(40)
	if c.Key.Type == "boolean" {
		n = p.Intn(3)
	}
	o := oval{}
	if c.IsMap() {
		o.v = []ref.Atom{}
	}
	seen := map[ref.Atom]bool{}
	for i := 0; i < n; i++ {
		k := mk(p.Intn(64))
		if seen[k] {
			continue
		}
		seen[k] = true
		o.k = append(o.k, k)
		if c.IsMap() {
			o.v = append(o.v, cc.vals[p.Intn(len(cc.vals))])
		}
	}
	return o
}

type c10env struct {
	m    *dyn.Model
	cols []c10col
}

func (e *c10env) modelWith(c *tspace.Col, v interface{}) model.Model {
	mdl := reflect.New(e.m.Types["T"])
	mdl.Elem().FieldByName("UUID").SetString(c10UUID)
	mdl.Elem().FieldByName(dyn.FieldName(c.Name)).Set(reflect.ValueOf(v))
	return mdl.Interface()
}

func deepCopyModel(m model.Model) model.Model {
	// independent of the library's Clone: reflect-based copy of slices, maps, pointers
	src := reflect.ValueOf(m).Elem()
	dst := reflect.New(src.Type())
	for i := 0; i < src.NumField(); i++ {
		f := src.Field(i)
		switch f.Kind() {
		case reflect.Slice:
			if !f.IsNil() {
				n := reflect.MakeSlice(f.Type(), f.Len(), f.Cap())
				reflect.Copy(n, f)
				dst.Elem().Field(i).Set(n)
			}
		case reflect.Map:
			if !f.IsNil() {
				n := reflect.MakeMapWithSize(f.Type(), f.Len())
				it := f.MapRange()
				for it.Next() {
					n.SetMapIndex(it.Key(), it.Value())
				}
				dst.Elem().Field(i).Set(n)
			}
		case reflect.Ptr:
			if !f.IsNil() {
				n := reflect.New(f.Type().Elem())
				n.Elem().Set(f.Elem())
				dst.Elem().Field(i).Set(n)
			}
		default:
			dst.Elem().Field(i).Set(f)
		}
	}
	return dst.Interface()
}

// c10Pair checks the laws for one column and one pair through the public API.
func (e *c10env) pair(cc c10col, a, b oval, nilA bool) []finding {
	c := cc.col
	var fs []finding
	kind := c.Desc()
	da, db := a.datum(c.IsMap()), b.datum(c.IsMap())
	equal := da.Equal(db)
	mA := e.modelWith(c, a.native(c, nilA))
	snapA := deepCopyModel(mA)
	// the update operation as the server receives it
	op := ovsdb.Operation{Op: "update", Table: "T", Row: ovsdb.Row{c.Name: dyn.ToOvs(c, db)}, Where: []ovsdb.Condition{}}
	ob, _ := json.Marshal(op)
	var wop ovsdb.Operation
	if err := json.Unmarshal(ob, &wop); err != nil {
		return []finding{{"C10/harness/op-decode", err.Error()}}
	}
	mu := updates.ModelUpdates{}
	if err := mu.AddOperation(e.m.DB, "T", c10UUID, mA, &wop); err != nil {
		return []finding{{"C10/compute/error/" + kind, fmt.Sprintf("AddOperation(update %s -> %s) failed: %v", a, b, err)}}
	}
	if !reflect.DeepEqual(mA, snapA) {
		fs = append(fs, finding{"C10/compute/alters-source-model/" + kind, fmt.Sprintf("computing the difference %s -> %s altered the model it was computed from", a, b)})
	}
	var modify *ovsdb.Row
	n := 0
	_ = mu.ForEachRowUpdate("T", func(u string, ru ovsdb.RowUpdate2) error {
		n++
		modify = ru.Modify
		return nil
	})
	if equal {
		if n != 0 {
			fs = append(fs, finding{"C10/compute/nonempty-for-equal/" + kind, fmt.Sprintf("difference of equal values %s and %s is not empty: %v", a, b, modify)})
		}
		return fs
	}
	if n != 1 || modify == nil {
		fs = append(fs, finding{"C10/compute/empty-for-different/" + kind, fmt.Sprintf("difference of %s and %s is empty (updates=%d)", a, b, n)})
		return fs
	}
	if len(*modify) != 1 {
		fs = append(fs, finding{"C10/compute/extra-columns/" + kind, fmt.Sprintf("modify row of a one-column change has columns %v", *modify)})
	}
	// the modify row as a peer receives it
	mb, _ := json.Marshal(ovsdb.RowUpdate2{Modify: modify})
	var ru2 ovsdb.RowUpdate2
	if err := json.Unmarshal(mb, &ru2); err != nil {
		return append(fs, finding{"C10/apply/undecodable/" + kind, fmt.Sprintf("modify row %s does not decode: %v", mb, err)})
	}
	mA2 := e.modelWith(c, a.native(c, nilA))
	snapA2 := deepCopyModel(mA2)
	mu2 := updates.ModelUpdates{}
	if err := mu2.AddRowUpdate2(e.m.DB, "T", c10UUID, mA2, ru2); err != nil {
		return append(fs, finding{"C10/apply/error/" + kind, fmt.Sprintf("applying modify %s to %s failed: %v", mb, a, err)})
	}
	if !reflect.DeepEqual(mA2, snapA2) {
		fs = append(fs, finding{"C10/apply/alters-source-model/" + kind, fmt.Sprintf("applying the difference %s to %s altered the model it was applied to", mb, a)})
	}
	res := mu2.GetModel("T", c10UUID)
	if res == nil {
		return append(fs, finding{"C10/apply/no-result/" + kind, fmt.Sprintf("applying modify %s to %s yields no model (b=%s)", mb, a, b)})
	}
	got, err := dyn.FromNative(c, e.m.Field("T", res, c.Name))
	if err != nil {
		return append(fs, finding{"C10/apply/invalid-result/" + kind, fmt.Sprintf("applying modify %s to %s: %v", mb, a, err)})
	}
	if !got.Equal(db) {
		fs = append(fs, finding{"C10/apply/law/" + kind, fmt.Sprintf("apply(a, diff(a,b)) != b: a=%s b=%s diff=%s result=%s", a, b, mb, got)})
	}
	return fs
}

// together checks an update operation that names two columns: cc goes from a to b while the
// companion column keeps its value x (named in the row all the same). The operation's own
// new model must hold (b, x), the modify row must describe cc alone, and applying it to
// (a, x) must give (b, x).
func (e *c10env) together(cc c10col, a, b oval, comp c10col, x oval) []finding {
	c, k := cc.col, comp.col
	var fs []finding
	kind := c.Desc() + "+unchanged:" + k.Desc()
	db, dx := b.datum(c.IsMap()), x.datum(k.IsMap())
	equal := a.datum(c.IsMap()).Equal(db)
	build := func() model.Model {
		mdl := reflect.New(e.m.Types["T"])
		mdl.Elem().FieldByName("UUID").SetString(c10UUID)
		mdl.Elem().FieldByName(dyn.FieldName(c.Name)).Set(reflect.ValueOf(a.native(c, false)))
		mdl.Elem().FieldByName(dyn.FieldName(k.Name)).Set(reflect.ValueOf(x.native(k, false)))
		return mdl.Interface()
	}
	mA := build()
	snapA := deepCopyModel(mA)
	op := ovsdb.Operation{Op: "update", Table: "T", Row: ovsdb.Row{c.Name: dyn.ToOvs(c, db), k.Name: dyn.ToOvs(k, dx)}, Where: []ovsdb.Condition{}}
	ob, _ := json.Marshal(op)
	var wop ovsdb.Operation
	if err := json.Unmarshal(ob, &wop); err != nil {
		return []finding{{"C10/harness/op-decode", err.Error()}}
	}
	mu := updates.ModelUpdates{}
	if err := mu.AddOperation(e.m.DB, "T", c10UUID, mA, &wop); err != nil {
		return []finding{{"C10/two-columns/error/" + kind, fmt.Sprintf("AddOperation(update %s -> %s, %s unchanged) failed: %v", a, b, x, err)}}
	}
	if !reflect.DeepEqual(mA, snapA) {
		fs = append(fs, finding{"C10/two-columns/alters-source-model/" + kind, fmt.Sprintf("update %s -> %s with unchanged %s altered the model it was computed from", a, b, x)})
	}
	var modify *ovsdb.Row
	n := 0
	_ = mu.ForEachRowUpdate("T", func(u string, ru ovsdb.RowUpdate2) error {
		n++
		modify = ru.Modify
		return nil
	})
	if equal {
		if n != 0 {
			fs = append(fs, finding{"C10/two-columns/nonempty-for-equal/" + kind, fmt.Sprintf("an update that changes nothing yields an update: %v", modify)})
		}
		return fs
	}
	if n != 1 || modify == nil {
		return append(fs, finding{"C10/two-columns/empty-for-different/" + kind, fmt.Sprintf("difference of %s and %s is empty (updates=%d)", a, b, n)})
	}
	if _, ok := (*modify)[k.Name]; ok || len(*modify) != 1 {
		fs = append(fs, finding{"C10/two-columns/extra-columns/" + kind, fmt.Sprintf("modify row of a one-column change has columns %v", *modify)})
	}
	check := func(what string, res model.Model) {
		if res == nil {
			fs = append(fs, finding{"C10/two-columns/" + what + "/no-model/" + kind, "no resulting model"})
			return
		}
		for _, q := range []struct {
			col  *tspace.Col
			want ref.Datum
		}{{c, db}, {k, dx}} {
			got, err := dyn.FromNative(q.col, e.m.Field("T", res, q.col.Name))
			if err != nil {
				fs = append(fs, finding{"C10/two-columns/" + what + "/invalid-result/" + kind, fmt.Sprintf("column %s: %v", q.col.Name, err)})
			} else if !got.Equal(q.want) {
				fs = append(fs, finding{"C10/two-columns/" + what + "/law/" + kind, fmt.Sprintf("update %s: %s -> %s, %s: %s unchanged: column %s of the result is %s, expected %s", c.Name, a, b, k.Name, x, q.col.Name, got, q.want)})
			}
		}
	}
	check("new-model-of-the-operation", mu.GetModel("T", c10UUID))
	mb, _ := json.Marshal(ovsdb.RowUpdate2{Modify: modify})
	var ru2 ovsdb.RowUpdate2
	if err := json.Unmarshal(mb, &ru2); err != nil {
		return append(fs, finding{"C10/two-columns/undecodable/" + kind, fmt.Sprintf("modify row %s does not decode: %v", mb, err)})
	}
	mu2 := updates.ModelUpdates{}
	if err := mu2.AddRowUpdate2(e.m.DB, "T", c10UUID, build(), ru2); err != nil {
		return append(fs, finding{"C10/two-columns/apply-error/" + kind, fmt.Sprintf("applying modify %s failed: %v", mb, err)})
	}
	check("modify-applied-to-old", mu2.GetModel("T", c10UUID))
	return fs
}

// chained: two updates of one row aggregated in ONE ModelUpdates, the second computed from
// the model the first left there (GetModel), as the AddOperation contract asks. Computing
// the second difference must not alter that model while it is still the caller's, and the
// aggregate must lead from a to c.
func (e *c10env) chained(cc c10col, a, b, o oval) []finding {
	c := cc.col
	kind := c.Desc()
	var fs []finding
	mk := func(v oval) (*ovsdb.Operation, error) {
		op := ovsdb.Operation{Op: "update", Table: "T", Row: ovsdb.Row{c.Name: dyn.ToOvs(c, v.datum(c.IsMap()))}, Where: []ovsdb.Condition{}}
		ob, _ := json.Marshal(op)
		var wop ovsdb.Operation
		err := json.Unmarshal(ob, &wop)
		return &wop, err
	}
	op1, e1 := mk(b)
	op2, e2 := mk(o)
	if e1 != nil || e2 != nil {
		return nil
	}
	mA := e.modelWith(c, a.native(c, false))
	u := updates.ModelUpdates{}
	if err := u.AddOperation(e.m.DB, "T", c10UUID, mA, op1); err != nil {
		return nil // judged by pair()
	}
	mid := u.GetModel("T", c10UUID)
	if mid == nil {
		mid = mA // a -> b changed nothing
	}
	snap := deepCopyModel(mid)
	if err := u.AddOperation(e.m.DB, "T", c10UUID, mid, op2); err != nil {
		return []finding{{"C10/chained/error/" + kind, fmt.Sprintf("second update (%s -> %s -> %s) in one ModelUpdates failed: %v", a, b, o, err)}}
	}
	if !reflect.DeepEqual(mid, snap) {
		fs = append(fs, finding{"C10/chained/alters-source-model/" + kind, fmt.Sprintf("computing the difference %s -> %s altered the model it was computed from (the result of %s -> %s)", b, o, a, b)})
	}
	want := o.datum(c.IsMap())
	res := u.GetModel("T", c10UUID)
	if a.datum(c.IsMap()).Equal(want) {
		return fs // net zero: C11 judges what survives
	}
	if res == nil {
		return append(fs, finding{"C10/chained/no-result/" + kind, fmt.Sprintf("%s -> %s -> %s in one ModelUpdates leaves no model", a, b, o)})
	}
	if got, err := dyn.FromNative(c, e.m.Field("T", res, c.Name)); err != nil || !got.Equal(want) {
		fs = append(fs, finding{"C10/chained/law/" + kind, fmt.Sprintf("%s -> %s -> %s in one ModelUpdates ends at %v (err %v)", a, b, o, got, err)})
	}
	return fs
}

// peer applies an arbitrary peer difference d to a and compares with the update2 rules.
func (e *c10env) peer(cc c10col, a, d oval) []finding {
	c := cc.col
	kind := c.Desc()
	da, dd := a.datum(c.IsMap()), d.datum(c.IsMap())
	// expected result by the update2 rules
	want := da
	switch {
	case c.IsMap():
		for i, k := range dd.K {
			if v, ok := want.Get(k); ok && v == dd.V[i] {
				want = want.Without(k)
			} else {
				want = want.WithPair(k, dd.V[i])
			}
		}
	case c.IsSet():
		for _, k := range dd.K {
			if want.Has(k) {
				want = want.Without(k)
			} else {
				want = want.With(k)
			}
		}
	default:
		want = dd
	}
	if dd.Len() == 0 && !c.IsOptional() {
		return nil // an empty difference is never sent
	}
	mod := ovsdb.Row{c.Name: dyn.ToOvs(c, dd)}
	mb, _ := json.Marshal(ovsdb.RowUpdate2{Modify: &mod})
	var ru2 ovsdb.RowUpdate2
	if err := json.Unmarshal(mb, &ru2); err != nil {
		return nil
	}
	mA := e.modelWith(c, a.native(c, false))
	snap := deepCopyModel(mA)
	mu := updates.ModelUpdates{}
	if err := mu.AddRowUpdate2(e.m.DB, "T", c10UUID, mA, ru2); err != nil {
		return []finding{{"C10/peer/error/" + kind, fmt.Sprintf("applying peer modify %s to %s failed: %v", mb, a, err)}}
	}
	var fs []finding
	if !reflect.DeepEqual(mA, snap) {
		fs = append(fs, finding{"C10/peer/alters-source-model/" + kind, fmt.Sprintf("applying peer modify %s altered the model %s it was applied to", mb, a)})
	}
	res := mu.GetModel("T", c10UUID)
	if res == nil {
		if !want.Equal(da) {
			fs = append(fs, finding{"C10/peer/no-result/" + kind, fmt.Sprintf("applying peer modify %s to %s yields no update, expected %s", mb, a, want)})
		}
		return fs
	}
	got, err := dyn.FromNative(c, e.m.Field("T", res, c.Name))
	if err != nil {
		return append(fs, finding{"C10/peer/invalid-result/" + kind, fmt.Sprintf("applying peer modify %s to %s: %v", mb, a, err)})
	}
	if !got.Equal(want) {
		fs = append(fs, finding{"C10/peer/rule/" + kind, fmt.Sprintf("peer modify %s applied to %s gives %s, update2 rules give %s", mb, a, got, want)})
	}
	return fs
}

// direct checks the exported primitives (route ii).
func (e *c10env) direct(cc c10col, a, b, o oval) []finding {
	c := cc.col
	kind := c.Desc()
	var fs []finding
	da, db := a.datum(c.IsMap()), b.datum(c.IsMap())
	nb := b.native(c, false)
	snapB := oval{k: append([]ref.Atom{}, b.k...), v: append([]ref.Atom{}, b.v...)}.native(c, false)
	diff, changed := updates.VerifDifference(a.native(c, false), nb)
	if changed == da.Equal(db) {
		fs = append(fs, finding{"C10/direct/changed-flag/" + kind, fmt.Sprintf("difference(%s,%s) reports changed=%v", a, b, changed)})
	}
	if !reflect.DeepEqual(nb, snapB) {
		fs = append(fs, finding{"C10/direct/alters-b/" + kind, fmt.Sprintf("difference(%s,%s) altered its second argument", a, b)})
	}
	if changed && diff != nil {
		// apply to a fresh copy of a; the diff may alias b: keep a copy of b to compare
		res, _ := updates.VerifApplyDifference(a.native(c, false), diff)
		got, err := dyn.FromNative(c, res)
		if err != nil {
			fs = append(fs, finding{"C10/direct/invalid-result/" + kind, fmt.Sprintf("applyDifference(%s, difference(%s,%s)): %v", a, a, b, err)})
		} else if !got.Equal(db) {
			fs = append(fs, finding{"C10/direct/law/" + kind, fmt.Sprintf("applyDifference(a, difference(a,b)) = %s for a=%s b=%s", got, a, b)})
		}
	}
	// merge law: apply(o, merge(o, d1, d2)) == apply(apply(o, d1), d2) with d1 = diff(o,a), d2 = diff(a,b)
	if c.IsMap() || c.IsSet() {
		do := o.datum(c.IsMap())
		d1, ch1 := updates.VerifDifference(o.native(c, false), a.native(c, false))
		d2, ch2 := updates.VerifDifference(a.native(c, false), b.native(c, false))
		if ch1 != ch2 {
			// one of the two steps changes nothing (its difference is nil): the merge
			// must be the other difference and must say that there is a difference
			md, chm := updates.VerifMergeDifference(o.native(c, false), d1, d2)
			if !ch2 {
				// "no difference" is also expressed by an untyped nil (a mutation without effect)
				if md2, chm2 := updates.VerifMergeDifference(o.native(c, false), d1, nil); !chm2 {
					chm = false
				} else {
					md = md2
				}
			}
			if !chm {
				fs = append(fs, finding{"C10/direct/merge-flag/" + kind, fmt.Sprintf("merge(o, diff(o,a), diff(a,b)) reports 'no difference' although o != b: o=%s a=%s b=%s", o, a, b)})
			} else if res, _ := updates.VerifApplyDifference(o.native(c, false), md); true {
				if got, err := dyn.FromNative(c, res); err != nil || !got.Equal(db) {
					fs = append(fs, finding{"C10/direct/merge-law/" + kind, fmt.Sprintf("apply(o, merge(o, diff(o,a), diff(a,b))) = %s (%v), expected b: o=%s a=%s b=%s", got, err, o, a, b)})
				}
			}
		}
		if ch1 && ch2 {
			md, chm := updates.VerifMergeDifference(o.native(c, false), d1, d2)
			var got ref.Datum
			var err error
			if chm {
				res, _ := updates.VerifApplyDifference(o.native(c, false), md)
				got, err = dyn.FromNative(c, res)
			} else {
				got = do
			}
			if err != nil {
				fs = append(fs, finding{"C10/direct/merge-invalid/" + kind, fmt.Sprintf("merge of differences o=%s a=%s b=%s: %v", o, a, b, err)})
			} else if !got.Equal(db) {
				fs = append(fs, finding{"C10/direct/merge-law/" + kind, fmt.Sprintf("apply(o, merge(o, diff(o,a), diff(a,b))) = %s, expected b: o=%s a=%s b=%s", got, o, a, b)})
			}
		}
	}
	return fs
}

func c10Child(r *ev.Run, batch int) {
	s, cols := c10Schema()
	m, err := dyn.Build(s, nil)
	if err != nil {
		r.Violation("C10/harness/model-build", err.Error(), nil)
		return
	}
	e := &c10env{m: m, cols: cols}
	nb := r.N(8, 32)
	rep := func(fs []finding, cc c10col, a, b oval) {
		for _, f := range fs {
			r.Violation(f.Sig, f.What, map[string]interface{}{"column": cc.col.Desc(), "a": a.String(), "b": b.String()})
		}
	}
	smallPairs := 0
	idx := 0
	for _, cc := range cols {
		sm := cc.small()
		for i, a := range sm {
			for j, b := range sm {
				idx++
				if idx%nb != batch {
					continue
				}
				smallPairs++
				r.Eval(1)
				da, db := a.datum(cc.col.IsMap()), b.datum(cc.col.IsMap())
				if !da.Equal(db) || a.String() != b.String() {
					r.Distinct(cc.col.Name + a.String() + b.String())
				}
				r.LogCase(fmt.Sprintf("C10 %s a=%s b=%s", cc.col.Name, a, b))
				func() {
					defer func() {
						if p := recover(); p != nil {
							r.Violation("C10/panic/"+cc.col.Desc()+"/"+ev.PanicSignature(fmt.Sprint(p), ""), fmt.Sprintf("panic: %v", p), map[string]interface{}{"a": a.String(), "b": b.String()})
						}
					}()
					rep(e.pair(cc, a, b, (i+j)%2 == 0), cc, a, b)
					rep(e.peer(cc, a, b), cc, a, b)
					rep(e.direct(cc, a, b, sm[(i*7+j*3)%len(sm)]), cc, a, b)
				rep(e.chained(cc, a, b, sm[(i*5+j*11)%len(sm)]), cc, a, b)
					if comp := cols[(idx*5+3)%len(cols)]; comp.col.Name != cc.col.Name {
						cs := comp.small()
						r.Count("two_column_updates", 1)
						rep(e.together(cc, a, b, comp, cs[(i*3+j)%len(cs)]), cc, a, b)
					}
				}()
				if r.NeedSample() && len(a.k) > 2 && len(b.k) > 1 {
					r.Sample(map[string]interface{}{"column": cc.col.Desc(), "a": a.String(), "b": b.String()})
				}
			}
		}
	}
	r.Count("small_scope_pairs", smallPairs)
	// random larger values
	rnd := r.N(1500, 60000)
	p := prng.Derive(r.Seed, "C10", batch)
	for i := 0; i < rnd; i++ {
		cc := cols[p.Intn(len(cols))]
		if cc.col.IsScalar() || cc.col.IsOptional() {
			continue
		}
		a, b, o := cc.random(p), cc.random(p), cc.random(p)
		if p.Chance(1, 4) {
			// b = a with a few changes (overlap)
			b = oval{k: append([]ref.Atom{}, a.k...)}
			if a.v != nil {
				b.v = append([]ref.Atom{}, a.v...)
			}
			if len(b.k) > 1 {
				cut := p.Intn(len(b.k))
				b.k = append(b.k[:cut], b.k[cut+1:]...)
				if b.v != nil {
					b.v = append(b.v[:cut], b.v[cut+1:]...)
				}
			}
			perm := p.Perm(len(b.k))
			nk := make([]ref.Atom, len(b.k))
			var nv []ref.Atom
			if b.v != nil {
				nv = make([]ref.Atom, len(b.v))
			}
			for x, y := range perm {
				nk[x] = b.k[y]
				if nv != nil {
					nv[x] = b.v[y]
				}
			}
			b.k, b.v = nk, nv
		}
		r.Eval(1)
		r.Count("random_pairs", 1)
		r.Distinct(cc.col.Name + a.String() + b.String())
		r.LogCase(fmt.Sprintf("C10 random %s a=%s b=%s", cc.col.Name, a, b))
		func() {
			defer func() {
				if pv := recover(); pv != nil {
					r.Violation("C10/panic/"+cc.col.Desc()+"/"+ev.PanicSignature(fmt.Sprint(pv), ""), fmt.Sprintf("panic: %v", pv), map[string]interface{}{"a": a.String(), "b": b.String()})
				}
			}()
			rep(e.pair(cc, a, b, false), cc, a, b)
			rep(e.peer(cc, a, b), cc, a, b)
			rep(e.direct(cc, a, b, o), cc, a, b)
			if comp := cols[p.Intn(len(cols))]; comp.col.Name != cc.col.Name && !comp.col.IsScalar() && !comp.col.IsOptional() {
				r.Count("two_column_updates", 1)
				rep(e.together(cc, a, b, comp, comp.random(p)), cc, a, b)
			}
		}()
	}
	// mutate operations turned into differences: one operation with 1-3 mutations of one
	// column (insert then delete of what was just inserted, delete by key and by pair,
	// arithmetic), starting from an empty, small or random value. Accumulation and judgement
	// are C11's (reference execution gives the new value; the modify row applied to the old
	// value must give it too); here every case is a single operation.
	me := &c11env{m: m, t: s.Tables[0]}
	nm := r.N(1200, 40000)
	mp := prng.Derive(r.Seed, "C10mutate", batch)
	for i := 0; i < nm; i++ {
		cc := cols[mp.Intn(len(cols))]
		c := cc.col
		pick := func() ref.Datum {
			switch mp.Intn(3) {
			case 0:
				return ref.Datum{Map: c.IsMap()}
			case 1:
				sm := cc.small()
				return sm[mp.Intn(len(sm))].datum(c.IsMap())
			}
			return cc.random(mp).datum(c.IsMap())
		}
		initial := ref.Row{}
		for _, tc := range s.Tables[0].Cols {
			initial[tc.Name] = ref.Default(tc)
		}
		var cur ref.Datum
		switch {
		case c.IsMap() || (c.IsSet() && !c.IsScalar() && !c.IsOptional()):
			cur = pick()
		case c.IsScalar() && (c.Key.Type == "integer" || c.Key.Type == "real"):
			// (the library supports arithmetic on scalar columns only and answers anything
			// else with an error: not a subject of this law)
			sm := cc.small()
			cur = sm[mp.Intn(len(sm))].datum(false)
		default:
			continue
		}
		if c.Max > 0 && cur.Len() > c.Max || cur.Len() < c.Min {
			continue
		}
		initial[c.Name] = cur
		var muts []ref.Mut
		seen := cur.Clone()
		for k := 1 + mp.Intn(3); k > 0; k-- {
			switch {
			case c.IsMap():
				v := pick()
				switch mp.Intn(3) {
				case 0:
					muts = append(muts, ref.Mut{Col: c.Name, Mutator: "insert", Val: v})
					for j, kk := range v.K {
						if !seen.Has(kk) {
							seen = seen.WithPair(kk, v.V[j])
						}
					}
				case 1:
					// delete by key, preferably keys just seen
					keys := ref.Datum{}
					src := seen
					if mp.Bool() {
						src = v
					}
					for _, kk := range src.K {
						if mp.Bool() {
							keys = keys.With(kk)
						}
					}
					muts = append(muts, ref.Mut{Col: c.Name, Mutator: "delete", Val: keys})
				default:
					src := seen
					if mp.Bool() {
						src = v
					}
					d := ref.Datum{Map: true}
					for j, kk := range src.K {
						if mp.Bool() {
							d = d.WithPair(kk, src.V[j])
						}
					}
					muts = append(muts, ref.Mut{Col: c.Name, Mutator: "delete", Val: d})
				}
			case c.IsSet() && !c.IsScalar() && !c.IsOptional():
				v := pick()
				if mp.Bool() {
					muts = append(muts, ref.Mut{Col: c.Name, Mutator: "insert", Val: v})
					for _, kk := range v.K {
						seen = seen.With(kk)
					}
				} else {
					d := ref.Datum{}
					src := seen
					if mp.Chance(1, 3) {
						src = v
					}
					for _, kk := range src.K {
						if mp.Bool() {
							d = d.With(kk)
						}
					}
					muts = append(muts, ref.Mut{Col: c.Name, Mutator: "delete", Val: d})
				}
			default:
				arg := ref.Set(ref.Int([]int64{1, 2, -1, 0}[mp.Intn(4)]))
				if c.Key.Type == "real" {
					arg = ref.Set(ref.Real([]float64{1, 0.5, -2, 0}[mp.Intn(4)]))
				}
				muts = append(muts, ref.Mut{Col: c.Name, Mutator: []string{"+=", "-=", "*="}[mp.Intn(3)], Val: arg})
			}
		}
		ops := []ref.Op{{Kind: "mutate", Table: "T", Where: byUUID(c10UUID), Muts: muts}}
		if i%4 == 3 && (c.IsMap() || c.IsSet()) {
			// two updates of the column in one transaction: the merged modify row applied to
			// the first old value must give the last new value (the merge is schema-aware:
			// bounded and unbounded sets, maps and optionals take different branches)
			ops = []ref.Op{
				{Kind: "update", Table: "T", Where: byUUID(c10UUID), Row: ref.Row{c.Name: pick()}},
				{Kind: "update", Table: "T", Where: byUUID(c10UUID), Row: ref.Row{c.Name: pick()}},
			}
			r.Count("two_updates_merged", 1)
		}
		r.Eval(1)
		r.Count("mutate_operations", 1)
		r.Distinct("m|" + c.Name + cur.String() + fmt.Sprint(opsJSON(ops)))
		r.LogCase(fmt.Sprintf("C10 mutate %s initial=%s ops=%v", c.Name, cur, opsJSON(ops)))
		func() {
			defer func() {
				if pv := recover(); pv != nil {
					r.Violation("C10/mutate/panic/"+c.Desc()+"/"+ev.PanicSignature(fmt.Sprint(pv), ""), fmt.Sprintf("panic: %v", pv), map[string]interface{}{"initial": cur.String(), "ops": opsJSON(ops)})
				}
			}()
			for _, f := range me.run(initial, ops, i%2 == 0) {
				r.Violation(strings.Replace(f.Sig, "C11/", "C10/mutate/", 1), f.What, map[string]interface{}{"column": c.Desc(), "initial": cur.String(), "ops": opsJSON(ops)})
			}
		}()
	}
	if batch == 0 {
		sizes := map[string]int{}
		total := 0
		for _, cc := range cols {
			n := len(cc.small())
			sizes[cc.col.Name] = n * n
			total += n * n
		}
		keys := make([]string, 0, len(sizes))
		for k := range sizes {
			keys = append(keys, k)
		}
		sort.Strings(keys)
		r.SetAdd("small_scope", fmt.Sprintf("complete: %d pairs over %d column kinds (split over the batches)", total, len(cols)))
	}
}
