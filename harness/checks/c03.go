package checks

// C03 — operation results and effects follow RFC 7047 semantics.
// The in-memory database is driven in lock-step with the reference model on
// generated schemas and histories. Judged only for transactions the database
// accepts; spurious rejections are counted by class in the evidence.

import (
	"fmt"
	"sort"
	"strings"

	"verifharness/internal/dyn"
	"verifharness/internal/ev"
	"verifharness/internal/gen"
	"verifharness/internal/prng"
	"verifharness/internal/ref"
	"verifharness/internal/tspace"
	"verifharness/internal/txn"
)

func init() { Register("C03", c03Parent, c03Child) }

func c03Parent(r *ev.Run) {
	r.Rule = "generated schema x history of generated transactions executed by the in-memory database and by the reference model from the same pre-state; distinct = (operation kinds, column kinds touched, condition functions, mutators) of transactions that changed the database or returned rows"
	r.Assume("the harness's reference model is the reading of RFC 7047 5.1/5.2 that decides 'correct'; every disagreement class was triaged by hand against the RFC text")
	r.Assume("out of domain (counted, not judged): transactions needing a constraint check the in-memory database does not implement (enum membership, max cardinality), integer overflow, non-finite reals, duplicates produced by set arithmetic, wait without timeout 0")
	r.Assume("select results are compared on the requested projection with 'absent == default'")
	r.RunBatches(ev.BatchOpts{N: r.N(16, 64)})
}

// compareAccepted compares the library's accepted reply with the reference outcome.
func compareAccepted(pfx string, m *dyn.Model, ops []ref.Op, rep *txn.Reply, out *ref.Outcome, post *ref.DB) []finding {
	var fs []finding
	s := m.S
	if out.Failed() {
		idx := len(out.Results) - 1
		kind, cls, why := "commit", out.CommitErr, out.CommitWhy
		if out.CommitErr == "" {
			kind, cls, why = out.Results[idx].Kind, out.Results[idx].Err, out.Results[idx].Why
		}
		detail := ""
		if out.CommitErr == "" && idx < len(ops) {
			detail = "/" + opDetail(s, ops[idx])
		}
		fs = append(fs, finding{
			Sig:  fmt.Sprintf("%s/accepted-but-rfc-rejects/%s/%s%s", pfx, kind, cls, detail),
			What: fmt.Sprintf("database accepted a transaction the reference rejects with %q (%s)", cls, why),
		})
		return fs
	}
	for i, op := range ops {
		if i >= len(rep.Results) || i >= len(out.Results) {
			break
		}
		lr, rr := rep.Results[i], out.Results[i]
		switch op.Kind {
		case "insert":
			if lr.UUID.GoUUID != rr.UUID {
				fs = append(fs, finding{pfx + "/result/insert-uuid", fmt.Sprintf("op %d insert: result uuid %s, expected %s", i, lr.UUID.GoUUID, rr.UUID)})
			}
		case "update", "mutate", "delete":
			if lr.Count != rr.Count {
				fs = append(fs, finding{fmt.Sprintf("%s/result/count/%s/%s", pfx, op.Kind, opDetail(s, op)),
					fmt.Sprintf("op %d %s: count %d, reference %d", i, op.Kind, lr.Count, rr.Count)})
			}
		case "select":
			t := s.Table(op.Table)
			rows, err := txn.SelRows(m, op.Table, lr)
			if err != nil {
				fs = append(fs, finding{pfx + "/result/select-undecodable", fmt.Sprintf("op %d select: %v", i, err)})
				continue
			}
			got := map[string]ref.Row{}
			for _, sr := range rows {
				got[sr.UUID] = sr.Cols
			}
			want := map[string]ref.Row{}
			for _, sr := range rr.Rows {
				want[sr.UUID] = sr.Cols
			}
			if len(got) != len(rows) {
				fs = append(fs, finding{pfx + "/result/select-duplicate-row", fmt.Sprintf("op %d select returned a row twice", i)})
			}
			bad := ""
			for u := range want {
				if _, ok := got[u]; !ok {
					bad = "missing row " + u
				}
			}
			for u := range got {
				if _, ok := want[u]; !ok {
					bad = "extra row " + u
				}
			}
			if bad != "" {
				fs = append(fs, finding{fmt.Sprintf("%s/result/select-rows/%s", pfx, opDetail(s, op)),
					fmt.Sprintf("op %d select: %s (got %d rows, reference %d)", i, bad, len(got), len(want))})
				continue
			}
			for u, wr := range want {
				for cn, wd := range wr {
					c := t.Col(cn)
					gd, ok := got[u][cn]
					if !ok {
						gd = ref.Default(c)
					}
					if !gd.Equal(wd) {
						fs = append(fs, finding{fmt.Sprintf("%s/result/select-value/%s", pfx, c.Desc()),
							fmt.Sprintf("op %d select row %s column %s: got %s, reference %s", i, u, cn, gd, wd)})
					}
				}
			}
		case "wait":
			// both succeeded
		}
	}
	if d := post.Diff(out.Post); d != "" {
		fs = append(fs, finding{pfx + "/post-state/" + postClass(s, ops, d), "database contents after the transaction differ from the reference: " + d + " (first=database, second=reference)"})
	}
	return fs
}

// opDetail summarises condition functions / mutators and column kinds of one op.
func opDetail(s *tspace.Schema, op ref.Op) string {
	return opShape(s, []ref.Op{op})
}

func postClass(s *tspace.Schema, ops []ref.Op, diff string) string {
	// class = column description named in the diff, plus the op kinds that touch that column
	col := ""
	if i := strings.Index(diff, " column "); i >= 0 {
		rest := diff[i+8:]
		if j := strings.Index(rest, " ("); j >= 0 {
			col = rest[:j]
			if k := strings.Index(rest, ")"); k > j {
				col = rest[j+2 : k]
			}
		}
	} else if strings.Contains(diff, "only in first") {
		col = "row-only-in-database"
	} else if strings.Contains(diff, "only in second") {
		col = "row-only-in-reference"
	}
	kinds := map[string]bool{}
	for _, op := range ops {
		k := op.Kind
		for _, mu := range op.Muts {
			k += mu.Mutator
		}
		if op.Kind != "select" && op.Kind != "wait" {
			kinds[k] = true
		}
	}
	var ks []string
	for k := range kinds {
		ks = append(ks, k)
	}
	sort.Strings(ks)
	return col + "/" + strings.Join(ks, "+")
}

// immutableChanged compares immutable columns of rows present before and after.
func immutableChanged(pfx string, pre, post *ref.DB) []finding {
	var fs []finding
	for _, t := range pre.S.Tables {
		for u, r := range pre.T[t.Name] {
			r2, ok := post.T[t.Name][u]
			if !ok {
				continue
			}
			for _, c := range t.Cols {
				if c.Immutable && !r[c.Name].Equal(r2[c.Name]) {
					fs = append(fs, finding{pfx + "/immutable-changed/" + c.Desc(), fmt.Sprintf("immutable column %s of %s/%s changed from %s to %s", c.Name, t.Name, u, r[c.Name], r2[c.Name])})
				}
			}
		}
	}
	return fs
}

// c03Judge runs one transaction on a fresh engine loaded with pre.
func c03Judge(m *dyn.Model) func(pre *ref.DB, ops []ref.Op) []finding {
	return func(pre *ref.DB, ops []ref.Op) []finding {
		e, err := loadState(m, pre)
		if err != nil {
			return nil
		}
		return txnStep("C03", m, e, pre, ops, nil)
	}
}

// c03Step executes ops on engine e (whose state equals pre) and judges it.
func txnStep(pfx string, m *dyn.Model, e *txn.Engine, pre *ref.DB, ops []ref.Op, r *ev.Run) []finding {
	out := pre.Transact(cloneOps(ops))
	rep, err := e.Transact(ops, true)
	if err != nil {
		return []finding{{pfx + "/harness/encode", "cannot encode operations: " + err.Error()}}
	}
	if rep.Hung {
		return []finding{{pfx + "/transaction-does-not-terminate/" + opShape(m.S, ops), fmt.Sprintf("Transact did not return within %s on a database of %d rows", txn.HangLimit, pre.Rows())}}
	}
	if out.OutOfDom != "" {
		if r != nil {
			r.Count("out_of_domain", 1)
		}
		return nil
	}
	if rep.Failed {
		// the outcome of a zero-timeout wait is a result like any other: "timed out"
		// although the reference finds the condition satisfied is a wrong outcome
		if i := rep.FailIndex; i >= 0 && i < len(ops) && ops[i].Kind == "wait" && rep.FailErr == "timed out" {
			refFail := len(ops) + 1
			if out.Failed() && out.CommitErr == "" {
				refFail = len(out.Results) - 1
			}
			if refFail > i {
				if r != nil {
					r.Count("wait_operations_judged", 1)
				}
				return []finding{{fmt.Sprintf("%s/wait/timed-out-although-condition-holds/until%s/%s", pfx, ops[i].Until, waitShape(m.S, ops[i])),
					fmt.Sprintf("operation %d: wait until %s timed out, but the rows selected by its condition %s the given rows", i, ops[i].Until, map[string]string{"==": "equal", "!=": "differ from"}[ops[i].Until])}}
			}
		}
		if r != nil {
			if out.Failed() {
				r.Count("rejected_by_both", 1)
				if rep.FailErr == "timed out" {
					r.Count("wait_operations_timed_out_in_both", 1)
				}
			} else {
				r.Count("spurious_rejections", 1)
				r.SetAdd("spurious_rejection_classes", errClassOf(rep.FailErr+" "+rep.FailWhy))
			}
		}
		return nil
	}
	if rep.CommitErr != nil {
		return []finding{{pfx + "/commit-failed-after-success-reply", "reply reported success but Commit failed: " + rep.CommitErr.Error()}}
	}
	post, err := m.Snapshot(e.DB)
	if err != nil {
		return []finding{{pfx + "/stored-state-unreadable/" + errClassOf(err.Error()), "database state cannot be read back: " + err.Error()}}
	}
	fs := compareAccepted(pfx, m, ops, rep, out, post)
	fs = append(fs, immutableChanged(pfx, pre, post)...)
	if r != nil {
		r.Count("accepted", 1)
		for _, op := range ops {
			if op.Kind == "wait" {
				r.Count("wait_operations_satisfied_in_both", 1)
			}
		}
		changed := !post.Equal(pre)
		returned := false
		for _, res := range rep.Results {
			if len(res.Rows) > 0 {
				returned = true
			}
		}
		if changed || returned {
			r.Distinct(opShape(m.S, ops))
		}
		if changed {
			r.Count("accepted_changing_state", 1)
		}
	}
	return fs
}

// waitShape: kinds of the compared columns and how the given rows relate to the table.
func waitShape(s *tspace.Schema, op ref.Op) string {
	t := s.Table(op.Table)
	kinds := map[string]bool{}
	for _, cn := range op.Columns {
		if c := t.Col(cn); c != nil {
			kinds[c.Kind()+":"+c.Key.Type] = true
		}
	}
	var ks []string
	for k := range kinds {
		ks = append(ks, k)
	}
	sort.Strings(ks)
	return fmt.Sprintf("rows=%d/%s", minInt(len(op.Rows), 3), strings.Join(ks, ","))
}

func c03Child(r *ev.Run, batch int) {
	schemas := r.N(3, 32)
	txns := r.N(420, 1000)
	for si := 0; si < schemas; si++ {
		p := prng.Derive(r.Seed, "C03", batch, si)
		o := tspace.Full(1 + p.Intn(3))
		// reference columns (refTable) and non-root tables are C04's subject:
		// their commit-time effects are excluded here so that a defect of the
		// reference tracker is reported once, by C04
		o.Refs, o.NonRoot = false, false
		o.Indexes = false // unique indexes are the subject of C06
		s := tspace.Gen(p, o)
		m, err := dyn.Build(s, nil)
		if err != nil {
			r.Violation("C03/harness/model-build", "cannot build run-time model: "+err.Error(), map[string]interface{}{"schema": string(s.JSON())})
			continue
		}
		e, err := txn.New(m)
		if err != nil {
			r.Inconclusive("engine: " + err.Error())
			continue
		}
		g := gen.New(p, s)
		g.NoWait = si%3 != 2 // every third schema: zero-timeout wait operations too
		pre := ref.NewDB(s)
		judge := c03Judge(m)
		var hist [][]ref.Op
		for ti := 0; ti < txns; ti++ {
			ops := g.Txn(pre)
			r.LogCase(fmt.Sprintf("C03 batch=%d schema=%d txn=%d schema=%s ops=%v", batch, si, ti, s.JSON(), opsJSON(ops)))
			r.Eval(1)
			fs := txnStep("C03", m, e, pre, ops, r)
			if len(fs) > 0 {
				if strings.Contains(fs[0].Sig, "does-not-terminate") {
					report(r, m, pre, ops, fs, nil, hist)
					return // a goroutine is left spinning: end this child
				}
				report(r, m, pre, ops, fs, judge, hist)
			}
			hist = append(hist, cloneOps(ops))
			if r.NeedSample() && len(ops) > 1 {
				r.Sample(map[string]interface{}{"schema": string(s.JSON()), "transaction": opsJSON(ops)})
			}
			// continue from the database's real state
			post, err := m.Snapshot(e.DB)
			if err != nil {
				// unreadable state: restart from an empty database
				if e, err = txn.New(m); err != nil {
					break
				}
				pre = ref.NewDB(s)
				hist = nil
				continue
			}
			pre = post
			r.SetAdd("row_counts_seen", fmt.Sprint(pre.Rows()))
			if bad := pre.CheckIntegrity(); len(bad) > 0 {
				// the stored state itself violates C04/C06 (judged there): do not
				// let one defect cascade into every later comparison
				r.Count("restarts_because_state_violates_integrity", 1)
				if e, err = txn.New(m); err != nil {
					break
				}
				pre = ref.NewDB(s)
				hist = nil
				continue
			}
			if pre.Rows() > 14 {
				// keep databases small: few keys, many touches
				if e, err = txn.New(m); err != nil {
					break
				}
				pre = ref.NewDB(s)
				hist = nil
			}
		}
	}
}
