package checks

// C15 — named UUIDs resolve consistently within a transaction.
// Generated transactions with 1-4 named inserts whose names are used in every
// kind of uuid-typed position, before and after the defining insert, with and
// without explicit uuids; string columns receive text equal to a name. Oracles:
// (R) ovsdb.ExpandNamedUUIDs against the reference substitution, position by
// position; (R+I) the rows stored after Transact: every position that held a
// name holds the uuid reported for that insert, string data untouched, no
// named uuid survives; conflicting claims of one name are rejected.

import (
	"encoding/json"
	"fmt"
	"github.com/ovn-org/libovsdb/cache"
	"github.com/ovn-org/libovsdb/client"
	"github.com/ovn-org/libovsdb/model"
	"sort"
	"strings"

	"github.com/ovn-org/libovsdb/ovsdb"
	"verifharness/internal/dyn"
	"verifharness/internal/ev"
	"verifharness/internal/prng"
	"verifharness/internal/ref"
	"verifharness/internal/tspace"
	"verifharness/internal/txn"
)

func init() { Register("C15", c15Parent, c15Child) }

func c15Parent(r *ev.Run) {
	r.Rule = "transactions with 1-4 named inserts; names placed in scalar / optional / set / map-key / map-value / map-key-and-value uuid positions of row values, in conditions (incl. _uuid), in mutation arguments, in the rows of zero-timeout wait operations, before and after the defining insert, with and without explicit uuid; strings equal to names in string columns; distinct = (positions in which names were used, forward/backward, explicit/assigned uuid, operation kinds)"
	r.Assume("reference columns used here are plain uuid or weak references so that referential integrity does not reject the transactions of interest")
	r.RunBatches(ev.BatchOpts{N: r.N(16, 64)})
}

func c15Schema(p *prng.R) *tspace.Schema {
	u := func() tspace.Base { return tspace.Base{Type: "uuid"} }
	wref := func(t string) tspace.Base { return tspace.Base{Type: "uuid", RefTable: t, RefType: "weak"} }
	str := tspace.Base{Type: "string"}
	in := tspace.Base{Type: "integer"}
	mk := func(name string) *tspace.Table {
		other := "T2"
		if name == "T2" {
			other = "T1"
		}
		pick := func(plain bool, t string) tspace.Base {
			if plain {
				return u()
			}
			return wref(t)
		}
		t := &tspace.Table{Name: name, IsRoot: true}
		sv, iv := str, in
		kv := pick(p.Bool(), other)
		t.Cols = []*tspace.Col{
			{Name: "name", Key: str, Min: 1, Max: 1},
			{Name: "s_uuid", Key: u(), Min: 1, Max: 1},
			{Name: "o_uuid", Key: pick(p.Bool(), other), Min: 0, Max: 1},
			{Name: "set_uuid", Key: pick(p.Bool(), name), Min: 0, Max: -1},
			{Name: "map_ku", Key: pick(p.Bool(), other), Val: &sv, Min: 0, Max: -1},
			{Name: "map_ki", Key: u(), Val: &iv, Min: 0, Max: -1},
			{Name: "map_vu", Key: str, Val: &kv, Min: 0, Max: -1},
			{Name: "map_kvu", Key: u(), Val: func() *tspace.Base { b := u(); return &b }(), Min: 0, Max: -1},
			{Name: "str", Key: str, Min: 1, Max: 1},
			{Name: "sset", Key: str, Min: 0, Max: -1},
			{Name: "smap", Key: str, Val: &sv, Min: 0, Max: -1},
		}
		return t
	}
	return &tspace.Schema{Name: "VDB", Tables: []*tspace.Table{mk("T1"), mk("T2")}}
}

type c15gen struct {
	p     *prng.R
	s     *tspace.Schema
	names []string
	used  map[string]bool // position kinds used
}

func (g *c15gen) uu(db *ref.DB, refTable ...string) ref.Atom {
	// a name (most of the time), an existing row of the referenced table or a random uuid
	switch g.p.Intn(6) {
	case 0:
		if len(refTable) > 0 && refTable[0] != "" {
			us := dyn.SortedUUIDs(db.T[refTable[0]])
			if len(us) > 0 {
				return ref.UUID(us[g.p.Intn(len(us))])
			}
		}
		return ref.UUID(g.p.UUID())
	case 1:
		return ref.UUID(g.p.UUID())
	}
	return ref.UUID(g.names[g.p.Intn(len(g.names))])
}

func (g *c15gen) strv() ref.Atom {
	if g.p.Chance(2, 3) {
		return ref.Str(g.names[g.p.Intn(len(g.names))]) // text equal to a name
	}
	return ref.Str([]string{"", "a", "named-uuid", "uuid"}[g.p.Intn(4)])
}

func (g *c15gen) value(c *tspace.Col, db *ref.DB, where string) ref.Datum {
	atom := func(b tspace.Base) ref.Atom {
		switch b.Type {
		case "uuid":
			return g.uu(db, b.RefTable)
		case "string":
			return g.strv()
		}
		return ref.Int(int64(g.p.Intn(4)))
	}
	mark := func() {
		pos := c.Kind()
		if c.IsMap() {
			pos = "map-" + map[bool]string{true: "k", false: ""}[c.Key.Type == "uuid"] + map[bool]string{true: "v", false: ""}[c.Val.Type == "uuid"]
		}
		if c.Key.Type == "uuid" || (c.Val != nil && c.Val.Type == "uuid") {
			g.used[where+":"+pos] = true
		}
	}
	mark()
	if c.IsMap() {
		d := ref.Datum{Map: true}
		for i := g.p.Intn(3); i >= 0; i-- {
			d = d.WithPair(atom(c.Key), atom(*c.Val))
		}
		return d
	}
	if c.IsScalar() {
		return ref.Set(atom(c.Key))
	}
	n := 1 + g.p.Intn(3)
	if c.IsOptional() {
		n = g.p.Intn(2)
	}
	d := ref.Datum{}
	for i := 0; i < n; i++ {
		d = d.With(atom(c.Key))
	}
	return d
}

func (g *c15gen) txn(db *ref.DB) []ref.Op {
	g.used = map[string]bool{}
	n := 1 + g.p.Intn(4)
	g.names = nil
	uuidShaped := g.p.Chance(1, 4) // a uuid-name may be any string, also one that looks like a uuid
	for i := 0; i < n; i++ {
		if uuidShaped {
			g.names = append(g.names, g.p.UUID())
			continue
		}
		g.names = append(g.names, fmt.Sprintf("row%c", 'A'+i))
	}
	if uuidShaped {
		g.used["uuid-shaped-names"] = true
	}
	var ops []ref.Op
	for i := 0; i < n; i++ {
		t := g.s.Tables[g.p.Intn(2)]
		op := ref.Op{Kind: "insert", Table: t.Name, UUIDName: g.names[i], Row: ref.Row{}}
		if g.p.Chance(1, 3) {
			op.UUID = g.p.UUID()
			g.used["explicit-uuid"] = true
		} else {
			g.used["assigned-uuid"] = true
		}
		op.Row["name"] = ref.Set(ref.Str(fmt.Sprintf("n%d", g.p.Intn(50))))
		for _, c := range t.Cols[1:] {
			if g.p.Chance(1, 2) {
				op.Row[c.Name] = g.value(c, db, "row")
			}
		}
		ops = append(ops, op)
	}
	// other operations using the names, placed before and after the inserts
	extra := g.p.Intn(4)
	for i := 0; i < extra; i++ {
		t := g.s.Tables[g.p.Intn(2)]
		var op ref.Op
		cols := t.Cols[1:]
		c := cols[g.p.Intn(len(cols))]
		where := func() []ref.Cond {
			switch g.p.Intn(3) {
			case 0:
				g.used["cond:_uuid"] = true
				return []ref.Cond{{Col: "_uuid", Fn: []string{"==", "!=", "includes"}[g.p.Intn(3)], Val: ref.Set(g.uu(db, t.Name))}}
			case 1:
				wc := cols[g.p.Intn(len(cols))]
				v := g.value(wc, db, "cond")
				return []ref.Cond{{Col: wc.Name, Fn: []string{"==", "!=", "includes", "excludes"}[g.p.Intn(4)], Val: v}}
			}
			return nil
		}
		switch g.p.Intn(4) {
		case 0:
			op = ref.Op{Kind: "update", Table: t.Name, Where: where(), Row: ref.Row{c.Name: g.value(c, db, "row")}}
		case 1:
			if c.IsScalar() {
				c = t.Col("set_uuid")
			}
			if c.IsOptional() {
				c = t.Col("map_ku")
			}
			v := g.value(c, db, "mutation")
			mut := []string{"insert", "delete"}[g.p.Intn(2)]
			if c.IsMap() && mut == "delete" && g.p.Bool() {
				keys := ref.Datum{}
				for _, k := range v.K {
					keys = keys.With(k)
				}
				v = keys
			}
			op = ref.Op{Kind: "mutate", Table: t.Name, Where: where(), Muts: []ref.Mut{{Col: c.Name, Mutator: mut, Val: v}}}
		case 2:
			op = ref.Op{Kind: "select", Table: t.Name, Where: where()}
		default:
			op = ref.Op{Kind: "delete", Table: t.Name, Where: where()}
			if len(op.Where) == 0 {
				op.Kind = "select"
			}
		}
		pos := g.p.Intn(len(ops) + 1)
		if pos < len(ops) {
			g.used["before-definition"] = true
		} else {
			g.used["after-definition"] = true
		}
		ops = append(ops[:pos], append([]ref.Op{op}, ops[pos:]...)...)
	}
	// sometimes: a zero-timeout wait on a row inserted under a name, whose expected
	// rows repeat the (named) values given to the insert: it must succeed
	if g.p.Chance(1, 3) {
		var idxs []int
		for i, o := range ops {
			if o.Kind == "insert" {
				idxs = append(idxs, i)
			}
		}
		at := idxs[g.p.Intn(len(idxs))]
		ins := ops[at]
		t := g.s.Table(ins.Table)
		var cols []string
		row := ref.Row{}
		for _, c := range t.Cols[1:] {
			if d, ok := ins.Row[c.Name]; ok && g.p.Chance(2, 3) {
				cols = append(cols, c.Name)
				row[c.Name] = d.Clone()
			}
		}
		if len(cols) > 0 {
			zero := 0
			w := ref.Op{Kind: "wait", Table: ins.Table, Timeout: &zero, Until: "==", Columns: cols, Rows: []ref.Row{row},
				Where: []ref.Cond{{Col: "_uuid", Fn: "==", Val: ref.Set(ref.UUID(ins.UUIDName))}}}
			// directly after the insert: nothing has touched the row yet
			ops = append(ops[:at+1], append([]ref.Op{w}, ops[at+1:]...)...)
			g.used["wait-rows"] = true
		}
	}
	// sometimes: a second insert claiming an existing name
	if g.p.Chance(1, 8) {
		t := g.s.Tables[g.p.Intn(2)]
		op := ref.Op{Kind: "insert", Table: t.Name, UUIDName: g.names[0], Row: ref.Row{"name": ref.Set(ref.Str("dup"))}}
		switch g.p.Intn(3) {
		case 0:
			op.UUID = g.p.UUID()
			g.used["duplicate-name-other-uuid"] = true
		case 1:
			g.used["duplicate-name-no-uuid"] = true
		default:
			for _, o := range ops {
				if o.Kind == "insert" && o.UUIDName == g.names[0] && o.UUID != "" {
					op.UUID = o.UUID
					op.Table = o.Table // a uuid names one row of one table
				}
			}
			g.used["duplicate-name-same-uuid"] = true
		}
		ops = append(ops, op)
	}
	return ops
}

func usedKey(m map[string]bool) string {
	var l []string
	for k := range m {
		l = append(l, k)
	}
	sort.Strings(l)
	return strings.Join(l, ",")
}

// namedLeft lists named uuids surviving in a state.
func namedLeft(db *ref.DB) []string {
	var out []string
	for _, t := range db.S.Tables {
		for u, r := range db.T[t.Name] {
			for _, c := range t.Cols {
				d := r[c.Name]
				chk := func(a ref.Atom) {
					if a.T == 'u' && !ref.IsUUID(a.S) {
						out = append(out, fmt.Sprintf("%s/%s.%s holds %s", t.Name, u, c.Name, a))
					}
				}
				for _, k := range d.K {
					chk(k)
				}
				for _, v := range d.V {
					chk(v)
				}
			}
		}
	}
	return out
}

// c15Expand compares ovsdb.ExpandNamedUUIDs with the reference substitution.
func c15Expand(m *dyn.Model, ops []ref.Op) []finding {
	// every insert needs a uuid for the library function
	full := cloneOps(ops)
	p := prng.New(uint64(len(ops)) + 77)
	names := map[string]string{}
	for i := range full {
		if full[i].Kind != "insert" {
			continue
		}
		if full[i].UUID == "" {
			full[i].UUID = p.UUID()
		}
		if _, ok := names[full[i].UUIDName]; !ok {
			names[full[i].UUIDName] = full[i].UUID
		} else if names[full[i].UUIDName] != full[i].UUID {
			return nil // conflicting claim: rejected, judged on the transaction path
		}
	}
	wire, err := m.WireOps(full)
	if err != nil {
		return nil
	}
	exp, err := ovsdb.ExpandNamedUUIDs(wire, &m.Ovs)
	if err != nil {
		return []finding{{"C15/expand/error/" + errClassOf(err.Error()), "ExpandNamedUUIDs failed on a valid transaction: " + err.Error()}}
	}
	var fs []finding
	sub := func(c *tspace.Col, d ref.Datum) ref.Datum {
		out := ref.Datum{Map: d.Map}
		s := func(a ref.Atom, isU bool) ref.Atom {
			if isU && a.T == 'u' {
				if u, ok := names[a.S]; ok {
					return ref.UUID(u)
				}
			}
			return a
		}
		for i, k := range d.K {
			if d.Map {
				out = out.WithPair(s(k, c.Key.Type == "uuid"), s(d.V[i], c.Val != nil && c.Val.Type == "uuid"))
			} else {
				out = out.With(s(k, c.Key.Type == "uuid"))
			}
		}
		return out
	}
	check := func(i int, where string, t *tspace.Table, cn string, want ref.Datum, got interface{}) {
		c := t.Col(cn)
		if cn == "_uuid" {
			c = &tspace.Col{Name: "_uuid", Key: tspace.Base{Type: "uuid"}, Min: 1, Max: 1}
		}
		if c == nil {
			return
		}
		wc := c
		if !want.Map && c.IsMap() {
			wc = &tspace.Col{Name: c.Name, Key: c.Key, Min: 0, Max: -1} // key set argument of a map delete
		}
		g, err := dyn.FromOvs(wc, got)
		if err != nil {
			fs = append(fs, finding{fmt.Sprintf("C15/expand/undecodable/%s/%s", where, c.Desc()), fmt.Sprintf("op %d %s column %s: %v", i, where, cn, err)})
			return
		}
		w := sub(wc, want)
		if !g.Equal(w) {
			fs = append(fs, finding{fmt.Sprintf("C15/expand/%s/%s", where, posKind(c)), fmt.Sprintf("op %d %s column %s (%s): expanded to %s, expected %s", i, where, cn, c.Desc(), g, w)})
		}
	}
	for i, op := range full {
		t := m.S.Table(op.Table)
		if i >= len(exp) || t == nil {
			continue
		}
		for cn, d := range op.Row {
			check(i, "row", t, cn, d, exp[i].Row[cn])
		}
		for j, c := range op.Where {
			if j < len(exp[i].Where) {
				check(i, "condition", t, c.Col, c.Val, exp[i].Where[j].Value)
			}
		}
		for j, mu := range op.Muts {
			if j < len(exp[i].Mutations) {
				check(i, "mutation", t, mu.Col, mu.Val, exp[i].Mutations[j].Value)
			}
		}
		for j, row := range op.Rows {
			if j < len(exp[i].Rows) {
				for cn, d := range row {
					check(i, "wait-rows", t, cn, d, exp[i].Rows[j][cn])
				}
			}
		}
		if op.Kind == "insert" && exp[i].UUID != names[op.UUIDName] {
			fs = append(fs, finding{"C15/expand/insert-uuid", fmt.Sprintf("op %d insert named %s carries uuid %s after expansion, expected %s", i, op.UUIDName, exp[i].UUID, names[op.UUIDName])})
		}
	}
	return fs
}

func posKind(c *tspace.Col) string {
	if c.IsMap() {
		return "map:" + c.Key.Type + ">" + c.Val.Type
	}
	return c.Kind() + ":" + c.Key.Type
}

func c15Step(m *dyn.Model, e *txn.Engine, pre *ref.DB, ops []ref.Op, r *ev.Run, used map[string]bool) []finding {
	fs := c15Expand(m, ops)
	rep, err := e.Transact(ops, true)
	if err != nil {
		return append(fs, finding{"C15/harness/encode", err.Error()})
	}
	if rep.Hung {
		return append(fs, finding{"C15/transaction-does-not-terminate", "Transact did not return"})
	}
	filled := cloneOps(ops)
	p := prng.New(4242)
	for i := range filled {
		if filled[i].Kind != "insert" || filled[i].UUID != "" {
			continue
		}
		if !rep.Failed && i < len(rep.Results) {
			filled[i].UUID = rep.Results[i].UUID.GoUUID
		} else {
			filled[i].UUID = p.UUID()
		}
	}
	out := pre.Transact(filled)
	if out.OutOfDom != "" {
		return fs
	}
	if rep.Failed {
		if i := rep.FailIndex; i >= 0 && i < len(ops) && ops[i].Kind == "wait" && rep.FailErr == "timed out" && !out.Failed() {
			return append(fs, finding{"C15/wait/times-out-although-the-named-row-matches", fmt.Sprintf("operation %d: wait on a row inserted under a name, with the values given to that insert, times out: a name in its condition or rows was not resolved", i)})
		}
		if r != nil {
			if out.Failed() {
				r.Count("rejected_by_both", 1)
			} else {
				r.Count("spurious_rejections", 1)
				r.SetAdd("spurious_rejection_classes", errClassOf(rep.FailErr+" "+rep.FailWhy))
			}
		}
		return fs
	}
	if rep.CommitErr != nil {
		return append(fs, finding{"C15/commit-failed-after-success-reply/" + errClassOf(rep.CommitErr.Error()), rep.CommitErr.Error()})
	}
	post, err := m.Snapshot(e.DB)
	if err != nil {
		return append(fs, finding{"C15/stored-state-unreadable/" + errClassOf(err.Error()), err.Error()})
	}
	if out.Failed() {
		why := out.CommitWhy
		cls := out.CommitErr
		if cls == "" {
			last := out.Results[len(out.Results)-1]
			cls, why = last.Err, last.Why
		}
		return append(fs, finding{"C15/accepted-but-rejected-by-reference/" + cls, fmt.Sprintf("accepted a transaction the reference rejects (%s: %s)", cls, why)})
	}
	// the uuid reported for an insert is the uuid the row is stored under
	for i, op := range filled {
		if op.Kind != "insert" || i >= len(rep.Results) {
			continue
		}
		u := rep.Results[i].UUID.GoUUID
		if _, ok := post.T[op.Table][u]; !ok {
			if _, survives := out.Post.T[op.Table][u]; survives {
				fs = append(fs, finding{"C15/insert-result-uuid-not-stored", fmt.Sprintf("insert %d reported uuid %s but no such row is stored in %s", i, u, op.Table)})
			}
		}
	}
	if left := namedLeft(post); len(left) > 0 {
		fs = append(fs, finding{"C15/named-uuid-survives/" + c15Col(m.S, left[0]), "a named uuid is stored: " + left[0]})
	} else if d := post.Diff(out.Post); d != "" {
		fs = append(fs, finding{"C15/post-state/" + c15Col(m.S, d), "stored rows differ from the reference resolution of the names: " + d + " (first=database, second=reference)"})
	}
	if r != nil {
		r.Count("accepted", 1)
		r.Distinct(usedKey(used))
		for k := range used {
			r.SetAdd("name_positions_used", k)
		}
	}
	return fs
}

// c15Col extracts a column-kind class from a diff / description.
func c15Col(s *tspace.Schema, d string) string {
	for _, t := range s.Tables {
		for _, c := range t.Cols {
			if strings.Contains(d, "column "+c.Name+" ") || strings.Contains(d, "."+c.Name+" ") {
				return posKind(c)
			}
		}
	}
	if strings.Contains(d, "only in") {
		return "row-set"
	}
	return "other"
}

// c15ClientCreate: the client API builds the insert operations of one transaction from
// several models; a model's _uuid is a name, a real uuid or empty, and each operation
// must carry exactly what its own model says (uuid-name, uuid, or neither).
func c15ClientCreate(r *ev.Run, m *dyn.Model, p *prng.R) {
	tc, err := cache.NewTableCache(m.DB, nil, nil)
	if err != nil {
		return
	}
	api := client.VerifNewAPI(tc)
	for i := 0; i < 40; i++ {
		n := 2 + p.Intn(4)
		var mdls []model.Model
		var ids, kinds []string
		for k := 0; k < n; k++ {
			t := m.S.Tables[p.Intn(len(m.S.Tables))]
			id, kind := "", "none"
			switch p.Intn(3) {
			case 0:
				id, kind = fmt.Sprintf("row%c", 'A'+k), "name"
			case 1:
				id, kind = p.UUID(), "uuid"
			}
			mdls = append(mdls, m.NewModel(t.Name, id, ref.Row{}))
			ids = append(ids, id)
			kinds = append(kinds, kind)
		}
		r.Eval(1)
		r.Count("client_create_calls", 1)
		r.Distinct("create|" + strings.Join(kinds, ","))
		ops, err := api.Create(mdls...)
		if err != nil || len(ops) != n {
			r.Violation("C15/client-create/error", fmt.Sprintf("Create of %d models (%v) gives %d operations, error %v", n, kinds, len(ops), err), nil)
			continue
		}
		for k, op := range ops {
			wantName, wantUUID := "", ""
			switch kinds[k] {
			case "name":
				wantName = ids[k]
			case "uuid":
				wantUUID = ids[k]
			}
			if op.UUIDName != wantName || op.UUID != wantUUID {
				r.Violation("C15/client-create/operation-"+kinds[k]+"-after-"+strings.Join(kinds[:k], "+"), fmt.Sprintf("Create(%v): operation %d carries uuid-name %q and uuid %q, its model says %s %q", kinds, k, op.UUIDName, op.UUID, kinds[k], ids[k]), map[string]interface{}{"kinds": kinds, "ids": ids})
				break
			}
		}
	}
}

func c15Child(r *ev.Run, batch int) {
	rounds := r.N(5, 40)
	txns := r.N(130, 400)
	for si := 0; si < rounds; si++ {
		p := prng.Derive(r.Seed, "C15", batch, si)
		s := c15Schema(p)
		m, err := dyn.Build(s, nil)
		if err != nil {
			r.Violation("C15/harness/model-build", err.Error(), nil)
			return
		}
		c15ClientCreate(r, m, prng.Derive(r.Seed, "C15create", batch, si))
		e, err := txn.New(m)
		if err != nil {
			return
		}
		g := &c15gen{p: p, s: s}
		pre := ref.NewDB(s)
		judge := func(pre *ref.DB, ops []ref.Op) []finding {
			e2, err := loadState(m, pre)
			if err != nil {
				return nil
			}
			return c15Step(m, e2, pre, ops, nil, nil)
		}
		for ti := 0; ti < txns; ti++ {
			ops := g.txn(pre)
			b, _ := json.Marshal(opsJSON(ops))
			r.LogCase(fmt.Sprintf("C15 batch=%d round=%d txn=%d ops=%s", batch, si, ti, b))
			r.Eval(1)
			fs := c15Step(m, e, pre, ops, r, g.used)
			if len(fs) > 0 {
				report(r, m, pre, ops, fs, judge)
			}
			if r.NeedSample() && len(ops) > 2 {
				r.Sample(map[string]interface{}{"transaction": opsJSON(ops)})
			}
			post, err := m.Snapshot(e.DB)
			if err != nil || len(namedLeft(post)) > 0 || len(post.CheckIntegrity()) > 0 || post.Rows() > 14 {
				if e, err = txn.New(m); err != nil {
					return
				}
				pre = ref.NewDB(s)
				continue
			}
			pre = post
		}
	}
}
