package checks

// C07 — notifications are the exact difference made by the transaction.
// Raw JSON-RPC peers register random monitor requests with a real server
// (race-instrumented child); a writer peer commits generated transactions.
// Because the server delivers notifications with a synchronous call before it
// replies to transact, every message received while a Transact call was in
// flight belongs to that transaction. Oracle R per (transaction, monitor):
// count and method, completeness, soundness, the equation apply(pre, entry) =
// post on the monitored projection, order; no message for failed transactions.

import (
	"encoding/json"
	"fmt"
	"sort"
	"strings"
	"time"

	"github.com/ovn-org/libovsdb/ovsdb"
	"verifharness/internal/dyn"
	"verifharness/internal/ev"
	"verifharness/internal/gen"
	"verifharness/internal/peer"
	"verifharness/internal/prng"
	"verifharness/internal/ref"
	"verifharness/internal/tspace"
)

func init() { Register("C07", c07Parent, c07Child) }

func c07Parent(r *ev.Run) {
	r.Rule = "generated schema x 3-6 monitors on 2-3 raw connections (any subset of tables, any subset of columns or columns omitted, every combination of the select flags incl. omitted select, methods monitor / monitor_cond / monitor_cond_since) x history of generated transactions (incl. garbage collection, weak-reference pruning, several rows per transaction, failing transactions); a case is one (transaction, monitor) pair; distinct = (monitor request shape, kinds of change in the transaction, method)"
	r.Assume("monitor conditions ('where') are not used: the built-in server ignores them")
	r.Assume("a v1 entry may carry more than the changed columns; '_uuid' inside rows is tolerated")
	r.RunBatches(ev.BatchOpts{N: r.N(8, 32), Race: true})
}

type c07mon struct {
	req  *monReq
	peer *peer.Peer
}

// judgeNotif applies the oracle for one monitor and one committed transaction.
func judgeNotif(m *dyn.Model, mon *monReq, msgs []*notif, delta []rowChangeW, pre, post *ref.DB) []finding {
	var fs []finding
	s := m.S
	v1 := mon.Method == "monitor"
	mdesc := "v2"
	if v1 {
		mdesc = "v1"
	}
	// expected entries
	type key struct{ table, uuid string }
	expected := map[key]string{} // kind
	inDelta := map[key]rowChangeW{}
	for _, ch := range delta {
		mt, ok := mon.Tables[ch.table]
		if !ok {
			continue
		}
		t := s.Table(ch.table)
		cols := mt.cols(t)
		kind := ""
		switch {
		case ch.old == nil:
			kind = "insert"
		case ch.new == nil:
			kind = "delete"
		default:
			if eq, _ := projEqual(t, ch.old, ch.new, cols); !eq {
				kind = "modify"
			}
		}
		if kind == "" {
			continue
		}
		inDelta[key{ch.table, ch.uuid}] = ch
		sel := map[string]bool{"insert": flag(mt.Insert), "delete": flag(mt.Delete), "modify": flag(mt.Modify)}
		if sel[kind] {
			expected[key{ch.table, ch.uuid}] = kind
		}
	}
	if len(msgs) > 1 {
		fs = append(fs, finding{"C07/count/more-than-one-message/" + mdesc, fmt.Sprintf("%d messages for one transaction and one monitor", len(msgs))})
	}
	if len(msgs) == 0 {
		if len(expected) > 0 {
			var l []string
			for k, kind := range expected {
				l = append(l, kind+" "+k.table+"/"+k.uuid)
			}
			sort.Strings(l)
			fs = append(fs, finding{"C07/completeness/no-message/" + mdesc + "/" + kindsOfMap(func() []string {
				var l []string
				for _, k := range expected {
					l = append(l, k)
				}
				return l
			}()), "no notification although the transaction changed monitored rows: " + strings.Join(l, ", ")})
		}
		return fs
	}
	n := msgs[0]
	if n.ID != mon.ID {
		fs = append(fs, finding{"C07/wrong-monitor-id", fmt.Sprintf("notification carries id %s, the monitor is %s", n.ID, mon.ID)})
	}
	if v1 && n.Method != "update" {
		fs = append(fs, finding{"C07/method/v1-monitor-notified-with-" + n.Method, "a monitor created with 'monitor' is notified with method " + n.Method})
	}
	if !v1 && n.Method == "update" {
		fs = append(fs, finding{"C07/method/v2-monitor-notified-with-update", "a monitor created with " + mon.Method + " is notified with method update"})
	}
	if pre.Equal(post) {
		fs = append(fs, finding{"C07/message-for-no-net-effect/" + mdesc, "a notification was sent for a transaction with no net effect: " + trunc(n.Raw, 300)})
	}
	seen := map[key]bool{}
	check := func(table, uuid string, v1u *ovsdb.RowUpdate, v2u *ovsdb.RowUpdate2) {
		t := s.Table(table)
		mt, ok := mon.Tables[table]
		if t == nil || !ok {
			fs = append(fs, finding{"C07/soundness/table-not-monitored/" + mdesc, fmt.Sprintf("entry for table %s which the monitor did not request", table)})
			return
		}
		cols := mt.cols(t)
		k := key{table, uuid}
		seen[k] = true
		var newR, oldR, modR ref.Row
		var err error
		kind := ""
		if v1u != nil {
			if newR, err = rowFromWire(m, table, v1u.New); err == nil {
				oldR, err = rowFromWire(m, table, v1u.Old)
			}
			switch {
			case v1u.New != nil && v1u.Old == nil:
				kind = "insert"
			case v1u.New != nil && v1u.Old != nil:
				kind = "modify"
			case v1u.Old != nil:
				kind = "delete"
			}
		} else {
			switch {
			case v2u.Insert != nil || v2u.Initial != nil:
				kind = "insert"
				src := v2u.Insert
				if src == nil {
					src = v2u.Initial
				}
				newR, err = rowFromWire(m, table, src)
			case v2u.Modify != nil:
				kind = "modify"
				modR, err = rowFromWire(m, table, v2u.Modify)
			case v2u.Delete != nil:
				kind = "delete"
			}
		}
		if err != nil {
			fs = append(fs, finding{"C07/entry-undecodable/" + mdesc, fmt.Sprintf("%s/%s: %v", table, uuid, err)})
			return
		}
		if kind == "" {
			fs = append(fs, finding{"C07/soundness/empty-entry/" + mdesc, fmt.Sprintf("entry for %s/%s carries nothing", table, uuid)})
			return
		}
		for _, rr := range []ref.Row{newR, oldR, modR} {
			for cn := range rr {
				if !cols[cn] {
					fs = append(fs, finding{"C07/soundness/column-not-monitored/" + mdesc + "/" + kind, fmt.Sprintf("entry for %s/%s carries column %s which the monitor did not request", table, uuid, cn)})
				}
			}
		}
		ch, inD := inDelta[k]
		preRow, postRow := pre.T[table][uuid], post.T[table][uuid]
		sel := map[string]bool{"insert": flag(mt.Insert), "delete": flag(mt.Delete), "modify": flag(mt.Modify)}
		vacuous := false
		if kind == "modify" && !inD {
			// vacuous if applying changes nothing
			if v1u != nil {
				eq := true
				for cn, d := range newR {
					if preRow != nil && !preRow[cn].Equal(d) {
						eq = false
					}
				}
				vacuous = eq && preRow != nil
			} else {
				vacuous = preRow != nil && ref.ApplyModify2(t, preRow, modR).Equal(preRow)
			}
		}
		if !inD {
			if !vacuous {
				fs = append(fs, finding{"C07/soundness/entry-for-unchanged-row/" + mdesc + "/" + kind, fmt.Sprintf("%s entry for %s/%s whose monitored columns did not change", kind, table, uuid)})
			}
			return
		}
		trueKind := "modify"
		if ch.old == nil {
			trueKind = "insert"
		} else if ch.new == nil {
			trueKind = "delete"
		}
		if kind != trueKind {
			fs = append(fs, finding{"C07/equation/wrong-kind/" + mdesc + "/" + trueKind + "-reported-as-" + kind, fmt.Sprintf("%s/%s was %s-ed but is reported as %s", table, uuid, trueKind, kind)})
			return
		}
		if !sel[kind] {
			fs = append(fs, finding{"C07/soundness/deselected-kind/" + mdesc + "/" + kind, fmt.Sprintf("%s entry for %s/%s although the monitor deselected %s", kind, table, uuid, kind)})
		}
		switch kind {
		case "insert":
			got := ref.FullRow(t, newR)
			if eq, why := projEqual(t, got, postRow, cols); !eq {
				fs = append(fs, finding{"C07/equation/insert/" + mdesc + "/" + colClassOf(why), fmt.Sprintf("insert entry for %s/%s does not give the stored row: %s (entry vs database)", table, uuid, why)})
			}
		case "delete":
			if v1u != nil {
				for cn, d := range oldR {
					if !preRow[cn].Equal(d) {
						fs = append(fs, finding{"C07/equation/delete-old-wrong/" + mdesc, fmt.Sprintf("delete entry for %s/%s carries old %s=%s, the row held %s", table, uuid, cn, d, preRow[cn])})
					}
				}
			}
		case "modify":
			var got ref.Row
			if v1u != nil {
				got = preRow.Clone()
				for cn, d := range newR {
					got[cn] = d
				}
				for cn, d := range oldR {
					if !preRow[cn].Equal(d) {
						fs = append(fs, finding{"C07/equation/modify-old-wrong/" + mdesc, fmt.Sprintf("modify entry for %s/%s carries old %s=%s, the row held %s", table, uuid, cn, d, preRow[cn])})
					}
				}
				for _, c := range t.Cols {
					if cols[c.Name] && !preRow[c.Name].Equal(postRow[c.Name]) {
						if _, ok := oldR[c.Name]; !ok && !preRow[c.Name].Equal(ref.Default(c)) {
							fs = append(fs, finding{"C07/equation/modify-old-misses-changed-column/" + mdesc + "/" + kindOfDatum(preRow[c.Name], c), fmt.Sprintf("modify entry for %s/%s: 'old' does not carry changed column %s (was %s)", table, uuid, c.Name, preRow[c.Name])})
						}
					}
				}
			} else {
				got = ref.ApplyModify2(t, preRow, modR)
			}
			if eq, why := projEqual(t, got, postRow, cols); !eq {
				fs = append(fs, finding{"C07/equation/modify/" + mdesc + modClass(t, postRow, why), fmt.Sprintf("modify entry for %s/%s applied to the old row does not give the new row: %s (applied vs database)", table, uuid, why)})
			}
		}
	}
	for table, tu := range n.V1 {
		for uuid, ru := range tu {
			check(table, uuid, ru, nil)
		}
	}
	for table, tu := range n.V2 {
		for uuid, ru := range tu {
			check(table, uuid, nil, ru)
		}
	}
	for k, kind := range expected {
		if !seen[k] {
			fs = append(fs, finding{"C07/completeness/missing-entry/" + mdesc + "/" + kind, fmt.Sprintf("the notification has no entry for the %s of %s/%s", kind, k.table, k.uuid)})
		}
	}
	return fs
}

func kindsOfMap(m []string) string {
	s := map[string]bool{}
	for _, k := range m {
		s[k] = true
	}
	var l []string
	for k := range s {
		l = append(l, k)
	}
	sort.Strings(l)
	return strings.Join(l, "+")
}

func colClassOf(why string) string {
	if i := strings.Index(why, "("); i >= 0 {
		if j := strings.Index(why[i:], ")"); j > 0 {
			return strings.SplitN(why[i+1:i+j], "[", 2)[0]
		}
	}
	return "?"
}

func kindOfDatum(d ref.Datum, c *tspace.Col) string {
	if d.Equal(ref.Default(c)) {
		return "was-default"
	}
	return "was-set"
}

func modClass(t *tspace.Table, post ref.Row, why string) string {
	if rd := returnsToDefault(t, post, why); rd != "" {
		return rd
	}
	return "/" + colClassOf(why)
}

func returnsToDefault(t *tspace.Table, post ref.Row, why string) string {
	for _, c := range t.Cols {
		if strings.Contains(why, "column "+c.Name+" ") && post[c.Name].Equal(ref.Default(c)) {
			return "/returns-to-default"
		}
	}
	return ""
}

func c07Child(r *ev.Run, batch int) {
	cases := r.N(20, 480)
	txns := r.N(24, 40)
	dir := wireScratch()
	for ci := 0; ci < cases; ci++ {
		p := prng.Derive(r.Seed, "C07", batch, ci)
		o := tspace.Full(2 + p.Intn(2))
		o.MaxCols = 4
		o.RefBias = 35
		s := tspace.Gen(p, o)
		m, err := dyn.Build(s, nil)
		if err != nil {
			continue
		}
		srv, err := peer.StartServer(m, dir, fmt.Sprintf("c07-%d-%d", batch, ci))
		if err != nil {
			r.Inconclusive("server: " + err.Error())
			return
		}
		writer, err := peer.Dial(srv.Path)
		if err != nil {
			srv.Close()
			r.Inconclusive("dial: " + err.Error())
			return
		}
		var conns []*peer.Peer
		for i := 0; i < 2+p.Intn(2); i++ {
			pc, err := peer.Dial(srv.Path)
			if err != nil {
				break
			}
			conns = append(conns, pc)
		}
		g := gen.New(p, s)
		g.NoWait = true
		g.DanglingPct = 6
		pre, _ := m.Snapshot(srv.DB)
		var mons []*c07mon
		nextMon := 0
		addMonitor := func() bool {
			pi := p.Intn(len(conns))
			mr := genMonReq(p, s, nextMon, true, true)
			nextMon++
			mr.PeerIdx = pi
			r.LogCase(fmt.Sprintf("C07 batch=%d case=%d register %s schema=%s", batch, ci, mr.desc(), s.JSON()))
			if _, err := mr.register(conns[pi], s.Name); err != nil {
				r.Violation("C07/monitor-request-rejected/"+errClassOf(err.Error()), "a legal monitor request is rejected: "+err.Error(), map[string]interface{}{"request": mr.desc()})
				return true
			}
			if conns[pi].Closed() {
				return false
			}
			mons = append(mons, &c07mon{req: mr, peer: conns[pi]})
			return true
		}
		// Peers that register monitors and go away in the middle of the history: the
		// remaining monitors must go on receiving exactly their notifications.
		var leavers []*peer.Peer
		leaveAt := -1
		if ci%2 == 1 {
			for i := 0; i < 1+p.Intn(3); i++ {
				pc, err := peer.Dial(srv.Path)
				if err != nil {
					break
				}
				mr := genMonReq(p, s, 100+i, true, true)
				_, _ = mr.register(pc, s.Name)
				leavers = append(leavers, pc)
			}
			leaveAt = 2 + p.Intn(10)
			r.Count("cases_with_departing_monitoring_peers", 1)
		}
		dead := false
		for ti := 0; ti < txns && !dead; ti++ {
			if ti == leaveAt {
				for _, pc := range leavers {
					pc.Close()
				}
				leavers = nil
				time.Sleep(20 * time.Millisecond) // let the server see the connections go
			}
			if ti%8 == 0 && len(mons) < 6 {
				if !addMonitor() {
					dead = true
					break
				}
			}
			ops := g.Txn(pre)
			wire, err := m.WireOps(ops)
			if err != nil {
				continue
			}
			wb, _ := json.Marshal(wire)
			r.LogCase(fmt.Sprintf("C07 batch=%d case=%d txn=%d schema=%s ops=%s", batch, ci, ti, s.JSON(), wb))
			for _, c := range conns {
				c.Take()
			}
			res, terr := writer.Transact(s.Name, wire)
			if terr != nil {
				// the server died or dropped us
				if writer.Closed() {
					r.Violation("C07/server-dropped-writer/"+errClassOf(terr.Error()), "the server dropped the writer connection during a transaction: "+terr.Error(), map[string]interface{}{"schema": json.RawMessage(s.JSON()), "ops": json.RawMessage(wb)})
					dead = true
				}
				continue
			}
			failed := false
			for _, x := range res {
				if x.Error != "" {
					failed = true
				}
			}
			post, err := m.Snapshot(srv.DB)
			if err != nil {
				break
			}
			delta := dbDelta(pre, post)
			kinds := map[string]bool{}
			for _, ch := range delta {
				switch {
				case ch.old == nil:
					kinds["insert"] = true
				case ch.new == nil:
					kinds["delete"] = true
				default:
					kinds["modify"] = true
				}
			}
			var kl []string
			for k := range kinds {
				kl = append(kl, k)
			}
			sort.Strings(kl)
			// collect per connection
			per := make([][]peer.Msg, len(conns))
			for i, c := range conns {
				per[i] = c.Take()
			}
			for _, mon := range mons {
				r.Eval(1)
				var mine []*notif
				for _, msg := range per[mon.req.PeerIdx] {
					n, err := decodeNotif(msg)
					if err != nil {
						r.Violation("C07/notification-undecodable/"+errClassOf(err.Error()), err.Error(), map[string]interface{}{"raw": trunc(n.Raw, 500)})
						continue
					}
					if n.ID == mon.req.ID {
						mine = append(mine, n)
					}
				}
				if len(delta) > 0 {
					r.Distinct(mon.req.desc() + "|" + strings.Join(kl, "+"))
				}
				wit := func() map[string]interface{} {
					var raws []string
					for _, n := range mine {
						raws = append(raws, trunc(n.Method+" "+n.Raw, 1500))
					}
					return map[string]interface{}{"schema": json.RawMessage(s.JSON()), "monitor": mon.req.desc(), "ops": json.RawMessage(wb), "pre_state": stateJSON(pre), "messages": raws, "transaction_failed": failed}
				}
				if failed {
					if len(mine) > 0 {
						r.Violation("C07/message-for-failed-transaction", "a monitor was notified of a transaction whose reply carries an error", wit())
					}
					continue
				}
				for _, f := range judgeNotif(m, mon.req, mine, delta, pre, post) {
					r.Violation(f.Sig, f.What, wit())
				}
				if r.NeedSample() && len(mine) > 0 {
					r.Sample(wit())
				}
			}
			if failed {
				r.Count("failed_transactions_observed", 1)
			} else {
				r.Count("committed_transactions_observed", 1)
			}
			for i, c := range conns {
				if c.Closed() {
					r.Violation("C07/monitor-connection-lost", fmt.Sprintf("monitoring connection %d was closed by the server", i), map[string]interface{}{"ops": json.RawMessage(wb)})
					dead = true
				}
			}
			pre = post
			if len(pre.CheckIntegrity()) > 0 || pre.Rows() > 16 {
				break
			}
		}
		for _, c := range conns {
			c.Close()
		}
		for _, c := range leavers {
			c.Close()
		}
		writer.Close()
		srv.Close()
	}
}
