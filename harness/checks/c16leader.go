package checks

// C16, leader-only part: "a leader-only client does not remain attached to an
// endpoint that reports it is not the leader". Two library servers with a
// _Server database each and DIFFERENT contents stand for two cluster members;
// the leader flag is moved between them by direct writers (with cuts, with a
// period without any leader, back and forth). After the scenario the client
// must be attached to the member that reports leader=true and its cache must
// mirror that member's database on every monitored table.

import (
	"context"
	"fmt"
	"sync"
	"sync/atomic"
	"time"

	"github.com/cenkalti/backoff/v4"
	"github.com/go-logr/logr"
	"github.com/ovn-org/libovsdb/client"
	"github.com/ovn-org/libovsdb/ovsdb"
	"verifharness/internal/dyn"
	"verifharness/internal/ev"
	"verifharness/internal/peer"
	"verifharness/internal/prng"
	"verifharness/internal/proxy"
	"verifharness/internal/ref"
)

type c16member struct {
	name   string
	srv    *peer.Server
	px     *proxy.Proxy
	w      *peer.Peer
	sid    string
	dbRow  string // uuid of the _Server.Database row
	leader bool
}

func (mb *c16member) endpoint() string { return "unix:" + mb.px.Listen }

func (mb *c16member) setLeader(leader bool) error {
	var ops []ovsdb.Operation
	if mb.dbRow == "" {
		// like a real ovsdb-server, the member also lists its _Server database itself (a
		// standalone database, "leader" by definition): that row says nothing about VDB
		ops = []ovsdb.Operation{{Op: "insert", Table: "Database", Row: ovsdb.Row{
			"name": "VDB", "model": "clustered", "connected": true, "leader": leader, "sid": ovsdb.UUID{GoUUID: mb.sid}}},
			{Op: "insert", Table: "Database", Row: ovsdb.Row{"name": "_Server", "model": "standalone", "connected": true, "leader": true}}}
	} else {
		ops = []ovsdb.Operation{{Op: "update", Table: "Database", Where: []ovsdb.Condition{{Column: "_uuid", Function: "==", Value: ovsdb.UUID{GoUUID: mb.dbRow}}},
			Row: ovsdb.Row{"leader": leader}}}
	}
	rs, err := mb.w.Transact("_Server", ops)
	if err != nil {
		return err
	}
	if e := firstErr(rs); e != "" {
		return fmt.Errorf("result: %s", e)
	}
	if mb.dbRow == "" {
		mb.dbRow = rs[0].UUID.GoUUID
	}
	mb.leader = leader
	return nil
}

func c16LeaderSession(r *ev.Run, m *dyn.Model, scenario string, bFirst bool, nMon int, batch, idx int) []finding {
	s := m.S
	dir := wireScratch()
	p := prng.Derive(ev.Seed(), "C16leader", scenario, bFirst, nMon)
	var members []*c16member
	defer func() {
		for _, mb := range members {
			if mb.w != nil {
				mb.w.Close()
			}
			if mb.px != nil {
				mb.px.Close()
			}
			if mb.srv != nil {
				mb.srv.Close()
			}
		}
	}()
	for _, name := range []string{"A", "B"} {
		mb := &c16member{name: name, sid: p.UUID()}
		var err error
		if mb.srv, err = peer.StartClusterMember(m, dir, fmt.Sprintf("c16l%s-%d-%d", name, batch, idx)); err != nil {
			r.Inconclusive("cluster member: " + err.Error())
			return nil
		}
		if mb.px, err = proxy.New(fmt.Sprintf("%s/c16lp%s-%d-%d.sock", dir, name, batch, idx), mb.srv.Path); err != nil {
			r.Inconclusive("proxy: " + err.Error())
			return nil
		}
		if mb.w, err = peer.Dial(mb.srv.Path); err != nil {
			r.Inconclusive("writer: " + err.Error())
			return nil
		}
		members = append(members, mb)
	}
	A, B := members[0], members[1]
	seq := 0
	write := func(mb *c16member, table string, n int) {
		var ops []ref.Op
		for i := 0; i < n; i++ {
			seq++
			ops = append(ops, ref.Op{Kind: "insert", Table: table, UUID: p.UUID(), Row: ref.Row{"name": ref.Set(ref.Str(fmt.Sprintf("%s-%s-%d", mb.name, table, seq))), "n": ref.Set(ref.Int(int64(seq)))}})
		}
		if wire, err := m.WireOps(ops); err == nil {
			_, _ = mb.w.Transact(s.Name, wire)
		}
	}
	for _, mb := range members {
		write(mb, "T0", 3)
		write(mb, "T1", 2)
	}
	if err := A.setLeader(true); err != nil {
		r.Inconclusive("set leader: " + err.Error())
		return nil
	}
	if err := B.setLeader(false); err != nil {
		r.Inconclusive("set leader: " + err.Error())
		return nil
	}
	l := logr.Discard()
	eps := []string{A.endpoint(), B.endpoint()}
	if bFirst {
		eps = []string{B.endpoint(), A.endpoint()}
	}
	opts := []client.Option{client.WithLogger(&l), client.WithLeaderOnly(true), client.WithReconnect(2*time.Second, backoff.NewConstantBackOff(10*time.Millisecond))}
	for _, e := range eps {
		opts = append(opts, client.WithEndpoint(e))
	}
	cl, err := client.NewOVSDBClient(m.Client, opts...)
	if err != nil {
		r.Inconclusive("client: " + err.Error())
		return nil
	}
	defer cl.Close()
	var fs []finding
	ctx, cancel := context.WithTimeout(context.Background(), 120*time.Second)
	defer cancel()
	connected := false
	for i := 0; i < 100 && !connected; i++ {
		cctx, ccancel := context.WithTimeout(ctx, 3*time.Second)
		err = cl.Connect(cctx)
		ccancel()
		connected = err == nil
		if !connected {
			time.Sleep(10 * time.Millisecond)
		}
	}
	if !connected {
		return []finding{{"C16/leader/cannot-connect-to-the-leader", fmt.Sprintf("Connect keeps failing although member A reports leader=true: %v", err)}}
	}
	if ce := cl.CurrentEndpoint(); ce != A.endpoint() {
		fs = append(fs, finding{"C16/leader/first-connection-to-non-leader", fmt.Sprintf("after Connect the client is attached to %s, the leader is %s", ce, A.endpoint())})
	}
	monitored := map[string]map[string]bool{}
	allCols := map[string]bool{"name": true, "n": true, "tags": true, "ports": true}
	for i := 0; i < nMon; i++ {
		tn := fmt.Sprintf("T%d", i)
		mctx, mcancel := context.WithTimeout(ctx, 5*time.Second)
		_, err := cl.Monitor(mctx, cl.NewMonitor(client.WithTable(m.NewModel(tn, "", nil))))
		mcancel()
		if err != nil {
			return append(fs, finding{"C16/leader/monitor-failed", "Monitor on the leader fails: " + err.Error()})
		}
		monitored[tn] = allCols
	}
	flip := func(to, from *c16member) {
		_ = to.setLeader(true)
		write(to, "T0", 1)
		_ = from.setLeader(false)
	}
	leader := A
	switch scenario {
	case "flip":
		flip(B, A)
		leader = B
	case "flip-lose-first":
		_ = A.setLeader(false)
		write(B, "T0", 1)
		_ = B.setLeader(true)
		leader = B
	case "no-leader-for-a-while":
		_ = A.setLeader(false)
		// nobody is leader: the client must not settle on either member
		time.Sleep(400 * time.Millisecond)
		write(A, "T0", 1)
		write(B, "T1", 1)
		_ = B.setLeader(true)
		leader = B
	case "cut-then-flip":
		A.px.CutAll()
		flip(B, A)
		leader = B
	case "flip-then-cut-new-leader":
		flip(B, A)
		time.Sleep(50 * time.Millisecond)
		B.px.CutAll()
		write(B, "T0", 2)
		leader = B
	case "there-and-back":
		flip(B, A)
		write(B, "T0", 1)
		time.Sleep(150 * time.Millisecond)
		flip(A, B)
		write(A, "T1", 1)
		leader = A
	case "lose-leadership-inside-reconnect":
		// The connection to A is cut; while the client is restarting its monitors on A
		// (first monitor reply received: the leader check is already behind it) A loses
		// the leadership to B. Which monitor is restarted first is up to the client; when
		// it is not the _Server one, the loss reaches the client as initial contents.
		var once sync.Once
		var flipped int32
		installClientHook()
		c16WinMu.Lock()
		c16Window = func() {
			once.Do(func() {
				_ = A.setLeader(false)
				_ = B.setLeader(true)
				atomic.StoreInt32(&flipped, 1)
			})
		}
		c16WinMu.Unlock()
		A.px.CutAll()
		// wait (bounded) until the flip has happened
		for i := 0; i < 500 && atomic.LoadInt32(&flipped) == 0; i++ {
			time.Sleep(10 * time.Millisecond)
		}
		c16WinMu.Lock()
		c16Window = nil
		c16WinMu.Unlock()
		once.Do(func() { // the pause point was never reached
			_ = A.setLeader(false)
			_ = B.setLeader(true)
		})
		r.Count("leader.flips-inside-a-reconnect", int(atomic.LoadInt32(&flipped)))
		write(B, "T0", 1)
		leader = B
	case "refused-by-new-leader":
		B.px.Refuse(3)
		flip(B, A)
		leader = B
	}
	// bounded progress: attached to the leader, or no new connection attempt for a long quiet period
	last, quiet := A.px.Accepted()+B.px.Accepted(), 0
	for {
		if cl.Connected() && cl.CurrentEndpoint() == leader.endpoint() {
			break
		}
		time.Sleep(10 * time.Millisecond)
		if a := A.px.Accepted() + B.px.Accepted(); a != last {
			last, quiet = a, 0
		} else {
			quiet++
		}
		if quiet > 2000 {
			where := "nowhere"
			if cl.Connected() {
				where = cl.CurrentEndpoint()
			}
			other := A
			if leader == A {
				other = B
			}
			sig := "C16/leader/not-attached-to-the-leader/" + scenario
			if where == other.endpoint() {
				sig = "C16/leader/remains-attached-to-non-leader/" + scenario
			}
			return append(fs, finding{sig, fmt.Sprintf("20 s after the last connection attempt the client is attached to %s; %s (%s) reports leader=true, %s reports leader=false", where, leader.name, leader.endpoint(), other.name)})
		}
	}
	// barrier on the leader, then the cache must mirror the leader's database
	var barrier []ref.Op
	for tn := range monitored {
		seq++
		barrier = append(barrier, ref.Op{Kind: "insert", Table: tn, UUID: p.UUID(), Row: ref.Row{"name": ref.Set(ref.Str(fmt.Sprintf("barrier-%d", seq)))}})
	}
	if wire, err := m.WireOps(barrier); err == nil {
		_, _ = leader.w.Transact(s.Name, wire)
	}
	post, _ := m.Snapshot(leader.srv.DB)
	d := ""
	for i := 0; i < 1500; i++ {
		if d = cacheDiff(m, cl, post, monitored); d == "" {
			break
		}
		time.Sleep(10 * time.Millisecond)
		if i%100 == 99 {
			seq++
			if wire, err := m.WireOps([]ref.Op{{Kind: "insert", Table: "T0", UUID: p.UUID(), Row: ref.Row{"name": ref.Set(ref.Str(fmt.Sprintf("barrier-%d", seq)))}}}); err == nil {
				_, _ = leader.w.Transact(s.Name, wire)
			}
			post, _ = m.Snapshot(leader.srv.DB)
		}
	}
	if d != "" {
		fs = append(fs, finding{fmt.Sprintf("C16/leader/cache-does-not-mirror-the-leader/%s/monitors=%d/%s", scenario, nMon, cacheDiffClass(d)), "attached to the new leader, but the cache does not converge to its database: " + d})
	}
	if !cl.Connected() || cl.CurrentEndpoint() != leader.endpoint() {
		fs = append(fs, finding{"C16/leader/left-the-leader/" + scenario, "the client left the leader again although leadership did not change"})
	}
	return fs
}

var c16LeaderScenarios = []string{"lose-leadership-inside-reconnect", "flip", "flip-lose-first", "no-leader-for-a-while", "cut-then-flip", "flip-then-cut-new-leader", "there-and-back", "refused-by-new-leader"}

// c16LeaderPart runs the leader scenarios assigned to this batch.
func c16LeaderPart(r *ev.Run, m *dyn.Model, batch, nb int) {
	idx := 0
	for _, sc := range c16LeaderScenarios {
		for _, bFirst := range []bool{false, true} {
			for nMon := 1; nMon <= 2; nMon++ {
				idx++
				if idx%nb != batch {
					continue
				}
				r.LogCase(fmt.Sprintf("C16 leader scenario=%s non-leader-first=%v monitors=%d", sc, bFirst, nMon))
				fs := c16LeaderSession(r, m, sc, bFirst, nMon, batch, 500000+idx)
				r.Eval(1)
				r.Distinct(fmt.Sprintf("leader|%s|%v|%d", sc, bFirst, nMon))
				r.Count("sessions.leader", 1)
				for _, f := range fs {
					r.Violation(f.Sig, f.What, map[string]interface{}{"scenario": sc, "non_leader_listed_first": bFirst, "monitors": nMon})
				}
			}
		}
	}
}
