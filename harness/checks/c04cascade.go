package checks

// Directed workload for C04: garbage collection and weak-reference pruning
// that need several iterations of the commit-time fixpoint (chains of
// non-root rows), on rows the transaction itself inserts or updates. The
// oracles are the generic C04 ones; only the transactions are directed.

import (
	"fmt"

	"verifharness/internal/prng"
	"verifharness/internal/ref"
	"verifharness/internal/tspace"
)

// cascadeSchema builds the chain family: Root (root) -kids-> Node (non-root)
// -next-> Node ..., Holder (root) with weak references into Node in several
// column shapes. variant selects cardinalities.
func cascadeSchema(p *prng.R) *tspace.Schema {
	str, in := tspace.Base{Type: "string"}, tspace.Base{Type: "integer"}
	strong := tspace.Base{Type: "uuid", RefTable: "Node", RefType: "strong"}
	weak := tspace.Base{Type: "uuid", RefTable: "Node", RefType: "weak"}
	weakH := tspace.Base{Type: "uuid", RefTable: "Holder", RefType: "weak"}
	nextMax := -1
	if p.Chance(1, 3) {
		nextMax = 1
	}
	wv := weak
	holder := &tspace.Table{Name: "Holder", IsRoot: true, Cols: []*tspace.Col{
		{Name: "tag", Key: str, Min: 1, Max: 1},
		{Name: "ws", Key: weak, Min: 0, Max: -1},
		{Name: "wopt", Key: weak, Min: 0, Max: 1},
	}}
	if p.Chance(2, 3) {
		holder.Cols = append(holder.Cols, &tspace.Col{Name: "wmin", Key: weak, Min: 1, Max: -1})
	}
	if p.Chance(1, 2) {
		holder.Cols = append(holder.Cols, &tspace.Col{Name: "wmap", Key: str, Val: &wv, Min: 0, Max: -1})
	}
	if p.Chance(1, 3) {
		holder.Cols = append(holder.Cols, &tspace.Col{Name: "wkey", Key: weak, Val: &in, Min: 0, Max: -1})
	}
	node := &tspace.Table{Name: "Node", IsRoot: false, Cols: []*tspace.Col{
		{Name: "v", Key: in, Min: 1, Max: 1},
		{Name: "next", Key: strong, Min: 0, Max: nextMax},
		{Name: "peers", Key: weak, Min: 0, Max: -1},
	}}
	if p.Chance(1, 2) {
		node.Cols = append(node.Cols, &tspace.Col{Name: "owner", Key: weakH, Min: 0, Max: 1})
	}
	root := &tspace.Table{Name: "Root", IsRoot: true, Cols: []*tspace.Col{
		{Name: "name", Key: str, Min: 1, Max: 1},
		{Name: "kids", Key: strong, Min: 0, Max: -1},
	}}
	return &tspace.Schema{Name: "VDB", Tables: []*tspace.Table{root, node, holder}}
}

// cascadeTxn builds one directed transaction on the chain family.
func cascadeTxn(p *prng.R, s *tspace.Schema, db *ref.DB) []ref.Op {
	holderT, nodeT := s.Table("Holder"), s.Table("Node")
	hasCol := func(t *tspace.Table, n string) bool { return t.Col(n) != nil }
	nodes := sortedRowKeys(db.T["Node"])
	roots := sortedRowKeys(db.T["Root"])
	holders := sortedRowKeys(db.T["Holder"])
	pick := func(xs []string) string { return xs[p.Intn(len(xs))] }
	subset := func(xs []string, min int) []ref.Atom {
		var out []ref.Atom
		for _, x := range xs {
			if p.Bool() {
				out = append(out, ref.UUID(x))
			}
		}
		for len(out) < min && len(xs) > 0 {
			out = append(out, ref.UUID(pick(xs)))
		}
		return out
	}
	holderRow := func(targets []string) ref.Row {
		row := ref.Row{"tag": ref.Set(ref.Str(fmt.Sprintf("t%d", p.Intn(4)))), "ws": ref.Set(subset(targets, 0)...)}
		if p.Bool() && len(targets) > 0 {
			row["wopt"] = ref.Set(ref.UUID(pick(targets)))
		}
		if hasCol(holderT, "wmin") {
			row["wmin"] = ref.Set(subset(targets, 1)...)
		}
		if hasCol(holderT, "wmap") {
			d := ref.Datum{Map: true}
			for i, a := range subset(targets, 0) {
				d = d.WithPair(ref.Str(fmt.Sprintf("k%d", i)), a)
			}
			row["wmap"] = d
		}
		if hasCol(holderT, "wkey") {
			d := ref.Datum{Map: true}
			for i, a := range subset(targets, 0) {
				d = d.WithPair(a, ref.Int(int64(i)))
			}
			row["wkey"] = d
		}
		return row
	}
	// touch: an operation on a holder that keeps (or re-states) its weak references
	touch := func(h string, live []string) ref.Op {
		switch p.Intn(4) {
		case 0:
			return ref.Op{Kind: "update", Table: "Holder", Where: byUUID(h), Row: ref.Row{"tag": ref.Set(ref.Str(fmt.Sprintf("t%d", p.Intn(4))))}}
		case 1:
			row := db.T["Holder"][h]
			return ref.Op{Kind: "update", Table: "Holder", Where: byUUID(h), Row: ref.Row{"ws": row["ws"].Clone()}}
		case 2:
			if len(live) > 0 {
				return ref.Op{Kind: "mutate", Table: "Holder", Where: byUUID(h), Muts: []ref.Mut{{Col: "ws", Mutator: "insert", Val: ref.Set(ref.UUID(pick(live)))}}}
			}
			fallthrough
		default:
			r := holderRow(live)
			delete(r, "tag")
			return ref.Op{Kind: "update", Table: "Holder", Where: byUUID(h), Row: r}
		}
	}
	var ops []ref.Op
	build := len(roots) == 0 || len(nodes) < 3 || p.Chance(1, 3)
	if build {
		// a chain n0 -> n1 -> ... anchored by a (new or existing) root, and holders pointing into it
		k := 1 + p.Intn(4)
		names := make([]string, k)
		uuids := make([]string, k)
		for i := range names {
			names[i] = fmt.Sprintf("n%d", i)
			uuids[i] = p.UUID()
		}
		for i := k - 1; i >= 0; i-- {
			row := ref.Row{"v": ref.Set(ref.Int(int64(p.Intn(5))))}
			if i+1 < k {
				row["next"] = ref.Set(ref.UUID(names[i+1]))
			}
			if p.Chance(1, 3) {
				row["peers"] = ref.Set(ref.UUID(names[p.Intn(k)]))
			}
			ops = append(ops, ref.Op{Kind: "insert", Table: "Node", UUID: uuids[i], UUIDName: names[i], Row: row})
		}
		if len(roots) > 0 && p.Bool() {
			ops = append(ops, ref.Op{Kind: "mutate", Table: "Root", Where: byUUID(pick(roots)), Muts: []ref.Mut{{Col: "kids", Mutator: "insert", Val: ref.Set(ref.UUID(names[0]))}}})
		} else {
			ops = append(ops, ref.Op{Kind: "insert", Table: "Root", UUID: p.UUID(), Row: ref.Row{"name": ref.Set(ref.Str(fmt.Sprintf("r%d", p.Intn(6)))), "kids": ref.Set(ref.UUID(names[0]))}})
		}
		for h := 0; h < 1+p.Intn(2); h++ {
			ops = append(ops, ref.Op{Kind: "insert", Table: "Holder", UUID: p.UUID(), Row: holderRow(names)})
		}
		return ops
	}
	// collapse: remove an anchor (or cut a chain) while touching holders in the same transaction
	nTouch := p.Intn(3)
	var pre, post []ref.Op
	for i := 0; i < nTouch && len(holders) > 0; i++ {
		op := touch(pick(holders), nodes)
		if p.Bool() {
			pre = append(pre, op)
		} else {
			post = append(post, op)
		}
	}
	if p.Chance(1, 3) {
		// a holder born in the collapsing transaction
		pre = append(pre, ref.Op{Kind: "insert", Table: "Holder", UUID: p.UUID(), Row: holderRow(nodes)})
	}
	var cut ref.Op
	rt := pick(roots)
	kids := db.T["Root"][rt]["kids"]
	switch x := p.Intn(10); {
	case x < 4 && kids.Len() > 0:
		cut = ref.Op{Kind: "mutate", Table: "Root", Where: byUUID(rt), Muts: []ref.Mut{{Col: "kids", Mutator: "delete", Val: ref.Set(kids.K[p.Intn(kids.Len())])}}}
	case x < 6:
		cut = ref.Op{Kind: "delete", Table: "Root", Where: byUUID(rt)}
	case x < 8:
		cut = ref.Op{Kind: "update", Table: "Root", Where: byUUID(rt), Row: ref.Row{"kids": ref.Set()}}
	default:
		n := pick(nodes)
		if nodeT.Col("next").Max == 1 || p.Bool() {
			cut = ref.Op{Kind: "update", Table: "Node", Where: byUUID(n), Row: ref.Row{"next": ref.Set()}}
		} else {
			cut = ref.Op{Kind: "mutate", Table: "Node", Where: byUUID(n), Muts: []ref.Mut{{Col: "next", Mutator: "delete", Val: db.T["Node"][n]["next"].Clone()}}}
		}
	}
	ops = append(ops, pre...)
	ops = append(ops, cut)
	ops = append(ops, post...)
	return ops
}

func sortedRowKeys(m map[string]ref.Row) []string {
	out := make([]string, 0, len(m))
	for k := range m {
		out = append(out, k)
	}
	sortStrings(out)
	return out
}
