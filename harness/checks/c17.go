package checks

// C17 — concurrent transactions are serialisable and observed in one order.
//
// One library server, N concurrent clients (raw JSON-RPC peers and library
// clients), M monitoring peers registered before the load and further monitors
// registered while it runs (some of them pinned into the window between a
// transaction's notification and its commit). Every client call is recorded at
// the client boundary (call time, return time, reply). Every transaction that
// writes also inserts a row with a unique id into table Log, so each
// notification names the transaction that caused it: the sequence of Log ids a
// monitor receives IS the order the server claims to have executed them in.
//
// Offline checkers over the recorded history:
//  (1) all monitors registered before the load hold the same order;
//  (2) every acknowledged writing transaction occurs exactly once in it, a
//      transaction answered with an error never;
//  (3) replaying the transactions in that order through the reference model
//      reproduces every reply (counts, selected rows) and the final database;
//  (4) the order respects real time (A returned before B was called => A first);
//  (5) porcupine: the per-key sub-histories (counters, slots, reference groups),
//      including read-only and failed transactions that no monitor sees, are
//      linearizable against small sequential models;
//  (6) every monitor's initial reply + notifications, replayed, give the final
//      database (a monitor registered during the load must not miss or double
//      a transaction), and the library clients' caches equal it too;
//  (7) integrity of the final state; conservation of counters;
//  (8) race detector reports with a libovsdb frame.

import (
	"context"
	"encoding/json"
	"fmt"
	"reflect"
	"sort"
	"strings"
	"sync"
	"sync/atomic"
	"time"

	"github.com/anishathalye/porcupine"
	"github.com/cenkalti/backoff/v4"
	"github.com/go-logr/logr"
	"github.com/ovn-org/libovsdb/client"
	"github.com/ovn-org/libovsdb/ovsdb"
	"github.com/ovn-org/libovsdb/server"
	"verifharness/internal/dyn"
	"verifharness/internal/ev"
	"verifharness/internal/peer"
	"verifharness/internal/prng"
	"verifharness/internal/ref"
	"verifharness/internal/tspace"
	"verifharness/internal/txn"
)

func init() { Register("C17", c17Parent, c17Child) }

func c17Parent(r *ev.Run) {
	r.Rule = "history = N concurrent clients (raw peers and library clients) x L transactions each on few keys (increment+read, compare-and-set, claim/release of a unique slot, adopt/move/drop of strongly referenced children with garbage collection, consistent multi-row reads) against one server with 2-4 monitors registered before and 2-3 during the load; random delays and a pinned 25 ms hold at the server's notified-but-not-committed point; distinct = interleaving (sequence of client ids in the order the monitors observed)"
	r.Assume("a transaction is identified in notifications by the unique Log row it inserts; read-only transactions without Log row and failed transactions are placed by the linearizability checker only")
	r.Assume("porcupine time-out (60 s per history) => inconclusive, never a violation")
	r.RunBatches(ev.BatchOpts{N: r.N(16, 128), Race: true, Timeout: 60 * time.Minute})
}

func c17Schema() *tspace.Schema {
	str, in := tspace.Base{Type: "string"}, tspace.Base{Type: "integer"}
	kid := tspace.Base{Type: "uuid", RefTable: "Child", RefType: "strong"}
	return &tspace.Schema{Name: "VDB", Tables: []*tspace.Table{
		{Name: "Ctr", IsRoot: true, Indexes: [][]string{{"name"}}, Cols: []*tspace.Col{
			{Name: "name", Key: str, Min: 1, Max: 1},
			{Name: "n", Key: in, Min: 1, Max: 1},
			{Name: "by", Key: str, Min: 1, Max: 1},
		}},
		{Name: "Slot", IsRoot: true, Indexes: [][]string{{"slot"}}, Cols: []*tspace.Col{
			{Name: "slot", Key: str, Min: 1, Max: 1},
			{Name: "owner", Key: str, Min: 1, Max: 1},
		}},
		{Name: "Parent", IsRoot: true, Indexes: [][]string{{"name"}}, Cols: []*tspace.Col{
			{Name: "name", Key: str, Min: 1, Max: 1},
			{Name: "kids", Key: kid, Min: 0, Max: -1},
		}},
		{Name: "Child", IsRoot: false, Indexes: [][]string{{"name"}}, Cols: []*tspace.Col{
			{Name: "name", Key: str, Min: 1, Max: 1},
			{Name: "v", Key: in, Min: 1, Max: 1},
		}},
		{Name: "Log", IsRoot: true, Cols: []*tspace.Col{
			{Name: "id", Key: str, Min: 1, Max: 1},
		}},
	}}
}

// c17op is one client call.
type c17op struct {
	Client int    `json:"client"`
	Seq    int    `json:"seq"`
	Kind   string `json:"kind"`
	Key    string `json:"key"` // partition: ctr:k, slot:s, grp:g
	A      int64  `json:"a,omitempty"`
	B      int64  `json:"b,omitempty"`
	S      string `json:"s,omitempty"`  // owner / child name
	P      string `json:"p,omitempty"`  // parent
	P2     string `json:"p2,omitempty"` // second parent
	U      string `json:"u,omitempty"`  // child uuid
	LogID  string `json:"log_id,omitempty"`
	Call   int64  `json:"call_ns"`
	Ret    int64  `json:"ret_ns"`
	Err    string `json:"transport_error,omitempty"`
	TxnErr string `json:"txn_error,omitempty"`
	OutN   int64  `json:"out_n,omitempty"`
	OutCnt int    `json:"out_count,omitempty"`
	OutS   string `json:"out_s,omitempty"`

	ops   []ref.Op
	reply []ovsdb.OperationResult
}

func (o *c17op) id() string { return fmt.Sprintf("c%d.%d", o.Client, o.Seq) }

func (o *c17op) brief() string {
	res := o.TxnErr
	if res == "" {
		res = fmt.Sprintf("n=%d count=%d s=%q", o.OutN, o.OutCnt, o.OutS)
	}
	return fmt.Sprintf("%s %s %s a=%d b=%d s=%s p=%s p2=%s u=%.8s log=%s [%d..%d] => %s", o.id(), o.Kind, o.Key, o.A, o.B, o.S, o.P, o.P2, o.U, o.LogID, o.Call/1000, o.Ret/1000, res)
}

// ---- server hook --------------------------------------------------------

var (
	c17HookOnce sync.Once
	c17HookMu   sync.Mutex
	c17HookRng  *prng.R
	c17Armed    bool
	c17Reached  chan struct{}
	c17Delayed  int64
	c17Pinned   int64
)

func c17InstallHook() {
	c17HookOnce.Do(func() {
		server.VerifHook = func(point string) {
			if point != "server.transact.notified" {
				return
			}
			c17HookMu.Lock()
			var d time.Duration
			if c17Armed {
				c17Armed = false
				close(c17Reached)
				d = 25 * time.Millisecond
				atomic.AddInt64(&c17Pinned, 1)
			} else if c17HookRng != nil && c17HookRng.Chance(1, 5) {
				d = time.Duration(50+c17HookRng.Intn(950)) * time.Microsecond
				atomic.AddInt64(&c17Delayed, 1)
			}
			c17HookMu.Unlock()
			if d > 0 {
				time.Sleep(d)
			}
		}
	})
}

// ---- monitor view -------------------------------------------------------

// c17mon is a monitor held by a raw peer.
type c17mon struct {
	name    string
	method  string
	tables  []string
	peer    *peer.Peer
	late    bool
	pinned  bool
	initial json.RawMessage
	regErr  error
}

func eqStr(col, v string) []ref.Cond {
	return []ref.Cond{{Col: col, Fn: "==", Val: ref.Set(ref.Str(v))}}
}

// view replays the initial reply and the notifications of a monitor.
// It returns the replayed tables, the Log ids in notification order, and problems.
func (mn *c17mon) view(m *dyn.Model, msgs []peer.Msg) (map[string]map[string]ref.Row, []string, []string) {
	view := map[string]map[string]ref.Row{}
	for _, tn := range mn.tables {
		view[tn] = map[string]ref.Row{}
	}
	var order, probs []string
	applyV1 := func(tu ovsdb.TableUpdates, initial bool) []string {
		var ids []string
		for tn, rows := range tu {
			t := m.S.Table(tn)
			if t == nil || view[tn] == nil {
				probs = append(probs, "update for table "+tn+" that is not monitored")
				continue
			}
			for u, ru := range rows {
				if ru.New == nil {
					if _, ok := view[tn][u]; !ok {
						probs = append(probs, fmt.Sprintf("delete of %s/%s which the monitor does not hold", tn, u))
					}
					delete(view[tn], u)
					continue
				}
				nr, err := m.RowFromOvs(tn, *ru.New)
				if err != nil {
					probs = append(probs, "undecodable row: "+err.Error())
					continue
				}
				old, had := view[tn][u]
				if !had {
					old = ref.FullRow(t, ref.Row{})
				} else if ru.Old == nil && !initial {
					probs = append(probs, fmt.Sprintf("insert of %s/%s which the monitor already holds", tn, u))
				}
				row := old.Clone()
				for cn, d := range nr {
					row[cn] = d
				}
				view[tn][u] = row
				if tn == "Log" && !had {
					ids = append(ids, datumStr(row["id"]))
				}
			}
		}
		return ids
	}
	applyV2 := func(tu ovsdb.TableUpdates2, initial bool) []string {
		var ids []string
		for tn, rows := range tu {
			t := m.S.Table(tn)
			if t == nil || view[tn] == nil {
				probs = append(probs, "update2 for table "+tn+" that is not monitored")
				continue
			}
			for u, ru := range rows {
				switch {
				case ru.Initial != nil || ru.Insert != nil:
					src := ru.Initial
					if src == nil {
						src = ru.Insert
					}
					nr, err := m.RowFromOvs(tn, *src)
					if err != nil {
						probs = append(probs, "undecodable row: "+err.Error())
						continue
					}
					if _, had := view[tn][u]; had {
						probs = append(probs, fmt.Sprintf("insert of %s/%s which the monitor already holds", tn, u))
					}
					view[tn][u] = ref.FullRow(t, nr)
					if tn == "Log" {
						ids = append(ids, datumStr(view[tn][u]["id"]))
					}
				case ru.Delete != nil:
					if _, ok := view[tn][u]; !ok {
						probs = append(probs, fmt.Sprintf("delete of %s/%s which the monitor does not hold", tn, u))
					}
					delete(view[tn], u)
				case ru.Modify != nil:
					old, ok := view[tn][u]
					if !ok {
						probs = append(probs, fmt.Sprintf("modify of %s/%s which the monitor does not hold", tn, u))
						continue
					}
					mod, err := m.RowFromOvs(tn, *ru.Modify)
					if err != nil {
						probs = append(probs, "undecodable row: "+err.Error())
						continue
					}
					view[tn][u] = ref.ApplyModify2(t, old, mod)
				}
			}
		}
		return ids
	}
	// initial reply
	switch mn.method {
	case "monitor":
		var tu ovsdb.TableUpdates
		if err := json.Unmarshal(mn.initial, &tu); err != nil {
			probs = append(probs, "undecodable monitor reply: "+err.Error())
		}
		applyV1(tu, true)
	case "monitor_cond":
		var tu ovsdb.TableUpdates2
		if err := json.Unmarshal(mn.initial, &tu); err != nil {
			probs = append(probs, "undecodable monitor_cond reply: "+err.Error())
		}
		applyV2(tu, true)
	default:
		var rep ovsdb.MonitorCondSinceReply
		if err := json.Unmarshal(mn.initial, &rep); err != nil {
			probs = append(probs, "undecodable monitor_cond_since reply: "+err.Error())
		}
		applyV2(rep.Updates, true)
	}
	for _, msg := range msgs {
		n, err := decodeNotif(msg)
		if err != nil {
			probs = append(probs, "undecodable notification: "+err.Error())
			continue
		}
		var ids []string
		if n.Method == "update" {
			ids = applyV1(n.V1, false)
		} else {
			ids = applyV2(n.V2, false)
		}
		// the built-in server notifies monitor_cond_since monitors with update2 (the
		// client accepts both); only the v1/v2 family is judged, like C07 does
		if (mn.method == "monitor") != (n.Method == "update") {
			probs = append(probs, fmt.Sprintf("%s monitor notified with %s", mn.method, n.Method))
		}
		if view["Log"] != nil {
			switch len(ids) {
			case 1:
				order = append(order, ids[0])
			case 0:
				probs = append(probs, "notification that carries no Log row (no transaction of the workload can have caused it): "+truncate(n.Raw, 300))
			default:
				probs = append(probs, fmt.Sprintf("one notification carries %d Log rows (two transactions merged): %s", len(ids), strings.Join(ids, ",")))
				order = append(order, ids...)
			}
		}
	}
	return view, order, probs
}

// probClass is the first words of a problem text (no uuids, no values).
func probClass(pb string) string {
	w := strings.Fields(pb)
	var out []string
	for _, x := range w {
		if strings.ContainsAny(x, "/:0123456789") || len(out) == 5 {
			break
		}
		out = append(out, x)
	}
	return strings.Join(out, "-")
}

// select results omit nothing the reference would not also treat as default
func datumInt(d ref.Datum) int64 {
	if len(d.K) == 0 {
		return 0
	}
	return d.K[0].I
}

func datumStr(d ref.Datum) string {
	if len(d.K) == 0 {
		return ""
	}
	return d.K[0].S
}

func truncate(s string, n int) string {
	if len(s) > n {
		return s[:n] + "..."
	}
	return s
}

// ---- porcupine models ---------------------------------------------------

type c17in struct {
	Kind  string
	Key   string
	A, B  int64
	S     string
	P, P2 string
	U     string
}

type c17out struct {
	Err string
	N   int64
	Cnt int
	S   string
}

// group state: canonical "uuid=name@p0,p1;uuid=name@p2"
type c17child struct {
	uuid, name string
	parents    []string
}

func grpParse(st string) []c17child {
	var out []c17child
	if st == "" {
		return out
	}
	for _, e := range strings.Split(st, ";") {
		a := strings.SplitN(e, "=", 2)
		b := strings.SplitN(a[1], "@", 2)
		out = append(out, c17child{uuid: a[0], name: b[0], parents: strings.Split(b[1], ",")})
	}
	return out
}

func grpFormat(cs []c17child) string {
	sort.Slice(cs, func(i, j int) bool { return cs[i].uuid < cs[j].uuid })
	var es []string
	for _, c := range cs {
		sort.Strings(c.parents)
		es = append(es, c.uuid+"="+c.name+"@"+strings.Join(c.parents, ","))
	}
	return strings.Join(es, ";")
}

// grpKids renders what a consistent read of the group's parents returns.
func grpKids(cs []c17child, parents []string) string {
	var out []string
	for _, p := range parents {
		var ks []string
		for _, c := range cs {
			for _, q := range c.parents {
				if q == p {
					ks = append(ks, c.uuid)
				}
			}
		}
		sort.Strings(ks)
		out = append(out, p+":"+strings.Join(ks, ","))
	}
	return strings.Join(out, " ")
}

func c17GroupParents(g string) []string { return []string{g + "p0", g + "p1", g + "p2"} }

func c17Step(state, input, output interface{}) (bool, interface{}) {
	in, out := input.(c17in), output.(c17out)
	switch in.Kind {
	case "inc":
		st := state.(int64)
		return out.Err == "" && out.N == st+1, st + 1
	case "read":
		st := state.(int64)
		return out.Err == "" && out.N == st, st
	case "cas":
		st := state.(int64)
		if st == in.A {
			return out.Err == "" && out.Cnt == 1, in.B
		}
		return out.Err == "" && out.Cnt == 0, st
	case "claim":
		st := state.(string)
		if st == "" {
			return out.Err == "", in.S
		}
		return out.Err == "constraint violation", st
	case "release":
		st := state.(string)
		if st == in.S {
			return out.Err == "" && out.Cnt == 1, ""
		}
		return out.Err == "" && out.Cnt == 0, st
	case "readslot":
		st := state.(string)
		return out.Err == "" && out.S == st, st
	case "adopt":
		cs := grpParse(state.(string))
		for _, c := range cs {
			if c.name == in.S {
				return out.Err == "constraint violation", state
			}
		}
		cs = append(cs, c17child{uuid: in.U, name: in.S, parents: []string{in.P}})
		return out.Err == "", grpFormat(cs)
	case "move":
		cs := grpParse(state.(string))
		for i, c := range cs {
			if c.uuid == in.U {
				var ps []string
				for _, q := range c.parents {
					if q != in.P && q != in.P2 {
						ps = append(ps, q)
					}
				}
				cs[i].parents = append(ps, in.P2)
				return out.Err == "", grpFormat(cs)
			}
		}
		return out.Err == "referential integrity violation", state
	case "drop":
		cs := grpParse(state.(string))
		var keep []c17child
		for _, c := range cs {
			if c.uuid == in.U {
				var ps []string
				for _, q := range c.parents {
					if q != in.P {
						ps = append(ps, q)
					}
				}
				if len(ps) == 0 {
					continue // garbage collected
				}
				c.parents = ps
			}
			keep = append(keep, c)
		}
		return out.Err == "" && out.Cnt == 1, grpFormat(keep)
	case "readgrp":
		cs := grpParse(state.(string))
		g := strings.TrimPrefix(in.Key, "grp:")
		return out.Err == "" && out.S == grpKids(cs, c17GroupParents(g)), state
	}
	return false, state
}

func c17Init(key string) interface{} {
	switch {
	case strings.HasPrefix(key, "ctr:"):
		return int64(0)
	default:
		return ""
	}
}

// ---- one history --------------------------------------------------------

type c17txClient interface {
	transact(m *dyn.Model, ops []ref.Op) ([]ovsdb.OperationResult, error)
	close()
}

type c17raw struct{ p *peer.Peer }

func (c *c17raw) transact(m *dyn.Model, ops []ref.Op) ([]ovsdb.OperationResult, error) {
	wire, err := m.WireOps(ops)
	if err != nil {
		return nil, err
	}
	return c.p.Transact(m.S.Name, wire)
}
func (c *c17raw) close() { c.p.Close() }

type c17lib struct{ c client.Client }

func (c *c17lib) transact(m *dyn.Model, ops []ref.Op) ([]ovsdb.OperationResult, error) {
	wire, err := m.WireOps(ops)
	if err != nil {
		return nil, err
	}
	ctx, cancel := context.WithTimeout(context.Background(), 60*time.Second)
	defer cancel()
	return c.c.Transact(ctx, wire...)
}
func (c *c17lib) close() { c.c.Close() }

func firstErr(rs []ovsdb.OperationResult) string {
	for _, r := range rs {
		if r.Error != "" {
			return r.Error
		}
	}
	return ""
}

func c17History(r *ev.Run, m *dyn.Model, p *prng.R, batch, hi int) {
	s := m.S
	dir := wireScratch()
	srv, err := peer.StartServer(m, dir, fmt.Sprintf("c17s-%d-%d", batch, hi))
	if err != nil {
		r.Inconclusive("server: " + err.Error())
		return
	}
	defer srv.Close()
	writer, err := peer.Dial(srv.Path)
	if err != nil {
		r.Inconclusive("writer: " + err.Error())
		return
	}
	defer writer.Close()

	nClients := 4 + p.Intn(5)
	if !r.Quick() {
		nClients = 4 + p.Intn(13)
	}
	perClient := 14 + p.Intn(12)
	nCtr, nSlot, nGrp := 2+p.Intn(2), 1+p.Intn(2), 1+p.Intn(2)
	var ctrs, slots, grps []string
	var init []ref.Op
	for i := 0; i < nCtr; i++ {
		k := fmt.Sprintf("k%d", i)
		ctrs = append(ctrs, k)
		init = append(init, ref.Op{Kind: "insert", Table: "Ctr", UUID: p.UUID(), Row: ref.Row{"name": ref.Set(ref.Str(k)), "n": ref.Set(ref.Int(0))}})
	}
	for i := 0; i < nSlot; i++ {
		slots = append(slots, fmt.Sprintf("s%d", i))
	}
	for i := 0; i < nGrp; i++ {
		g := fmt.Sprintf("g%d", i)
		grps = append(grps, g)
		for _, pn := range c17GroupParents(g) {
			init = append(init, ref.Op{Kind: "insert", Table: "Parent", UUID: p.UUID(), Row: ref.Row{"name": ref.Set(ref.Str(pn))}})
		}
	}
	wire, _ := m.WireOps(init)
	if rs, err := writer.Transact(s.Name, wire); err != nil || firstErr(rs) != "" {
		r.Inconclusive(fmt.Sprintf("initial contents rejected: %v %s", err, firstErr(rs)))
		return
	}
	start, _ := m.Snapshot(srv.DB)

	// monitors registered before the load
	methods := []string{"monitor", "monitor_cond", "monitor_cond_since"}
	allTables := []string{"Ctr", "Slot", "Parent", "Child", "Log"}
	var mons []*c17mon
	var monMu sync.Mutex
	addMon := func(name string, late, pinned bool, pr *prng.R) *c17mon {
		mn := &c17mon{name: name, method: methods[pr.Intn(3)], tables: allTables, late: late, pinned: pinned}
		if pr.Chance(1, 4) && name != "early0" {
			mn.tables = []string{"Ctr", "Log"}
		}
		pe, err := peer.Dial(srv.Path)
		if err != nil {
			mn.regErr = err
			return mn
		}
		mn.peer = pe
		req := &monReq{ID: fmt.Sprintf("%q", name), Method: mn.method, Tables: map[string]*monTable{}}
		for _, tn := range mn.tables {
			req.Tables[tn] = &monTable{}
		}
		mn.initial, mn.regErr = req.register(pe, s.Name)
		monMu.Lock()
		mons = append(mons, mn)
		monMu.Unlock()
		return mn
	}
	nEarly := 2 + p.Intn(3)
	for i := 0; i < nEarly; i++ {
		mn := addMon(fmt.Sprintf("early%d", i), false, false, p) // early0 monitors every table
		if mn.regErr != nil {
			r.Inconclusive("monitor registration failed: " + mn.regErr.Error())
			return
		}
	}
	defer func() {
		for _, mn := range mons {
			if mn.peer != nil {
				mn.peer.Close()
			}
		}
	}()
	// bystanders: connections monitoring the same tables with their own column selections and
	// select flags, never judged; what the server prepares for them must not leak into what
	// the judged monitors receive
	if hi%3 != 0 {
		for i := 0; i < 1+p.Intn(2); i++ {
			by, err := peer.Dial(srv.Path)
			if err != nil {
				break
			}
			defer by.Close()
			for k := 0; k < 1+p.Intn(2); k++ {
				_, _ = genMonReq(p, s, 700+10*i+k, true, false).register(by, s.Name)
			}
		}
		r.Count("histories_with_bystander_monitors", 1)
	}
	// monitoring peers that go away: before the load starts or in the middle of it. The
	// monitors that stay must not miss a transaction because of them.
	if hi%2 == 1 {
		nLeave := 1 + p.Intn(3)
		for i := 0; i < nLeave; i++ {
			pe, err := peer.Dial(srv.Path)
			if err != nil {
				break
			}
			req := &monReq{ID: fmt.Sprintf("%q", fmt.Sprintf("leaver%d", i)), Method: methods[p.Intn(3)], Tables: map[string]*monTable{}}
			for _, tn := range allTables {
				req.Tables[tn] = &monTable{}
			}
			_, _ = req.register(pe, s.Name)
			if p.Bool() {
				pe.Close()
			} else {
				d := time.Duration(5+p.Intn(60)) * time.Millisecond
				go func() {
					time.Sleep(d)
					pe.Close()
				}()
			}
		}
		time.Sleep(10 * time.Millisecond)
		r.Count("histories_with_departing_monitoring_peers", 1)
	}
	// clients
	clients := make([]c17txClient, nClients)
	var libs []client.Client
	for i := range clients {
		if i%4 == 3 {
			l := logr.Discard()
			cl, err := client.NewOVSDBClient(m.Client, client.WithEndpoint("unix:"+srv.Path), client.WithLogger(&l), client.WithReconnect(2*time.Second, backoff.NewConstantBackOff(10*time.Millisecond)))
			if err == nil {
				ctx, cancel := context.WithTimeout(context.Background(), 20*time.Second)
				err = cl.Connect(ctx)
				if err == nil {
					_, err = cl.MonitorAll(ctx)
				}
				cancel()
			}
			if err != nil {
				r.Inconclusive("library client: " + err.Error())
				return
			}
			clients[i] = &c17lib{cl}
			libs = append(libs, cl)
			continue
		}
		pe, err := peer.Dial(srv.Path)
		if err != nil {
			r.Inconclusive("client peer: " + err.Error())
			return
		}
		clients[i] = &c17raw{pe}
	}
	defer func() {
		for _, c := range clients {
			if c != nil {
				c.close()
			}
		}
	}()

	c17HookMu.Lock()
	c17HookRng = prng.Derive(int64(p.U64()>>1), "c17hook")
	c17HookMu.Unlock()
	defer func() {
		c17HookMu.Lock()
		c17HookRng = nil
		c17Armed = false
		c17HookMu.Unlock()
	}()

	// shared knowledge between clients (out-of-band): child uuids by group
	var poolMu sync.Mutex
	pool := map[string][]string{}
	var done int64
	t0 := time.Now()
	now := func() int64 { return time.Since(t0).Nanoseconds() }
	hist := make([][]*c17op, nClients)
	var wg sync.WaitGroup
	for ci := 0; ci < nClients; ci++ {
		wg.Add(1)
		go func(ci int, cp *prng.R) {
			defer wg.Done()
			lastSeen := map[string]int64{}
			owner := fmt.Sprintf("o%d", ci)
			for seq := 0; seq < perClient; seq++ {
				op := &c17op{Client: ci, Seq: seq}
				logged := true
				var ops []ref.Op
				switch x := cp.Intn(100); {
				case x < 30: // counter
					k := ctrs[cp.Intn(len(ctrs))]
					op.Key = "ctr:" + k
					switch y := cp.Intn(10); {
					case y < 5:
						op.Kind = "inc"
						ops = []ref.Op{
							{Kind: "mutate", Table: "Ctr", Where: eqStr("name", k), Muts: []ref.Mut{{Col: "n", Mutator: "+=", Val: ref.Set(ref.Int(1))}}},
							{Kind: "update", Table: "Ctr", Where: eqStr("name", k), Row: ref.Row{"by": ref.Set(ref.Str(op.id()))}},
							{Kind: "select", Table: "Ctr", Where: eqStr("name", k), Columns: []string{"n"}},
						}
					case y < 7 && k != ctrs[0]: // the first counter is increment-only (conservation)
						op.Kind = "cas"
						op.A, op.B = lastSeen[k], int64(1000*(ci+1)+seq)
						if cp.Chance(1, 4) {
							op.A += int64(cp.Intn(3)) - 1
						}
						ops = []ref.Op{{Kind: "update", Table: "Ctr",
							Where: append(eqStr("name", k), ref.Cond{Col: "n", Fn: "==", Val: ref.Set(ref.Int(op.A))}),
							Row:   ref.Row{"n": ref.Set(ref.Int(op.B)), "by": ref.Set(ref.Str(op.id()))}}}
					default:
						op.Kind = "read"
						logged = cp.Bool()
						ops = []ref.Op{{Kind: "select", Table: "Ctr", Where: eqStr("name", k), Columns: []string{"n"}}}
					}
				case x < 55: // slot
					sl := slots[cp.Intn(len(slots))]
					op.Key = "slot:" + sl
					switch y := cp.Intn(10); {
					case y < 5:
						op.Kind, op.S = "claim", owner
						ops = []ref.Op{{Kind: "insert", Table: "Slot", UUID: cp.UUID(), Row: ref.Row{"slot": ref.Set(ref.Str(sl)), "owner": ref.Set(ref.Str(owner))}}}
					case y < 8:
						op.Kind, op.S = "release", owner
						if cp.Chance(1, 5) {
							op.S = fmt.Sprintf("o%d", cp.Intn(nClients))
						}
						ops = []ref.Op{{Kind: "delete", Table: "Slot", Where: append(eqStr("slot", sl), ref.Cond{Col: "owner", Fn: "==", Val: ref.Set(ref.Str(op.S))})}}
					default:
						op.Kind = "readslot"
						logged = cp.Bool()
						ops = []ref.Op{{Kind: "select", Table: "Slot", Where: eqStr("slot", sl), Columns: []string{"owner"}}}
					}
				default: // reference group
					g := grps[cp.Intn(len(grps))]
					op.Key = "grp:" + g
					ps := c17GroupParents(g)
					poolMu.Lock()
					known := append([]string{}, pool[g]...)
					poolMu.Unlock()
					y := cp.Intn(10)
					if len(known) == 0 && y >= 3 && y < 8 {
						y = 0
					}
					switch {
					case y < 3:
						op.Kind, op.S, op.P, op.U = "adopt", fmt.Sprintf("%sc%d", g, cp.Intn(3)), ps[cp.Intn(3)], cp.UUID()
						ops = []ref.Op{
							{Kind: "insert", Table: "Child", UUID: op.U, UUIDName: "newkid", Row: ref.Row{"name": ref.Set(ref.Str(op.S)), "v": ref.Set(ref.Int(int64(seq)))}},
							{Kind: "mutate", Table: "Parent", Where: eqStr("name", op.P), Muts: []ref.Mut{{Col: "kids", Mutator: "insert", Val: ref.Set(ref.UUID("newkid"))}}},
						}
					case y < 6:
						op.Kind, op.U = "move", known[cp.Intn(len(known))]
						a := cp.Intn(3)
						op.P, op.P2 = ps[a], ps[(a+1+cp.Intn(2))%3]
						ops = []ref.Op{
							{Kind: "mutate", Table: "Parent", Where: eqStr("name", op.P), Muts: []ref.Mut{{Col: "kids", Mutator: "delete", Val: ref.Set(ref.UUID(op.U))}}},
							{Kind: "mutate", Table: "Parent", Where: eqStr("name", op.P2), Muts: []ref.Mut{{Col: "kids", Mutator: "insert", Val: ref.Set(ref.UUID(op.U))}}},
						}
					case y < 8:
						op.Kind, op.U, op.P = "drop", known[cp.Intn(len(known))], ps[cp.Intn(3)]
						ops = []ref.Op{{Kind: "mutate", Table: "Parent", Where: eqStr("name", op.P), Muts: []ref.Mut{{Col: "kids", Mutator: "delete", Val: ref.Set(ref.UUID(op.U))}}}}
					default:
						op.Kind = "readgrp"
						logged = cp.Bool()
						for _, pn := range ps {
							ops = append(ops, ref.Op{Kind: "select", Table: "Parent", Where: eqStr("name", pn), Columns: []string{"name", "kids"}})
						}
					}
				}
				if logged {
					op.LogID = op.id()
					ops = append(ops, ref.Op{Kind: "insert", Table: "Log", UUID: cp.UUID(), Row: ref.Row{"id": ref.Set(ref.Str(op.LogID))}})
				}
				op.ops = ops
				r.LogCase(fmt.Sprintf("history %d/%d %s %s %s", batch, hi, op.id(), op.Kind, op.Key))
				op.Call = now()
				rs, err := clients[ci].transact(m, ops)
				op.Ret = now()
				op.reply = rs
				if err != nil {
					op.Err = err.Error()
				} else {
					op.TxnErr = firstErr(rs)
				}
				// decode the outputs the models need
				if op.Err == "" && op.TxnErr == "" {
					switch op.Kind {
					case "inc", "read":
						idx := 0
						if op.Kind == "inc" {
							idx = 2
						}
						if rows, err := txn.SelRows(m, "Ctr", rs[idx]); err == nil && len(rows) == 1 {
							op.OutN = datumInt(rows[0].Cols["n"])
							lastSeen[strings.TrimPrefix(op.Key, "ctr:")] = op.OutN
						} else {
							op.Err = fmt.Sprintf("select returned %d rows (%v)", len(rows), err)
						}
					case "cas", "release", "drop":
						op.OutCnt = rs[0].Count
						if op.Kind == "cas" && op.OutCnt == 1 {
							lastSeen[strings.TrimPrefix(op.Key, "ctr:")] = op.B
						}
					case "readslot":
						if rows, err := txn.SelRows(m, "Slot", rs[0]); err == nil && len(rows) <= 1 {
							if len(rows) == 1 {
								op.OutS = datumStr(rows[0].Cols["owner"])
							}
						} else {
							op.Err = fmt.Sprintf("select returned %d rows (%v)", len(rows), err)
						}
					case "adopt":
						poolMu.Lock()
						g := strings.TrimPrefix(op.Key, "grp:")
						pool[g] = append(pool[g], op.U)
						poolMu.Unlock()
					case "readgrp":
						var parts []string
						for i, pn := range c17GroupParents(strings.TrimPrefix(op.Key, "grp:")) {
							rows, err := txn.SelRows(m, "Parent", rs[i])
							if err != nil || len(rows) != 1 {
								op.Err = fmt.Sprintf("select returned %d rows (%v)", len(rows), err)
								break
							}
							var ks []string
							for _, a := range rows[0].Cols["kids"].K {
								ks = append(ks, a.S)
							}
							sort.Strings(ks)
							parts = append(parts, pn+":"+strings.Join(ks, ","))
						}
						op.OutS = strings.Join(parts, " ")
					}
				}
				hist[ci] = append(hist[ci], op)
				atomic.AddInt64(&done, 1)
			}
		}(ci, prng.Derive(int64(p.U64()>>1), "c17client", ci))
	}
	// monitors registered during the load
	total := int64(nClients * perClient)
	nLate := 2 + p.Intn(2)
	lp := prng.Derive(int64(p.U64()>>1), "c17late")
	lateDone := make(chan struct{})
	go func() {
		defer close(lateDone)
		for j := 0; j < nLate; j++ {
			threshold := total * int64(j+1) / int64(nLate+2)
			for atomic.LoadInt64(&done) < threshold {
				time.Sleep(200 * time.Microsecond)
			}
			pinned := j%2 == 0
			if pinned {
				c17HookMu.Lock()
				c17Reached = make(chan struct{})
				reached := c17Reached
				c17Armed = true
				c17HookMu.Unlock()
				select {
				case <-reached:
				case <-time.After(2 * time.Second): // no writing transaction came: register anyway
					pinned = false
				}
			}
			addMon(fmt.Sprintf("late%d", j), true, pinned, lp)
		}
	}()
	wg.Wait()
	<-lateDone
	c17HookMu.Lock()
	c17Armed = false
	c17HookMu.Unlock()

	// barrier: notifications are synchronous calls, so when this returns every monitor has handled everything before it
	bar := []ref.Op{{Kind: "insert", Table: "Log", UUID: p.UUID(), Row: ref.Row{"id": ref.Set(ref.Str("barrier"))}}}
	wire, _ = m.WireOps(bar)
	if rs, err := writer.Transact(s.Name, wire); err != nil || firstErr(rs) != "" {
		r.Inconclusive(fmt.Sprintf("barrier rejected: %v %s", err, firstErr(rs)))
		return
	}
	final, err := m.Snapshot(srv.DB)
	if err != nil {
		r.Violation("C17/final-state-unreadable", err.Error(), nil)
		return
	}

	c17Judge(r, m, start, final, hist, mons, libs, batch, hi)
}

// c17Judge runs the offline checkers over one recorded history.
func c17Judge(r *ev.Run, m *dyn.Model, start, final *ref.DB, hist [][]*c17op, mons []*c17mon, libs []client.Client, batch, hi int) {
	var all []*c17op
	byLog := map[string]*c17op{}
	for _, h := range hist {
		for _, op := range h {
			all = append(all, op)
			if op.LogID != "" {
				byLog[op.LogID] = op
			}
		}
	}
	r.Eval(1)
	var histJSON []string
	sorted := append([]*c17op{}, all...)
	sort.Slice(sorted, func(i, j int) bool { return sorted[i].Call < sorted[j].Call })
	for _, op := range sorted {
		histJSON = append(histJSON, op.brief())
	}
	witness := func(extra map[string]interface{}) map[string]interface{} {
		w := map[string]interface{}{"schema": m.S.JSON(), "history_by_call_time": histJSON, "batch": batch, "history": hi, "kind": "recorded concurrent history (times in microseconds); re-run the check with the same VERIF_SEED to regenerate the workload"}
		for k, v := range extra {
			w[k] = v
		}
		return w
	}
	for _, op := range all {
		r.Count("ops."+op.Kind, 1)
		if op.Err != "" {
			r.Inconclusive(fmt.Sprintf("history %d/%d: call %s has an unknown outcome (%s)", batch, hi, op.id(), op.Err))
			return
		}
		if op.TxnErr != "" {
			r.Count("txn-errors."+op.Kind+"."+op.TxnErr, 1)
		}
	}
	// concurrency actually seen
	overlap := 0
	for i, a := range sorted {
		for _, b := range sorted[i+1:] {
			if b.Call > a.Ret {
				break
			}
			overlap++
		}
	}
	r.Count("overlapping-call-pairs", overlap)

	// (1) monitor orders
	var order []string
	orderOf := ""
	views := map[*c17mon]map[string]map[string]ref.Row{}
	for _, mn := range mons {
		if mn.regErr != nil {
			r.Violation("C17/monitor-registration-failed/"+mn.method, fmt.Sprintf("monitor %s: %v", mn.name, mn.regErr), witness(nil))
			continue
		}
		view, ord, probs := mn.view(m, mn.peer.Take())
		views[mn] = view
		for _, pb := range probs {
			r.Violation(fmt.Sprintf("C17/monitor-stream/%s/%s", lateness(mn), probClass(pb)), fmt.Sprintf("monitor %s (%s): %s", mn.name, mn.method, pb), witness(nil))
		}
		hasLog := false
		for _, tn := range mn.tables {
			if tn == "Log" {
				hasLog = true
			}
		}
		if !hasLog {
			continue
		}
		if !mn.late {
			if orderOf == "" {
				order, orderOf = ord, mn.name
			} else if strings.Join(ord, " ") != strings.Join(order, " ") {
				i := 0
				for i < len(ord) && i < len(order) && ord[i] == order[i] {
					i++
				}
				r.Violation("C17/monitors-disagree-on-order", fmt.Sprintf("monitors %s and %s were notified in different orders; first difference at position %d", orderOf, mn.name, i),
					witness(map[string]interface{}{"order_" + orderOf: order, "order_" + mn.name: ord}))
			}
		} else if orderOf != "" {
			// a late monitor's order must be a suffix of the common order
			if len(ord) > len(order) || strings.Join(ord, " ") != strings.Join(order[len(order)-len(ord):], " ") {
				r.Violation("C17/late-monitor-order-not-a-suffix", fmt.Sprintf("monitor %s (registered during the load) saw an order that is not a suffix of the order seen by %s", mn.name, orderOf),
					witness(map[string]interface{}{"order_" + orderOf: order, "order_" + mn.name: ord}))
			}
		}
	}
	if orderOf == "" {
		r.Inconclusive("no monitor with the Log table was registered before the load")
		return
	}
	// (2) exactly once / never
	pos := map[string]int{}
	for i, id := range order {
		if id == "barrier" {
			continue
		}
		if _, dup := pos[id]; dup {
			r.Violation("C17/transaction-notified-twice", "transaction "+id+" occurs twice in the monitors' order", witness(map[string]interface{}{"order": order}))
		}
		pos[id] = i
		op := byLog[id]
		if op == nil {
			r.Violation("C17/notification-for-unknown-transaction", "Log id "+id+" was never written by a client", witness(map[string]interface{}{"order": order}))
			continue
		}
		if op.TxnErr != "" {
			r.Violation("C17/failed-transaction-notified/"+op.Kind, fmt.Sprintf("%s was answered with error %q but the monitors saw it", op.brief(), op.TxnErr), witness(map[string]interface{}{"order": order}))
		}
	}
	for _, row := range final.T["Log"] {
		if d, ok := row["id"]; ok && len(d.K) == 1 {
			if op := byLog[d.K[0].S]; op != nil && op.TxnErr != "" {
				r.Violation("C17/failed-transaction-left-rows/"+op.Kind, fmt.Sprintf("%s was answered with error %q but its Log row is in the database", op.brief(), op.TxnErr), witness(map[string]interface{}{"order": order}))
			}
		}
	}
	for id, op := range byLog {
		if _, ok := pos[id]; !ok && op.TxnErr == "" {
			r.Violation("C17/acknowledged-transaction-not-notified/"+op.Kind, fmt.Sprintf("%s was acknowledged but no monitor was notified of it", op.brief()), witness(map[string]interface{}{"order": order}))
		}
	}
	// (3) replay in the monitors' order
	cur := start.Clone()
	var fp []string
	replayOK := true
	for _, id := range order {
		if id == "barrier" {
			cur = cur.Transact([]ref.Op{{Kind: "insert", Table: "Log", UUID: barrierUUID(final), Row: ref.Row{"id": ref.Set(ref.Str("barrier"))}}}).Post
			continue
		}
		op := byLog[id]
		if op == nil || op.TxnErr != "" {
			continue
		}
		fp = append(fp, fmt.Sprint(op.Client))
		out := cur.Transact(cloneOps(op.ops))
		if out.OutOfDom != "" {
			r.Inconclusive("reference model out of domain: " + out.OutOfDom)
			return
		}
		if out.Failed() {
			why := out.CommitErr
			if why == "" {
				why = out.Results[len(out.Results)-1].Err
			}
			r.Violation(fmt.Sprintf("C17/not-serialisable-in-notified-order/%s/reference-rejects/%s", op.Kind, why),
				fmt.Sprintf("%s succeeded, but executed at its place in the notified order it fails with %q: the acknowledged results are not those of the serial execution the monitors saw", op.brief(), why),
				witness(map[string]interface{}{"order": order, "position": pos[id]}))
			replayOK = false
			break
		}
		fs := compareAccepted("C17/not-serialisable-in-notified-order/"+op.Kind, m, op.ops, &txn.Reply{Results: op.reply, NOps: len(op.ops)}, out, out.Post)
		for _, f := range fs {
			r.Violation(f.Sig, fmt.Sprintf("%s: %s (serial execution in the notified order)", op.brief(), f.What), witness(map[string]interface{}{"order": order, "position": pos[id]}))
		}
		cur = out.Post
	}
	if replayOK {
		if d := final.Diff(cur); d != "" {
			r.Violation("C17/final-state-differs-from-serial-execution/"+postClass(m.S, nil, d), "the final database is not the result of executing the acknowledged transactions in the notified order: "+d+" (first=database, second=serial execution)", witness(map[string]interface{}{"order": order}))
		}
	}
	r.Distinct(fmt.Sprintf("%d:%s", len(hist), strings.Join(fp, "")))
	// (4) real time
	var seq []*c17op
	for _, id := range order {
		if op := byLog[id]; op != nil && id != "barrier" {
			seq = append(seq, op)
		}
	}
	minRet := int64(1) << 62
	var minOp *c17op
	for i := len(seq) - 1; i >= 0; i-- {
		if minOp != nil && minRet < seq[i].Call {
			r.Violation("C17/notified-order-contradicts-real-time", fmt.Sprintf("%s returned before %s was called, yet the monitors saw them in the opposite order", minOp.brief(), seq[i].brief()), witness(map[string]interface{}{"order": order}))
			break
		}
		if seq[i].Ret < minRet {
			minRet, minOp = seq[i].Ret, seq[i]
		}
	}
	// (5) porcupine per key
	var pops []porcupine.Operation
	for _, op := range all {
		pops = append(pops, porcupine.Operation{ClientId: op.Client, Call: op.Call, Return: op.Ret,
			Input:  c17in{Kind: op.Kind, Key: op.Key, A: op.A, B: op.B, S: op.S, P: op.P, P2: op.P2, U: op.U},
			Output: c17out{Err: op.TxnErr, N: op.OutN, Cnt: op.OutCnt, S: op.OutS}})
	}
	byKey := map[string][]porcupine.Operation{}
	for _, po := range pops {
		k := po.Input.(c17in).Key
		byKey[k] = append(byKey[k], po)
	}
	var keys []string
	for k := range byKey {
		keys = append(keys, k)
	}
	sort.Strings(keys)
	for _, k := range keys {
		key := k
		model := porcupine.Model{
			Init:              func() interface{} { return c17Init(key) },
			Step:              c17Step,
			Equal:             func(a, b interface{}) bool { return reflect.DeepEqual(a, b) },
			DescribeOperation: func(in, out interface{}) string { return fmt.Sprintf("%+v -> %+v", in, out) },
		}
		res, info := porcupine.CheckOperationsVerbose(model, byKey[key], 60*time.Second)
		r.Count("porcupine.partitions", 1)
		r.Count("porcupine.operations", len(byKey[key]))
		switch res {
		case porcupine.Unknown:
			r.Inconclusive(fmt.Sprintf("history %d/%d key %s: linearizability checker timed out on %d operations", batch, hi, key, len(byKey[key])))
		case porcupine.Illegal:
			kind := strings.SplitN(key, ":", 2)[0]
			var sub []string
			for _, op := range sorted {
				if op.Key == key {
					sub = append(sub, op.brief())
				}
			}
			longest := 0
			for _, pl := range info.PartialLinearizations() {
				for _, l := range pl {
					if len(l) > longest {
						longest = len(l)
					}
				}
			}
			r.Violation("C17/not-linearizable/"+kind, fmt.Sprintf("the %d calls on %s have no sequential explanation (longest linearizable prefix found: %d operations)", len(byKey[key]), key, longest),
				witness(map[string]interface{}{"key": key, "sub_history": sub}))
		}
	}
	// (6) monitor replays and client caches
	for _, mn := range mons {
		view := views[mn]
		if view == nil {
			continue
		}
		for _, tn := range mn.tables {
			want := final.T[tn]
			got := view[tn]
			bad := ""
			for u, wr := range want {
				gr, ok := got[u]
				if !ok {
					bad = fmt.Sprintf("row %s/%s is in the database but not in the monitor's replay", tn, u)
					break
				}
				if !gr.Equal(wr) {
					bad = fmt.Sprintf("row %s/%s: replay %s, database %s", tn, u, gr, wr)
					break
				}
			}
			if bad == "" {
				for u := range got {
					if _, ok := want[u]; !ok {
						bad = fmt.Sprintf("row %s/%s is in the monitor's replay but not in the database", tn, u)
						break
					}
				}
			}
			if bad != "" {
				cls := "row-differs"
				if strings.Contains(bad, "not in the monitor") {
					cls = "row-missing"
				} else if strings.Contains(bad, "not in the database") {
					cls = "stale-row"
				}
				r.Violation(fmt.Sprintf("C17/monitor-replay-differs-from-database/%s/%s/%s", lateness(mn), tn, cls),
					fmt.Sprintf("monitor %s (%s, %s): initial reply + notifications do not add up to the database: %s", mn.name, mn.method, lateness(mn), bad), witness(nil))
				break
			}
		}
		r.Count("monitors."+lateness(mn), 1)
	}
	monitored := map[string]map[string]bool{}
	for _, t := range m.S.Tables {
		monitored[t.Name] = map[string]bool{}
		for _, c := range t.Cols {
			monitored[t.Name][c.Name] = true
		}
	}
	for i, cl := range libs {
		d := ""
		for k := 0; k < 1000; k++ {
			if d = cacheDiff(m, cl, final, monitored); d == "" {
				break
			}
			time.Sleep(10 * time.Millisecond)
		}
		if d != "" {
			r.Violation("C17/client-cache-differs-from-database/"+cacheDiffClass(d), fmt.Sprintf("library client %d: after all transactions were acknowledged and a barrier was notified the cache still differs: %s", i, d), witness(nil))
		}
		r.Count("library-client-caches-compared", 1)
	}
	// (7) integrity and conservation
	for _, pb := range final.CheckIntegrity() {
		cls := pb
		if i := strings.Index(pb, ":"); i > 0 {
			cls = pb[:i]
		}
		r.Violation("C17/final-state-integrity/"+cls, "final database: "+pb, witness(nil))
	}
	incs := map[string][]int64{}
	pure := map[string]bool{}
	for _, op := range all {
		if strings.HasPrefix(op.Key, "ctr:") {
			if _, ok := pure[op.Key]; !ok {
				pure[op.Key] = true
			}
			if op.Kind == "cas" {
				pure[op.Key] = false
			}
			if op.Kind == "inc" && op.TxnErr == "" {
				incs[op.Key] = append(incs[op.Key], op.OutN)
			}
		}
	}
	for k, vs := range incs {
		if !pure[k] {
			continue
		}
		sort.Slice(vs, func(i, j int) bool { return vs[i] < vs[j] })
		for i, v := range vs {
			if v != int64(i+1) {
				r.Violation("C17/lost-or-duplicated-increment", fmt.Sprintf("the %d successful increments of %s returned %v instead of 1..%d", len(vs), k, vs, len(vs)), witness(nil))
				break
			}
		}
		name := strings.TrimPrefix(k, "ctr:")
		for _, row := range final.T["Ctr"] {
			if datumStr(row["name"]) == name && datumInt(row["n"]) != int64(len(vs)) {
				r.Violation("C17/lost-or-duplicated-increment", fmt.Sprintf("%d successful increments of %s but the stored value is %d", len(vs), k, datumInt(row["n"])), witness(nil))
			}
		}
		r.Count("conservation.counters", 1)
	}
	r.Count("transactions", len(all))
	r.Count("notified-order-length", len(order))
	if r.NeedSample() {
		n := len(order)
		if n > 14 {
			n = 14
		}
		var first []string
		for _, id := range order[:n] {
			if op := byLog[id]; op != nil {
				first = append(first, op.brief())
			}
		}
		r.Sample(map[string]interface{}{"history": fmt.Sprintf("%d/%d", batch, hi), "clients": len(hist), "monitors": len(mons), "transactions": len(all), "overlapping_call_pairs": overlap, "notified_order_first": first})
	}
}

func lateness(mn *c17mon) string {
	switch {
	case mn.pinned:
		return "registered-between-notify-and-commit"
	case mn.late:
		return "registered-during-load"
	}
	return "registered-before-load"
}

func barrierUUID(final *ref.DB) string {
	for u, row := range final.T["Log"] {
		if datumStr(row["id"]) == "barrier" {
			return u
		}
	}
	return "00000000-0000-0000-0000-0000000000ba"
}

func c17Child(r *ev.Run, batch int) {
	m, err := dyn.Build(c17Schema(), nil)
	if err != nil {
		r.Violation("C17/harness/model-build", err.Error(), nil)
		return
	}
	c17InstallHook()
	n := 8
	if !r.Quick() {
		n = 48
	}
	for hi := 0; hi < n; hi++ {
		p := prng.Derive(ev.Seed(), "C17", batch, hi)
		c17History(r, m, p, batch, hi)
	}
	r.Count("server-hook.random-delays-between-notify-and-commit", int(atomic.LoadInt64(&c17Delayed)))
	r.Count("server-hook.pinned-25ms-windows", int(atomic.LoadInt64(&c17Pinned)))
}

// C17SchemaForDebug exposes the schema to throw-away debugging programs.
func C17SchemaForDebug() *tspace.Schema { return c17Schema() }
