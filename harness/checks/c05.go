package checks

// C05 — cache indexes always agree with cache contents.
// Oracle I, recomputed from scratch at the end of every batch: the partition
// of uuids given by RowCache.Index(...) equals the partition obtained by
// scanning Rows() and grouping by the tuple of indexed values; RowByModel /
// RowsByModels / client Get / Where(model).List for probes built from existing
// and absent values return exactly what a scan returns under the documented
// precedence (uuid, schema indexes in order, client indexes in order).
// Drivers: direct Create/Update/Delete in every order of the rows of a batch,
// ApplyCacheUpdate with multi-row ModelUpdates, Populate2 with update2.

import (
	"context"
	"encoding/json"
	"fmt"
	"reflect"
	"sort"
	"strings"

	"github.com/ovn-org/libovsdb/cache"
	"github.com/ovn-org/libovsdb/client"
	"github.com/ovn-org/libovsdb/model"
	"github.com/ovn-org/libovsdb/ovsdb"
	"github.com/ovn-org/libovsdb/updates"
	"verifharness/internal/dyn"
	"verifharness/internal/ev"
	"verifharness/internal/prng"
	"verifharness/internal/ref"
	"verifharness/internal/tspace"
)

func init() { Register("C05", c05Parent, c05Child) }

func c05Parent(r *ev.Run) {
	r.Rule = "index configurations (single / multi-column schema indexes; client indexes on plain, optional, map-key and multi-column sets of columns, one overlapping a schema index) x legal state sequences with hand-over batches (A->B's value with B taking a fresh one, swaps, rotations, delete + re-insert under another uuid) x three drivers (direct calls in every permutation of the rows of a batch, ApplyCacheUpdate, Populate2); a case is one batch application; distinct = (configuration, driver, batch shape, order)"
	r.Assume("batches lead from one legal state (unique schema-index values) to another; a map-key index treats an absent key as the zero value, as the cache does")
	r.RunBatches(ev.BatchOpts{N: r.N(8, 32)})
}

type c05cfg struct {
	s       *tspace.Schema
	m       *dyn.Model
	t       *tspace.Table
	schemaI [][]string
	clientI []model.ClientIndex
}

func c05Config(p *prng.R) *c05cfg {
	str, in := tspace.Base{Type: "string"}, tspace.Base{Type: "integer"}
	sv := str
	t := &tspace.Table{Name: "T", IsRoot: true, Cols: []*tspace.Col{
		{Name: "name", Key: str, Min: 1, Max: 1},
		{Name: "k2", Key: in, Min: 1, Max: 1},
		{Name: "opt", Key: str, Min: 0, Max: 1},
		{Name: "opt2", Key: str, Min: 0, Max: 1},
		{Name: "label", Key: str, Min: 1, Max: 1},
		{Name: "tags", Key: str, Val: &sv, Min: 0, Max: -1},
		{Name: "other", Key: in, Min: 0, Max: -1},
	}}
	switch p.Intn(4) {
	case 0:
		t.Indexes = [][]string{{"name"}}
	case 1:
		t.Indexes = [][]string{{"name"}, {"k2"}}
	case 2:
		t.Indexes = [][]string{{"name", "k2"}}
	default:
		t.Indexes = [][]string{{"k2"}, {"name", "label"}}
	}
	var ci []model.ClientIndex
	cands := []model.ClientIndex{
		{Columns: []model.ColumnKey{{Column: "label"}}},
		{Columns: []model.ColumnKey{{Column: "opt"}}},
		{Columns: []model.ColumnKey{{Column: "tags", Key: "k"}}},
		{Columns: []model.ColumnKey{{Column: "label"}, {Column: "opt"}}},
		{Columns: []model.ColumnKey{{Column: "name"}}}, // may overlap a schema index
		{Columns: []model.ColumnKey{{Column: "tags", Key: "k"}, {Column: "label"}}},
		{Columns: []model.ColumnKey{{Column: "opt"}, {Column: "opt2"}}}, // two optional columns of one type
		{Columns: []model.ColumnKey{{Column: "tags", Key: "k"}, {Column: "tags", Key: "z"}}}, // two keys of one map
	}
	for _, c := range cands {
		if p.Bool() {
			ci = append(ci, c)
		}
	}
	s := &tspace.Schema{Name: "VDB", Tables: []*tspace.Table{t}}
	m, err := dyn.Build(s, map[string][]model.ClientIndex{"T": ci})
	if err != nil {
		return nil
	}
	return &c05cfg{s: s, m: m, t: t, schemaI: t.Indexes, clientI: ci}
}

func (c *c05cfg) desc() string {
	var l []string
	for _, i := range c.schemaI {
		l = append(l, "s:"+strings.Join(i, "+"))
	}
	for _, i := range c.clientI {
		var cs []string
		for _, ck := range i.Columns {
			if ck.Key != nil {
				cs = append(cs, fmt.Sprintf("%s|%v", ck.Column, ck.Key))
			} else {
				cs = append(cs, ck.Column)
			}
		}
		l = append(l, "c:"+strings.Join(cs, "+"))
	}
	return strings.Join(l, " ")
}

// effective index specs in lookup order (schema first, client indexes that
// duplicate a schema index are ignored).
type c05spec struct {
	cols   []model.ColumnKey
	schema bool
	name   string
}

func specName(cols []model.ColumnKey) string {
	var l []string
	seen := map[string]bool{}
	for _, ck := range cols {
		n := ck.Column
		if ck.Key != nil {
			n = fmt.Sprintf("%s|%v", ck.Column, ck.Key)
		}
		if !seen[n] {
			seen[n] = true
			l = append(l, n)
		}
	}
	sort.Strings(l)
	return strings.Join(l, ",")
}

func (c *c05cfg) specs() []c05spec {
	var out []c05spec
	seen := map[string]bool{}
	for _, i := range c.schemaI {
		var cols []model.ColumnKey
		for _, cn := range i {
			cols = append(cols, model.ColumnKey{Column: cn})
		}
		n := specName(cols)
		out = append(out, c05spec{cols, true, n})
		seen[n] = true
	}
	for _, i := range c.clientI {
		n := specName(i.Columns)
		if seen[n] {
			continue
		}
		seen[n] = true
		out = append(out, c05spec{i.Columns, false, n})
	}
	return out
}

// tupleOf computes the indexed tuple of a row for a spec, as a canonical string.
func tupleOf(sp c05spec, row ref.Row) string {
	var l []string
	for _, ck := range sp.cols {
		d := row[ck.Column]
		if ck.Key != nil {
			v, ok := d.Get(ref.Str(ck.Key.(string)))
			if !ok {
				v = ref.Str("")
			}
			l = append(l, v.String())
		} else {
			l = append(l, d.String())
		}
	}
	return strings.Join(l, "|")
}

type c05state map[string]ref.Row

func (st c05state) clone() c05state {
	o := c05state{}
	for k, v := range st {
		o[k] = v.Clone()
	}
	return o
}

func (c *c05cfg) legal(st c05state) bool {
	for _, idx := range c.schemaI {
		seen := map[string]bool{}
		for _, r := range st {
			k := ""
			for _, cn := range idx {
				k += r[cn].String() + "|"
			}
			if seen[k] {
				return false
			}
			seen[k] = true
		}
	}
	return true
}

func (c *c05cfg) randRow(p *prng.R) ref.Row {
	row := ref.Row{}
	row["name"] = ref.Set(ref.Str(fmt.Sprintf("n%d", p.Intn(6))))
	row["k2"] = ref.Set(ref.Int(int64(p.Intn(6))))
	row["opt"] = ref.Datum{}
	if p.Bool() {
		row["opt"] = ref.Set(ref.Str([]string{"", "o1", "o2"}[p.Intn(3)]))
	}
	row["opt2"] = ref.Datum{}
	if p.Bool() {
		row["opt2"] = ref.Set(ref.Str([]string{"", "o1", "o2"}[p.Intn(3)]))
	}
	row["label"] = ref.Set(ref.Str([]string{"", "red", "blue"}[p.Intn(3)]))
	tags := ref.Datum{Map: true}
	if p.Bool() {
		tags = tags.WithPair(ref.Str("k"), ref.Str([]string{"", "v1", "v2"}[p.Intn(3)]))
	}
	if p.Chance(1, 3) {
		tags = tags.WithPair(ref.Str("z"), ref.Str("zz"))
	}
	row["tags"] = tags
	row["other"] = ref.Datum{}
	if p.Bool() {
		row["other"] = ref.Set(ref.Int(int64(p.Intn(3))))
	}
	return row
}

// nextState derives a legal successor with hand-over patterns.
func (c *c05cfg) nextState(p *prng.R, st c05state) (c05state, string) {
	for tries := 0; tries < 30; tries++ {
		n := st.clone()
		us := sortedKeys(n)
		shape := ""
		idxCols := []string{"name", "k2", "label"}
		copyIdx := func(dst, src ref.Row) {
			for _, cn := range idxCols {
				dst[cn] = src[cn]
			}
		}
		switch x := p.Intn(9); {
		case x == 0 && len(us) >= 2: // swap
			pm := p.Perm(len(us))
			a, b := n[us[pm[0]]].Clone(), n[us[pm[1]]].Clone()
			ta := a.Clone()
			copyIdx(a, b)
			copyIdx(b, ta)
			n[us[pm[0]]], n[us[pm[1]]] = a, b
			shape = "swap"
		case x == 1 && len(us) >= 3: // rotation
			pm := p.Perm(len(us))
			a, b, cc := n[us[pm[0]]].Clone(), n[us[pm[1]]].Clone(), n[us[pm[2]]].Clone()
			ta := a.Clone()
			copyIdx(a, b)
			copyIdx(b, cc)
			copyIdx(cc, ta)
			n[us[pm[0]]], n[us[pm[1]]], n[us[pm[2]]] = a, b, cc
			shape = "rotate"
		case x == 2 && len(us) >= 2: // A takes B's values, B takes fresh ones
			pm := p.Perm(len(us))
			a, b := n[us[pm[0]]].Clone(), n[us[pm[1]]].Clone()
			copyIdx(a, b)
			copyIdx(b, c.randRow(p))
			n[us[pm[0]]], n[us[pm[1]]] = a, b
			shape = "handover"
		case x == 3 && len(us) >= 1: // delete + re-insert the values under another uuid
			u := us[p.Intn(len(us))]
			row := n[u]
			delete(n, u)
			n[p.UUID()] = row.Clone()
			shape = "delete+reinsert"
		case x == 4 && len(us) >= 1: // delete
			delete(n, us[p.Intn(len(us))])
			shape = "delete"
		case x <= 6: // insert(s)
			for i := p.Intn(2); i >= 0; i-- {
				n[p.UUID()] = c.randRow(p)
			}
			shape = "insert"
		default: // update non-index / client-index columns of a few rows
			if len(us) == 0 {
				continue
			}
			for i := p.Intn(3); i >= 0; i-- {
				u := us[p.Intn(len(us))]
				row := n[u].Clone()
				nr := c.randRow(p)
				for _, cn := range []string{"opt", "opt2", "label", "tags", "other"} {
					if p.Bool() {
						row[cn] = nr[cn]
					}
				}
				if p.Chance(1, 3) {
					row["name"], row["k2"] = nr["name"], nr["k2"]
				}
				n[u] = row
			}
			shape = "update"
		}
		if shape == "" || !c.legal(n) || len(n) > 9 {
			continue
		}
		return n, shape
	}
	return st, "none"
}

func sortedKeys(m c05state) []string {
	out := make([]string, 0, len(m))
	for k := range m {
		out = append(out, k)
	}
	sort.Strings(out)
	return out
}

type rowChange struct {
	uuid     string
	old, new ref.Row // nil = absent
}

func diffStates(a, b c05state) []rowChange {
	var out []rowChange
	for _, u := range sortedKeys(a) {
		if nb, ok := b[u]; !ok {
			out = append(out, rowChange{u, a[u], nil})
		} else if !nb.Equal(a[u]) {
			out = append(out, rowChange{u, a[u], nb})
		}
	}
	for _, u := range sortedKeys(b) {
		if _, ok := a[u]; !ok {
			out = append(out, rowChange{u, nil, b[u]})
		}
	}
	return out
}

func (c *c05cfg) newCache(st c05state) (*cache.TableCache, error) {
	tc, err := cache.NewTableCache(c.m.DB, nil, nil)
	if err != nil {
		return nil, err
	}
	for _, u := range sortedKeys(st) {
		if err := tc.Table("T").Create(u, c.m.NewModel("T", u, st[u]), true); err != nil {
			return nil, fmt.Errorf("populating: %v", err)
		}
	}
	return tc, nil
}

// check recomputes every invariant on a cache that should hold exactly st.
func (c *c05cfg) check(tc *cache.TableCache, st c05state, p *prng.R) []finding {
	var fs []finding
	rc := tc.Table("T")
	rows, err := c.m.SnapshotRows("T", rc.Rows())
	if err != nil {
		return []finding{{"C05/cache-unreadable", err.Error()}}
	}
	// contents
	for u, r := range st {
		if got, ok := rows[u]; !ok {
			fs = append(fs, finding{"C05/contents/row-missing", "row " + u + " missing from the cache"})
		} else if !got.Equal(r) {
			fs = append(fs, finding{"C05/contents/row-differs", fmt.Sprintf("row %s is %v, expected %v", u, got, r)})
		}
	}
	for u := range rows {
		if _, ok := st[u]; !ok {
			fs = append(fs, finding{"C05/contents/row-extra", "row " + u + " should not be in the cache"})
		}
	}
	if len(fs) > 0 {
		return fs
	}
	// Index() partitions
	partitions := func(when string) {
		for _, sp := range c.specs() {
			var cols []string
			for _, ck := range sp.cols {
				if ck.Key != nil {
					cols = append(cols, fmt.Sprintf("%s|%v", ck.Column, ck.Key))
				} else {
					cols = append(cols, ck.Column)
				}
			}
			idx, err := rc.Index(cols...)
			kind := "client"
			if sp.schema {
				kind = "schema"
			}
			if len(sp.cols) > 1 {
				kind += "-multi"
			}
			for _, ck := range sp.cols {
				if ck.Key != nil {
					kind += "-mapkey"
				}
				if ck.Column == "opt" || ck.Column == "opt2" {
					kind += "-optional"
				}
			}
			if err != nil {
				fs = append(fs, finding{"C05/index/unavailable/" + kind, fmt.Sprintf("Index(%v): %v", cols, err)})
				continue
			}
			want := map[string][]string{}
			for u, r := range rows {
				t := tupleOf(sp, r)
				want[t] = append(want[t], u)
			}
			var wantP, gotP []string
			for _, us := range want {
				sort.Strings(us)
				wantP = append(wantP, strings.Join(us, "+"))
			}
			inIndex := map[string]int{}
			for _, us := range idx {
				l := append([]string{}, us...)
				sort.Strings(l)
				gotP = append(gotP, strings.Join(l, "+"))
				for _, u := range l {
					inIndex[u]++
				}
			}
			sort.Strings(wantP)
			sort.Strings(gotP)
			if strings.Join(wantP, ";") != strings.Join(gotP, ";") {
				cls := "partition-differs"
				for u := range rows {
					if inIndex[u] == 0 {
						cls = "row-unreachable"
					}
				}
				for u := range inIndex {
					if _, ok := rows[u]; !ok {
						cls = "entry-for-deleted-row"
					}
				}
				fs = append(fs, finding{"C05/index/" + cls + "/" + kind + when, fmt.Sprintf("index %s: the index groups rows as %v, a scan of the rows groups them as %v", sp.name, gotP, wantP)})
			}
		}
	}
	partitions("")
	// lookups by model
	api := client.VerifNewAPI(tc)
	probes := []ref.Row{}
	for _, u := range sortedKeys(st) {
		probes = append(probes, st[u])
	}
	probes = append(probes, c.randRow(p), c.randRow(p))
	specs := c.specs()
	var singles []c05single
	for pi, pr := range probes {
		for variant := 0; variant < 3; variant++ {
			probe := pr.Clone()
			uuid := ""
			switch variant {
			case 1:
				// blank out the first index so that later ones are consulted
				if len(specs) > 0 {
					for _, ck := range specs[0].cols {
						probe[ck.Column] = ref.Set(ref.Str("absent-value"))
						if ck.Column == "k2" {
							probe[ck.Column] = ref.Set(ref.Int(987))
						}
						if ck.Column == "tags" {
							probe[ck.Column] = ref.Datum{Map: true}.WithPair(ref.Str("k"), ref.Str("absent-value"))
						}
					}
				}
			case 2:
				us := sortedKeys(st)
				if len(us) > 0 && pi < len(us) {
					uuid = us[(pi+1)%len(us)] // a uuid of another row: uuid wins
				} else {
					uuid = p.UUID()
				}
			}
			expect := func(clientIdx bool) []string {
				if uuid != "" {
					if _, ok := rows[uuid]; ok {
						return []string{uuid}
					}
				}
				for _, sp := range specs {
					if !sp.schema && !clientIdx {
						break
					}
					pt := tupleOf(sp, probe)
					var l []string
					for u, r := range rows {
						if tupleOf(sp, r) == pt {
							l = append(l, u)
						}
					}
					if len(l) > 0 {
						sort.Strings(l)
						return l
					}
				}
				return nil
			}
			mdl := c.m.NewModel("T", uuid, probe)
			got, err := rc.RowsByModels([]model.Model{mdl})
			if err != nil {
				fs = append(fs, finding{"C05/lookup/RowsByModels-error", err.Error()})
				continue
			}
			singles = append(singles, c05single{c.m.NewModel("T", uuid, probe), expect(true)})
			var gl []string
			for u, gm := range got {
				gl = append(gl, u)
				if _, gr, err := c.m.RowOf("T", gm); err == nil {
					if !gr.Equal(rows[u]) {
						fs = append(fs, finding{"C05/lookup/RowsByModels-stale-row", fmt.Sprintf("RowsByModels returns row %s as %v, the cache holds %v", u, gr, rows[u])})
					}
				}
			}
			sort.Strings(gl)
			if w := expect(true); strings.Join(gl, ",") != strings.Join(w, ",") {
				fs = append(fs, finding{fmt.Sprintf("C05/lookup/RowsByModels/variant%d", variant), fmt.Sprintf("RowsByModels(%v uuid=%q) returns %v, a scan returns %v", probe, uuid, gl, w)})
			}
			// schema indexes only
			ru, _, err := rc.RowByModel(c.m.NewModel("T", uuid, probe))
			w := expect(false)
			switch {
			case err != nil:
				fs = append(fs, finding{"C05/lookup/RowByModel-error", err.Error()})
			case len(w) == 0 && ru != "":
				fs = append(fs, finding{fmt.Sprintf("C05/lookup/RowByModel-finds-absent/variant%d", variant), fmt.Sprintf("RowByModel(%v) returns %s, a scan finds nothing", probe, ru)})
			case len(w) > 0 && !contains(w, ru):
				fs = append(fs, finding{fmt.Sprintf("C05/lookup/RowByModel/variant%d", variant), fmt.Sprintf("RowByModel(%v uuid=%q) returns %q, a scan returns %v", probe, uuid, ru, w)})
			}
			// client API
			gm := c.m.NewModel("T", uuid, probe)
			gerr := api.Get(context.Background(), gm)
			switch {
			case len(w) == 0 && gerr == nil:
				fs = append(fs, finding{fmt.Sprintf("C05/lookup/Get-finds-absent/variant%d", variant), fmt.Sprintf("Get(%v) succeeds, a scan finds nothing", probe)})
			case len(w) > 0 && gerr != nil:
				fs = append(fs, finding{fmt.Sprintf("C05/lookup/Get-misses/variant%d", variant), fmt.Sprintf("Get(%v uuid=%q) fails with %v, a scan returns %v", probe, uuid, gerr, w)})
			case len(w) > 0:
				gu, gr, _ := c.m.RowOf("T", gm)
				if !contains(w, gu) || !gr.Equal(rows[gu]) {
					fs = append(fs, finding{fmt.Sprintf("C05/lookup/Get/variant%d", variant), fmt.Sprintf("Get(%v uuid=%q) returns row %s %v, a scan returns %v", probe, uuid, gu, gr, w)})
				}
			}
			lst := reflect.New(reflect.SliceOf(c.m.Types["T"]))
			lerr := api.Where(c.m.NewModel("T", uuid, probe)).List(context.Background(), lst.Interface())
			if lerr == nil {
				var ll []string
				for i := 0; i < lst.Elem().Len(); i++ {
					ll = append(ll, lst.Elem().Index(i).FieldByName("UUID").String())
				}
				sort.Strings(ll)
				if we := expect(true); strings.Join(ll, ",") != strings.Join(we, ",") {
					fs = append(fs, finding{fmt.Sprintf("C05/lookup/WhereList/variant%d", variant), fmt.Sprintf("Where(%v uuid=%q).List returns %v, a scan returns %v", probe, uuid, ll, we)})
				}
			}
		}
	}
	// several models in one call: the answer is the union of the single answers (models may
	// resolve through different indexes, to equal or different values)
	for i := 0; i+1 < len(singles) && i < 24; i++ {
		j := (i*7 + 3) % len(singles)
		if j == i {
			continue
		}
		got, err := rc.RowsByModels([]model.Model{singles[i].mdl, singles[j].mdl})
		if err != nil {
			fs = append(fs, finding{"C05/lookup/RowsByModels-error", err.Error()})
			continue
		}
		wm := map[string]bool{}
		for _, u := range append(append([]string{}, singles[i].want...), singles[j].want...) {
			wm[u] = true
		}
		var gl, wl []string
		for u := range got {
			gl = append(gl, u)
		}
		for u := range wm {
			wl = append(wl, u)
		}
		sort.Strings(gl)
		sort.Strings(wl)
		if strings.Join(gl, ",") != strings.Join(wl, ",") {
			fs = append(fs, finding{"C05/lookup/RowsByModels/two-models", fmt.Sprintf("RowsByModels of two models returns %v, the single look-ups return %v and %v", gl, singles[i].want, singles[j].want)})
		}
	}
	// Read-only look-ups by condition that one or several indexes can serve (== on every
	// column of an index, includes {key: value} for a map-key index) must leave the indexes
	// as they are: the partitions are compared with the scan once more afterwards.
	if len(fs) == 0 {
		for _, pr := range probes {
			for mask := 1; mask < 1<<uint(len(specs)) && mask < 32; mask++ {
				var conds []ovsdb.Condition
				for si, sp := range specs {
					if mask&(1<<uint(si)) == 0 {
						continue
					}
					var spc []ovsdb.Condition
					for _, ck := range sp.cols {
						col := c.t.Col(ck.Column)
						d := pr[ck.Column]
						if ck.Key != nil {
							k := ref.Str(ck.Key.(string))
							v, ok := d.Get(k)
							if !ok {
								spc = nil
								break
							}
							spc = append(spc, ovsdb.Condition{Column: ck.Column, Function: ovsdb.ConditionIncludes, Value: dyn.ToOvs(col, ref.Datum{Map: true}.WithPair(k, v))})
						} else {
							spc = append(spc, ovsdb.Condition{Column: ck.Column, Function: ovsdb.ConditionEqual, Value: dyn.ToOvs(col, d)})
						}
					}
					conds = append(conds, spc...)
				}
				if len(conds) > 0 {
					_, _ = rc.RowsByCondition(conds)
				}
			}
			// ... and look-ups on part of what an index covers (one column of a multi-column
			// index, one key of a multi-key index): no index serves them alone, the answer
			// must still be that of a scan
			for _, sp := range specs {
				if len(sp.cols) < 2 {
					continue
				}
				for _, ck := range sp.cols {
					col := c.t.Col(ck.Column)
					d := pr[ck.Column]
					var cond ovsdb.Condition
					match := func(row ref.Row) bool { return row[ck.Column].Equal(d) }
					if ck.Key != nil {
						k := ref.Str(ck.Key.(string))
						v, ok := d.Get(k)
						if !ok {
							continue
						}
						cond = ovsdb.Condition{Column: ck.Column, Function: ovsdb.ConditionIncludes, Value: dyn.ToOvs(col, ref.Datum{Map: true}.WithPair(k, v))}
						match = func(row ref.Row) bool { x, ok := row[ck.Column].Get(k); return ok && x == v }
					} else {
						cond = ovsdb.Condition{Column: ck.Column, Function: ovsdb.ConditionEqual, Value: dyn.ToOvs(col, d)}
					}
					got, err := rc.RowsByCondition([]ovsdb.Condition{cond})
					if err != nil {
						fs = append(fs, finding{"C05/lookup/RowsByCondition-error", err.Error()})
						continue
					}
					var gl, wl []string
					for u := range got {
						gl = append(gl, u)
					}
					for u, row := range rows {
						if match(row) {
							wl = append(wl, u)
						}
					}
					sort.Strings(gl)
					sort.Strings(wl)
					if strings.Join(gl, ",") != strings.Join(wl, ",") {
						fs = append(fs, finding{"C05/lookup/RowsByCondition/part-of-index " + sp.name, fmt.Sprintf("RowsByCondition(%s %s %v) returns %v, a scan returns %v", cond.Column, cond.Function, cond.Value, gl, wl)})
					}
				}
			}
		}
		// 'includes' with the empty set holds for every row, indexed optional column or not
		for _, sp := range specs {
			for _, ck := range sp.cols {
				col := c.t.Col(ck.Column)
				if ck.Key != nil || !col.IsOptional() {
					continue
				}
				got, err := rc.RowsByCondition([]ovsdb.Condition{{Column: ck.Column, Function: ovsdb.ConditionIncludes, Value: dyn.ToOvs(col, ref.Datum{})}})
				if err != nil {
					fs = append(fs, finding{"C05/lookup/RowsByCondition-error", err.Error()})
				} else if len(got) != len(rows) {
					fs = append(fs, finding{"C05/lookup/RowsByCondition/includes-empty-on-indexed-optional", fmt.Sprintf("RowsByCondition(%s includes []) returns %d of %d rows", ck.Column, len(got), len(rows))})
				}
			}
		}
		partitions("/after-read-only-condition-lookups")
	}
	return fs
}

type c05single struct {
	mdl  model.Model
	want []string
}

func contains(l []string, s string) bool {
	for _, x := range l {
		if x == s {
			return true
		}
	}
	return false
}

func (c *c05cfg) ovsRowOf(row ref.Row) ovsdb.Row {
	out := ovsdb.Row{}
	for _, col := range c.t.Cols {
		out[col.Name] = dyn.ToOvs(col, row[col.Name])
	}
	b, _ := json.Marshal(out)
	var back ovsdb.Row
	_ = json.Unmarshal(b, &back)
	return back
}

func (c *c05cfg) ru2Of(ch rowChange) *ovsdb.RowUpdate2 {
	switch {
	case ch.old == nil:
		r := c.ovsRowOf(ch.new)
		return &ovsdb.RowUpdate2{Insert: &r}
	case ch.new == nil:
		return &ovsdb.RowUpdate2{Delete: &ovsdb.Row{}}
	}
	mod := ref.Modify2(c.t, ch.old, ch.new, nil)
	out := ovsdb.Row{}
	for cn, d := range mod {
		out[cn] = dyn.ToOvs(c.t.Col(cn), d)
	}
	b, _ := json.Marshal(out)
	var back ovsdb.Row
	_ = json.Unmarshal(b, &back)
	return &ovsdb.RowUpdate2{Modify: &back}
}

func permutations(n int) [][]int {
	if n == 0 {
		return [][]int{{}}
	}
	var out [][]int
	var rec func(cur []int, used []bool)
	rec = func(cur []int, used []bool) {
		if len(cur) == n {
			out = append(out, append([]int{}, cur...))
			return
		}
		for i := 0; i < n; i++ {
			if !used[i] {
				used[i] = true
				rec(append(cur, i), used)
				used[i] = false
			}
		}
	}
	rec(nil, make([]bool, n))
	return out
}

func c05Child(r *ev.Run, batch int) {
	hist := r.N(14, 140)
	steps := r.N(30, 60)
	for hi := 0; hi < hist; hi++ {
		p := prng.Derive(r.Seed, "C05", batch, hi)
		c := c05Config(p)
		if c == nil {
			r.Violation("C05/harness/model-build", "cannot build model", nil)
			return
		}
		st := c05state{}
		for i := 0; i < 3; i++ {
			cand := st.clone()
			cand[p.UUID()] = c.randRow(p)
			if c.legal(cand) {
				st = cand
			}
		}
		live, err := c.newCache(st)
		if err != nil {
			r.Violation("C05/populate-error/"+errClassOf(err.Error()), err.Error(), map[string]interface{}{"config": c.desc()})
			continue
		}
		for si := 0; si < steps; si++ {
			next, shape := c.nextState(p, st)
			if shape == "none" {
				continue
			}
			changes := diffStates(st, next)
			if len(changes) == 0 {
				continue
			}
			wit := func(driver, order string) map[string]interface{} {
				var chs []string
				for _, ch := range changes {
					chs = append(chs, fmt.Sprintf("%s: %v -> %v", ch.uuid, ch.old, ch.new))
				}
				return map[string]interface{}{"config": c.desc(), "driver": driver, "order": order, "batch_shape": shape, "changes": chs}
			}
			rep := func(fs []finding, driver, order string) {
				for _, f := range fs {
					r.Violation(f.Sig+"/"+driver, f.What, wit(driver, order))
				}
			}
			r.LogCase(fmt.Sprintf("C05 config=%s shape=%s changes=%d", c.desc(), shape, len(changes)))
			// driver 1: direct calls, every permutation (<= 4 rows), from the same pre-state
			perms := [][]int{nil}
			if len(changes) <= 4 {
				perms = permutations(len(changes))
			} else {
				perms = [][]int{p.Perm(len(changes)), p.Perm(len(changes))}
			}
			for pi, pm := range perms {
				tc, err := c.newCache(st)
				if err != nil {
					break
				}
				failed := false
				cur := st.clone()
				// a refused call must leave the cache exactly as it was (checked against the
				// rows applied so far whenever these are free of transient duplicates)
				refused := func() {
					if c.legal(cur) {
						rep(c.check(tc, cur, p), "direct-after-refused-checked-call", fmt.Sprint(pm))
					}
				}
				for _, i := range pm {
					ch := changes[i]
					rc := tc.Table("T")
					var err error
					// every other order mixes checked and unchecked calls: a checked call may be
					// refused while another row still holds the value (then it is repeated
					// unchecked, as the batch as a whole is legal), and must otherwise leave the
					// indexes exactly as an unchecked call does
					checked := pi%2 == 1 && p.Bool()
					switch {
					case ch.old == nil:
						err = rc.Create(ch.uuid, c.m.NewModel("T", ch.uuid, ch.new), checked)
						if err != nil && checked {
							r.Count("checked_calls_refused", 1)
							refused()
							err = rc.Create(ch.uuid, c.m.NewModel("T", ch.uuid, ch.new), false)
						}
					case ch.new == nil:
						err = rc.Delete(ch.uuid)
					default:
						_, err = rc.Update(ch.uuid, c.m.NewModel("T", ch.uuid, ch.new), checked)
						if err != nil && checked {
							r.Count("checked_calls_refused", 1)
							refused()
							_, err = rc.Update(ch.uuid, c.m.NewModel("T", ch.uuid, ch.new), false)
						}
					}
					if checked {
						r.Count("checked_direct_calls", 1)
					}
					if err == nil {
						if ch.new == nil {
							delete(cur, ch.uuid)
						} else {
							cur[ch.uuid] = ch.new
						}
					}
					if err != nil {
						rep([]finding{{"C05/direct-call-error/" + errClassOf(err.Error()), err.Error()}}, "direct", fmt.Sprint(pm))
						failed = true
						break
					}
				}
				r.Eval(1)
				r.Distinct(fmt.Sprintf("%s|direct|%s|%v", c.desc(), shape, pm))
				if !failed {
					rep(c.check(tc, next, p), "direct", fmt.Sprint(pm))
				}
				// a checked Create that is new for the first schema index and a duplicate for the
				// second one must be refused and leave nothing behind
				if !failed && pi == 0 && len(c.schemaI) >= 2 && len(next) > 0 {
					us := sortedKeys(next)
					x := next[us[p.Intn(len(us))]]
					row := c.randRow(p)
					row["name"] = ref.Set(ref.Str("fresh-name"))
					row["k2"] = ref.Set(ref.Int(424242))
					for _, cn := range c.schemaI[1] {
						row[cn] = x[cn]
					}
					nu := p.UUID()
					if err := tc.Table("T").Create(nu, c.m.NewModel("T", nu, row), true); err == nil {
						rep([]finding{{"C05/checked-create-accepts-duplicate", fmt.Sprintf("a checked Create duplicating index %v of another row is accepted", c.schemaI[1])}}, "direct", fmt.Sprint(pm))
					} else {
						r.Count("refused_checked_creates_probed", 1)
						rep(c.check(tc, next, p), "direct-after-refused-checked-create", fmt.Sprint(pm))
					}
				}
			}
			// driver 2: ApplyCacheUpdate with a multi-row ModelUpdates (map order inside the library): repeated
			reps := 4
			if len(changes) > 1 {
				reps = 12
			}
			for k := 0; k < reps; k++ {
				tc, err := c.newCache(st)
				if err != nil {
					break
				}
				mu := updates.ModelUpdates{}
				bad := false
				for _, ch := range changes {
					var cur model.Model
					if ch.old != nil {
						cur = tc.Table("T").Row(ch.uuid)
					}
					if err := mu.AddRowUpdate2(c.m.DB, "T", ch.uuid, cur, *c.ru2Of(ch)); err != nil {
						rep([]finding{{"C05/addrowupdate2-error/" + errClassOf(err.Error()), err.Error()}}, "apply", "")
						bad = true
					}
				}
				if bad {
					break
				}
				r.Eval(1)
				r.Distinct(fmt.Sprintf("%s|apply|%s|%d", c.desc(), shape, len(changes)))
				if err := tc.ApplyCacheUpdate(mu); err != nil {
					rep([]finding{{"C05/applycacheupdate-error/" + errClassOf(err.Error()), err.Error()}}, "apply", "")
					continue
				}
				rep(c.check(tc, next, p), "apply", "")
			}
			// driver 3: Populate2 on the live cache (history on one cache object)
			tu := ovsdb.TableUpdates2{"T": ovsdb.TableUpdate2{}}
			for _, ch := range changes {
				tu["T"][ch.uuid] = c.ru2Of(ch)
			}
			r.Eval(1)
			r.Distinct(fmt.Sprintf("%s|populate2|%s|%d", c.desc(), shape, len(changes)))
			if err := live.Populate2(tu); err != nil {
				rep([]finding{{"C05/populate2-error/" + errClassOf(err.Error()), err.Error()}}, "populate2", "")
				if live, err = c.newCache(next); err != nil {
					break
				}
			} else {
				fs := c.check(live, next, p)
				rep(fs, "populate2", "")
				if len(fs) > 0 {
					if live, err = c.newCache(next); err != nil {
						break
					}
				}
			}
			if r.NeedSample() && len(changes) > 1 {
				r.Sample(wit("all three", "all permutations"))
			}
			st = next
		}
	}
}
