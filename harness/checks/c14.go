package checks

// C14 — cache events form a faithful, ordered change log.
// Handlers registered before the history record (kind, uuid, dump(old),
// dump(new)) under their own lock while TableCache.Run dispatches from its own
// goroutine (race-instrumented build). At quiescence (a sentinel row's event
// has reached every handler): replaying one handler's log onto empty tables
// reproduces Rows(); per row the kinds alternate legally; every update's old
// model equals the replayed state; all handlers hold identical logs; a
// notification that fails to apply produced no event for the failed row.

import (
	"encoding/json"
	"fmt"
	"runtime/debug"
	"sort"
	"strings"
	"sync"
	"time"

	"github.com/ovn-org/libovsdb/cache"
	"github.com/ovn-org/libovsdb/model"
	"github.com/ovn-org/libovsdb/ovsdb"
	"verifharness/internal/dyn"
	"verifharness/internal/ev"
	"verifharness/internal/prng"
	"verifharness/internal/ref"
)

func init() { Register("C14", c14Parent, c14Child) }

func c14Parent(r *ev.Run) {
	r.Rule = "notification histories (update2 through Populate2, RFC 'update' through Populate, multi-row batches, hand-over batches, injected notifications that fail to apply: insert of a cached uuid, modify/delete of an unknown row, a failing row in the middle of a batch) applied to a cache with 2-3 handlers and random handler delays, every other history stopping and restarting the dispatcher with events queued; a case is one history; distinct = (index configuration, notification kinds, failure kinds injected, number of handlers)"
	r.Assume("fewer events are outstanding than the 65536-entry buffer holds (the harness counts them)")
	r.RunBatches(ev.BatchOpts{N: r.N(8, 32), Race: true})
}

type evRec struct {
	Kind string
	UUID string
	Old  string
	New  string
}

type recHandler struct {
	m     *dyn.Model
	mu    sync.Mutex
	log   []evRec
	delay *prng.R
	gate  sync.Mutex // held by the history while it wants events to stay queued
}

func (h *recHandler) dump(mdl model.Model) (string, string) {
	if mdl == nil {
		return "", "<nil>"
	}
	u, row, err := h.m.RowOf("T", mdl)
	if err != nil {
		return u, "error:" + err.Error()
	}
	return u, row.String()
}

func (h *recHandler) rec(kind string, old, new model.Model) {
	h.gate.Lock()
	h.gate.Unlock() //nolint:staticcheck // a gate, not a critical section
	h.mu.Lock()
	defer h.mu.Unlock()
	var e evRec
	e.Kind = kind
	uo, so := h.dump(old)
	un, sn := h.dump(new)
	e.Old, e.New = so, sn
	e.UUID = un
	if un == "" {
		e.UUID = uo
	}
	h.log = append(h.log, e)
	if h.delay != nil && h.delay.Chance(1, 40) {
		time.Sleep(time.Duration(h.delay.Intn(300)) * time.Microsecond)
	}
}

func (h *recHandler) OnAdd(table string, m model.Model)           { h.rec("add", nil, m) }
func (h *recHandler) OnUpdate(table string, old, new model.Model) { h.rec("update", old, new) }
func (h *recHandler) OnDelete(table string, m model.Model)        { h.rec("delete", m, nil) }

func (h *recHandler) snapshot() []evRec {
	h.mu.Lock()
	defer h.mu.Unlock()
	return append([]evRec{}, h.log...)
}

// replayLog applies a log to empty tables and returns problems and the final state.
func replayLog(log []evRec) ([]string, map[string]string) {
	return replayInto(map[string]string{}, log, 0)
}

func replayInto(state map[string]string, log []evRec, base int) ([]string, map[string]string) {
	var bad []string
	for i, e := range log {
		i += base
		cur, exists := state[e.UUID]
		switch e.Kind {
		case "add":
			if exists {
				bad = append(bad, fmt.Sprintf("event %d: add for row %s that the log says already exists", i, e.UUID))
			}
			state[e.UUID] = e.New
		case "update":
			if !exists {
				bad = append(bad, fmt.Sprintf("event %d: update for row %s that the log does not hold", i, e.UUID))
			} else if cur != e.Old {
				bad = append(bad, fmt.Sprintf("event %d: update of row %s carries old=%s but the previous state is %s", i, e.UUID, e.Old, cur))
			}
			if e.Old == e.New {
				bad = append(bad, fmt.Sprintf("event %d: update of row %s with identical old and new", i, e.UUID))
			}
			state[e.UUID] = e.New
		case "delete":
			if !exists {
				bad = append(bad, fmt.Sprintf("event %d: delete for row %s that the log does not hold", i, e.UUID))
			} else if cur != e.Old {
				bad = append(bad, fmt.Sprintf("event %d: delete of row %s carries %s but the previous state is %s", i, e.UUID, e.Old, cur))
			}
			delete(state, e.UUID)
		}
	}
	return bad, state
}

// replayEpochs replays a log that spans purges of the cache. A purge drops the rows without
// events (the client purges between connections when the server cannot resume); the history
// inserts a marker row right before each purge, so the add event of marker k ends epoch k.
// Up to there the log must reproduce the contents the cache had before the purge; the rows
// of an ended epoch are "stale": a later add or delete for one of them is accepted (an
// implementation might also announce the purge with delete events), and they are not part
// of the final state.
func replayEpochs(log []evRec, marks []string, expected []map[string]string) ([]string, map[string]string) {
	state := map[string]string{}
	stale := map[string]bool{}
	var bad []string
	seg := func(from, to int) {
		for i := from; i < to; i++ {
			e := log[i]
			if stale[e.UUID] {
				switch e.Kind {
				case "add":
					delete(stale, e.UUID)
					state[e.UUID] = e.New
					continue
				case "delete":
					delete(stale, e.UUID)
					delete(state, e.UUID)
					continue
				}
				delete(stale, e.UUID)
				delete(state, e.UUID)
			}
			b, _ := replayInto(state, log[i:i+1], i)
			bad = append(bad, b...)
		}
	}
	pos := 0
	for k, mark := range marks {
		j := -1
		for i := pos; i < len(log); i++ {
			if log[i].Kind == "add" && log[i].UUID == mark {
				j = i
				break
			}
		}
		if j < 0 {
			bad = append(bad, fmt.Sprintf("purge %d: events that were queued when the cache was purged were never delivered (the add event of the marker row inserted right before the purge is missing)", k))
			return bad, state
		}
		seg(pos, j+1)
		got := map[string]string{}
		for u, v := range state {
			if !stale[u] {
				got[u] = v
			}
		}
		if len(bad) == 0 && fmt.Sprint(sortedMap(got)) != fmt.Sprint(sortedMap(expected[k])) {
			bad = append(bad, fmt.Sprintf("purge %d: the log up to the purge does not reproduce the contents the cache had before it: replay=%v cache=%v", k, sortedMap(got), sortedMap(expected[k])))
		}
		for u := range state {
			stale[u] = true
		}
		pos = j + 1
	}
	seg(pos, len(log))
	for u := range stale {
		delete(state, u)
	}
	return bad, state
}

func c14History(r *ev.Run, p *prng.R, batch, hi int) {
	c := c05Config(p)
	if c == nil {
		return
	}
	tc, err := cache.NewTableCache(c.m.DB, nil, nil)
	if err != nil {
		return
	}
	nh := 2 + p.Intn(2)
	var hs []*recHandler
	for i := 0; i < nh; i++ {
		h := &recHandler{m: c.m}
		if p.Bool() {
			h.delay = prng.Derive(r.Seed, "C14delay", batch, hi, i)
		}
		hs = append(hs, h)
		tc.AddEventHandler(h)
	}
	// The dispatcher runs per connection (client.connect starts TableCache.Run, a disconnect
	// stops it) while the cache and its handlers live on: every other history stops and
	// restarts Run, with events still queued when it stops.
	stop := make(chan struct{})
	done := make(chan struct{})
	startRun := func() {
		stop, done = make(chan struct{}), make(chan struct{})
		go func(s, d chan struct{}) { tc.Run(s); close(d) }(stop, done)
	}
	startRun()
	gated := false
	defer func() {
		if gated {
			hs[0].gate.Unlock()
		}
		close(stop)
	}()
	restarts := hi%2 == 1
	purges := hi%4 == 3
	var marks []string
	var expected []map[string]string

	st := c05state{}
	steps := r.N(60, 200)
	used := map[string]bool{}
	expectedEvents := 0
	toWire := func(row ovsdb.Row) *ovsdb.Row {
		b, _ := json.Marshal(row)
		var back ovsdb.Row
		_ = json.Unmarshal(b, &back)
		return &back
	}
	fullWire := func(row ref.Row) *ovsdb.Row {
		out := ovsdb.Row{}
		for _, col := range c.t.Cols {
			out[col.Name] = dyn.ToOvs(col, row[col.Name])
		}
		return toWire(out)
	}
	for si := 0; si < steps; si++ {
		next, shape := c.nextState(p, st)
		if shape == "none" {
			continue
		}
		changes := diffStates(st, next)
		if len(changes) == 0 {
			continue
		}
		expectedEvents += len(changes)
		if expectedEvents > 60000 {
			break
		}
		switch p.Intn(3) {
		case 0: // RFC 7047 update (full new/old rows) through Populate
			used["update(v1)"] = true
			tu := ovsdb.TableUpdates{"T": ovsdb.TableUpdate{}}
			for _, ch := range changes {
				ru := &ovsdb.RowUpdate{}
				if ch.new != nil {
					ru.New = fullWire(ch.new)
				}
				if ch.old != nil {
					ru.Old = fullWire(ch.old)
				}
				tu["T"][ch.uuid] = ru
			}
			if err := tc.Populate(tu); err != nil {
				r.Violation("C14/legal-notification-rejected/update/"+errClassOf(err.Error()), "Populate rejects a legal notification: "+err.Error(), nil)
				return
			}
		default:
			used["update2"] = true
			tu := ovsdb.TableUpdates2{"T": ovsdb.TableUpdate2{}}
			for _, ch := range changes {
				tu["T"][ch.uuid] = c.ru2Of(ch)
			}
			if err := tc.Populate2(tu); err != nil {
				r.Violation("C14/legal-notification-rejected/update2/"+errClassOf(err.Error()), "Populate2 rejects a legal notification: "+err.Error(), nil)
				return
			}
		}
		used["shape:"+shape] = true
		st = next
		if restarts && gated && p.Chance(1, 3) {
			// the changes of this step are (mostly) still queued: the first handler is held
			used["dispatcher-restarted-with-events-queued"] = true
			r.Count("dispatcher_restarts", 1)
			close(stop)
			gated = false
			hs[0].gate.Unlock()
			<-done
			startRun()
		}
		if purges && gated && len(marks) < 3 && p.Chance(1, 3) {
			// the cache is purged (as the client does when a reconnect cannot resume) while
			// events are still queued: they must all be delivered nevertheless
			mark := p.UUID()
			mrow := c.randRow(p)
			mrow["name"] = ref.Set(ref.Str("purge-" + mark[:8]))
			mrow["k2"] = ref.Set(ref.Int(int64(999000 + len(marks))))
			if err := tc.Populate2(ovsdb.TableUpdates2{"T": {mark: &ovsdb.RowUpdate2{Insert: fullWire(mrow)}}}); err == nil {
				st[mark] = mrow
				exp := map[string]string{}
				for u, row := range st {
					exp[u] = row.String()
				}
				marks = append(marks, mark)
				expected = append(expected, exp)
				tc.Purge(c.m.DB)
				st = c05state{}
				used["purge-with-events-queued"] = true
				r.Count("purges_with_events_queued", 1)
			}
		}
		if restarts && !gated && p.Chance(1, 8) {
			// from here on events stay queued behind the first one
			gated = true
			hs[0].gate.Lock()
		}
		// injected notifications that must fail to apply and must not produce events for the failed row
		if p.Chance(1, 6) {
			us := sortedKeys(st)
			switch p.Intn(6) {
			case 5:
				// one notification with several new rows and, among them, an insert of a uuid
				// the cache already holds: that row fails to apply, rows visited before it are
				// applied (which ones depends on the library's iteration order, so the cache
				// is asked afterwards) and each applied row must have its event
				if len(us) > 0 {
					st2 := st.clone()
					var fresh []string
					for k := 2 + p.Intn(4); k > 0; k-- {
						u := p.UUID()
						st2[u] = c.randRow(p)
						fresh = append(fresh, u)
					}
					if c.legal(st2) {
						used["fail:one-row-of-a-multi-row-notification"] = true
						tu := ovsdb.TableUpdate2{us[p.Intn(len(us))]: &ovsdb.RowUpdate2{Insert: fullWire(c.randRow(p))}}
						for _, u := range fresh {
							tu[u] = &ovsdb.RowUpdate2{Insert: fullWire(st2[u])}
						}
						_ = tc.Populate2(ovsdb.TableUpdates2{"T": tu})
						applied := 0
						for _, u := range fresh {
							if tc.Table("T").Row(u) != nil {
								st[u] = st2[u]
								applied++
							}
						}
						expectedEvents += applied
						r.Count("rows_applied_before_a_failing_row", applied)
					}
				}
			case 4:
				// RFC 'update' with old and new for a row the cache does not hold (a monitor
				// whose set-up failed after the server had registered it keeps notifying)
				used["fail:v1-modify-of-unknown-row"] = true
				func() {
					defer func() {
						if pv := recover(); pv != nil {
							r.Violation("C14/inapplicable-notification-panics/v1-modify-of-unknown-row/"+ev.PanicSignature(fmt.Sprint(pv), string(debug.Stack())), fmt.Sprintf("Populate panics on an RFC 'update' modifying a row the cache does not hold: %v", pv), nil)
						}
					}()
					_ = tc.Populate(ovsdb.TableUpdates{"T": {p.UUID(): &ovsdb.RowUpdate{Old: fullWire(c.randRow(p)), New: fullWire(c.randRow(p))}}})
				}()
			case 0:
				if len(us) > 0 {
					used["fail:insert-of-cached-uuid"] = true
					u := us[p.Intn(len(us))]
					_ = tc.Populate2(ovsdb.TableUpdates2{"T": {u: &ovsdb.RowUpdate2{Insert: fullWire(c.randRow(p))}}})
				}
			case 1:
				used["fail:modify-of-unknown-row"] = true
				mod := ovsdb.Row{"label": "zzz"}
				_ = tc.Populate2(ovsdb.TableUpdates2{"T": {p.UUID(): &ovsdb.RowUpdate2{Modify: toWire(mod)}}})
			case 2:
				used["fail:v1-delete-of-unknown-row"] = true
				_ = tc.Populate(ovsdb.TableUpdates{"T": {p.UUID(): &ovsdb.RowUpdate{Old: fullWire(c.randRow(p))}}})
			default:
				used["fail:delete2-of-unknown-row"] = true
				_ = tc.Populate2(ovsdb.TableUpdates2{"T": {p.UUID(): &ovsdb.RowUpdate2{Delete: &ovsdb.Row{}}}})
			}
		}
	}
	if gated {
		gated = false
		hs[0].gate.Unlock()
	}
	// quiescence: a sentinel row reaches every handler
	sentinel := p.UUID()
	srow := c.randRow(p)
	srow["name"] = ref.Set(ref.Str("sentinel-" + sentinel[:8]))
	srow["k2"] = ref.Set(ref.Int(999999))
	if err := tc.Populate2(ovsdb.TableUpdates2{"T": {sentinel: &ovsdb.RowUpdate2{Insert: fullWire(srow)}}}); err != nil {
		r.Inconclusive("sentinel rejected: " + err.Error())
		return
	}
	st[sentinel] = srow
	seenAll := false
	lastTotal, still := -1, 0
	for i := 0; i < 100000 && !seenAll; i++ {
		seenAll = true
		total, some := 0, false
		for _, h := range hs {
			l := h.snapshot()
			total += len(l)
			if len(l) == 0 || l[len(l)-1].UUID != sentinel {
				seenAll = false
			} else {
				some = true
			}
		}
		if !seenAll {
			// decided logically: a handler holds the last event and no handler has received
			// anything for 5000 polls (the dispatcher delivers each event to all handlers
			// before the next one, so nothing more is coming)
			if total == lastTotal {
				still++
			} else {
				lastTotal, still = total, 0
			}
			if some && still > 5000 {
				break
			}
			sleepShort()
		}
	}
	if !seenAll {
		// Some handlers got the last event of the history and others did not, although the
		// dispatcher has had 20 s without load: the handlers do not see the same sequence.
		// (No handler at all having it is a stalled dispatcher: inconclusive.)
		got, missing := 0, 0
		var lens []int
		for _, h := range hs {
			l := h.snapshot()
			lens = append(lens, len(l))
			if len(l) > 0 && l[len(l)-1].UUID == sentinel {
				got++
			} else {
				missing++
			}
		}
		if got > 0 && missing > 0 {
			r.Eval(1)
			r.Violation("C14/handlers-disagree/event-never-delivered-to-some-handlers", fmt.Sprintf("%d of %d handlers never received the last event of the history (events per handler: %v)", missing, len(hs), lens), map[string]interface{}{"events_per_handler": lens})
			return
		}
		r.Inconclusive("the sentinel event did not reach any handler (dispatcher stalled?)")
		return
	}
	r.Eval(1)
	var ul []string
	for k := range used {
		ul = append(ul, k)
	}
	sort.Strings(ul)
	r.Distinct(c.desc() + "|" + strings.Join(ul, ",") + fmt.Sprintf("|h=%d", nh))
	for _, k := range ul {
		r.SetAdd("history_features", k)
	}
	logs := make([][]evRec, nh)
	for i, h := range hs {
		logs[i] = h.snapshot()
	}
	r.Count("events_observed", len(logs[0]))
	wit := func(extra string) map[string]interface{} {
		n := len(logs[0])
		from := 0
		if n > 30 {
			from = n - 30
		}
		return map[string]interface{}{"config": c.desc(), "handlers": nh, "features": ul, "detail": extra, "log_tail": logs[0][from:]}
	}
	// all handlers identical
	for i := 1; i < nh; i++ {
		if fmt.Sprint(logs[i]) != fmt.Sprint(logs[0]) {
			r.Violation("C14/handlers-disagree", fmt.Sprintf("handler %d and handler 0 hold different logs (%d vs %d events)", i, len(logs[i]), len(logs[0])), wit(""))
			return
		}
	}
	bad, final := replayEpochs(logs[0], marks, expected)
	if len(bad) > 0 {
		cls := "illegal-sequence"
		switch {
		case strings.Contains(bad[0], "never delivered"):
			cls = "events-queued-at-purge-never-delivered"
		case strings.Contains(bad[0], "before it"):
			cls = "replay-differs-from-cache-before-purge"
		case strings.Contains(bad[0], "already exists"):
			cls = "add-for-existing-row"
		case strings.Contains(bad[0], "does not hold"):
			cls = "event-for-unknown-row"
		case strings.Contains(bad[0], "previous state"):
			cls = "old-is-not-previous-state"
		case strings.Contains(bad[0], "identical old and new"):
			cls = "update-without-change"
		}
		r.Violation("C14/log/"+cls, "the event log is not a legal change log: "+bad[0], wit(strings.Join(bad, "; ")))
		return
	}
	rows, err := c.m.SnapshotRows("T", tc.Table("T").Rows())
	if err != nil {
		r.Violation("C14/cache-unreadable", err.Error(), nil)
		return
	}
	cacheState := map[string]string{}
	for u, row := range rows {
		cacheState[u] = row.String()
	}
	if fmt.Sprint(sortedMap(final)) != fmt.Sprint(sortedMap(cacheState)) {
		r.Violation("C14/replay-differs-from-cache", "replaying the event log onto empty tables does not reproduce the cache contents", wit(fmt.Sprintf("replay=%v cache=%v", sortedMap(final), sortedMap(cacheState))))
		return
	}
	want := map[string]string{}
	for u, row := range st {
		want[u] = row.String()
	}
	if fmt.Sprint(sortedMap(want)) != fmt.Sprint(sortedMap(cacheState)) {
		r.Violation("C14/cache-differs-from-history", "the cache does not hold the state the notification history leads to", wit(""))
	}
	if r.NeedSample() {
		n := len(logs[0])
		if n > 6 {
			n = 6
		}
		r.Sample(map[string]interface{}{"config": c.desc(), "handlers": nh, "features": ul, "first_events": logs[0][:n], "events": len(logs[0])})
	}
}

func sortedMap(m map[string]string) []string {
	var l []string
	for k, v := range m {
		l = append(l, k+"="+v)
	}
	sort.Strings(l)
	return l
}

func c14Child(r *ev.Run, batch int) {
	n := r.N(25, 640)
	for hi := 0; hi < n; hi++ {
		p := prng.Derive(r.Seed, "C14", batch, hi)
		r.LogCase(fmt.Sprintf("C14 batch=%d history=%d", batch, hi))
		c14History(r, p, batch, hi)
		if r.HasViolation("C14/handlers-disagree/event-never-delivered-to-some-handlers") {
			return // every further history would wait for the same lost events
		}
	}
}
