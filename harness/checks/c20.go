package checks

// C20 — models generated from a schema fit that schema and behave like generic
// models. For generated schemas x {extended on/off} x {enum types on/off} the
// generator of the tree under test is run (library API twice in-process, the
// cmd/modelgen binary twice in separate processes): outputs must be identical.
// The packages are written into a scratch module (replace => the tree), built
// together with a generic driver program, and the driver — the monitor — loads
// every generated model: NewDatabaseModel(Schema(), FullDatabaseModel()) must
// validate, every field must have the native type computed independently from
// the schema, and for extended models DeepCopy / Equals / CloneModel /
// EqualsModel are compared with reflect.DeepEqual, model.Clone and model.Equal
// over generated values, mutate-and-compare and one-field perturbations.

import (
	"bytes"
	"encoding/json"
	"fmt"
	"os"
	"os/exec"
	"path/filepath"
	"regexp"
	"sort"
	"strings"
	"time"

	"github.com/ovn-org/libovsdb/modelgen"
	"github.com/ovn-org/libovsdb/ovsdb"
	"verifharness/internal/dyn"
	"verifharness/internal/ev"
	"verifharness/internal/prng"
	"verifharness/internal/tspace"
)

func init() { Register("C20", c20Parent, c20Child) }

func c20Parent(r *ev.Run) {
	r.Rule = "generated schema (whole type space, enum columns of string/integer/real as scalar/optional/set, table and column names with underscores, initialisms, mixed case, doubled and trailing underscores) x {extended generation on/off} x {enum types on/off}; per configuration: generate twice in-process and twice with the cmd/modelgen binary, build, validate, type-check every field, and for extended models check the copy/equality laws on generated values; distinct = (schema shape, configuration)"
	r.Assume("column and table names are distinct after the generator's name mangling (two columns that map to one Go field name, or a column called uuid, are outside the generated space)")
	r.Assume("enum members are strings made of letters, digits, '-' and '_' starting with a letter, or integers / reals; string members that cannot be turned into a Go identifier (empty, spaces, dots) are generated at a low rate and reported under their own signature")
	r.RunBatches(ev.BatchOpts{N: r.N(6, 24), Timeout: 40 * time.Minute, Parallel: 6})
}

var c20TableNames = []string{"Bridge", "Logical_Switch_Port", "acl", "QoS", "NB_Global", "dns", "Port_Binding", "SSL", "x_y_z", "IPFIX_config", "Flow_Sample_Collector_Set", "ct_zone"}
var c20ColNames = []string{"name", "external_ids", "other_config", "dns_ip", "qos_max_rate", "acl_id", "uuid_name", "ip", "ipv6_ra_configs", "tcp_flags", "up", "type", "Mixed_Case", "with__double", "trailing_", "lb_vips", "mtu", "n_conf", "options", "ssl", "ids", "vlans", "bfd_status", "icmp4_type", "stp_enable", "cvlans", "macs", "dscp", "a", "snat_ip"}

// c20Schema generates a schema over the whole type space and renames its
// tables and columns from the pools above.
func c20Schema(p *prng.R) (*tspace.Schema, string) {
	o := tspace.Full(1 + p.Intn(4))
	o.OddMapKeys = true
	o.MaxCols = 7
	s := tspace.Gen(p, o)
	tperm := p.Perm(len(c20TableNames))
	tmap := map[string]string{}
	for i, t := range s.Tables {
		tmap[t.Name] = c20TableNames[tperm[i]]
	}
	hostile := ""
	for _, t := range s.Tables {
		cperm := p.Perm(len(c20ColNames))
		cmap := map[string]string{}
		for i, c := range t.Cols {
			cmap[c.Name] = c20ColNames[cperm[i%len(cperm)]]
		}
		for _, c := range t.Cols {
			c.Name = cmap[c.Name]
			if c.Val != nil {
				// enumerated map keys and values
				if c.Key.Type == "string" && len(c.Key.Enum) == 0 && c.Key.RefTable == "" && p.Chance(1, 5) {
					c.Key.Enum = []interface{}{"key-a", "key_b", "c"}
				}
				if (c.Val.Type == "string" || c.Val.Type == "integer") && len(c.Val.Enum) == 0 && c.Val.RefTable == "" && p.Chance(1, 5) {
					if c.Val.Type == "string" {
						c.Val.Enum = []interface{}{"on", "off", "auto-neg"}
					} else {
						c.Val.Enum = []interface{}{0, 1, 7}
					}
				}
				// bounded maps, down to "at most one pair" (still a map, never a pointer)
				switch p.Intn(6) {
				case 0, 1:
					c.Min, c.Max = 0, 1
				case 2:
					c.Min, c.Max = 0, 2+p.Intn(3)
				}
			}
			for _, b := range []*tspace.Base{&c.Key, c.Val} {
				if b == nil {
					continue
				}
				if b.RefTable != "" {
					b.RefTable = tmap[b.RefTable]
				}
				if len(b.Enum) > 0 && b.Type == "integer" && p.Chance(1, 2) {
					// numbers and their opposites: the constant names must stay distinct
					b.Enum = [][]interface{}{{-1, 0, 1}, {-5, 5, 10, -10}}[p.Intn(2)]
				}
				if len(b.Enum) > 0 && b.Type == "real" && p.Chance(1, 2) {
					b.Enum = [][]interface{}{{-0.5, 0.5, 1.5}, {-2.5, 0.0, 2.5}}[p.Intn(2)]
				}
				if len(b.Enum) > 0 && b.Type == "string" {
					switch x := p.Intn(12); {
					case x == 0:
						b.Enum = []interface{}{"", "up", "a b"}
						hostile = "empty-or-space"
					case x == 1:
						b.Enum = []interface{}{"802.1q", "802.1ad"}
						hostile = "digit-or-dot"
					case x < 6:
						b.Enum = []interface{}{"access", "native-tagged", "dot1q-tunnel", "in_band"}
					default:
						b.Enum = []interface{}{"up", "down", "from-lport"}
					}
				}
			}
		}
		for i, idx := range t.Indexes {
			for j, cn := range idx {
				t.Indexes[i][j] = cmap[cn]
			}
		}
		t.Name = tmap[t.Name]
	}
	return s, hostile
}

type c20cfg struct{ ext, enums bool }

func (c c20cfg) String() string { return fmt.Sprintf("extended=%v,enumtypes=%v", c.ext, c.enums) }

// c20Generate mirrors cmd/modelgen's main with the library API.
func c20Generate(pkg string, schema ovsdb.DatabaseSchema, cfg c20cfg) (files map[string][]byte, err error) {
	defer func() {
		if p := recover(); p != nil {
			err = fmt.Errorf("panic: %v", p)
		}
	}()
	gen, err := modelgen.NewGenerator(modelgen.WithDryRun())
	if err != nil {
		return nil, err
	}
	files = map[string][]byte{}
	for name, table := range schema.Tables {
		tbl := table
		tmpl := modelgen.NewTableTemplate()
		args := modelgen.GetTableTemplateData(pkg, name, &tbl)
		args.WithExtendedGen(cfg.ext)
		args.WithEnumTypes(cfg.enums)
		b, err := gen.Format(tmpl, args)
		if err != nil {
			return nil, fmt.Errorf("%v (table %s)", err, name)
		}
		files[modelgen.FileName(name)] = b
	}
	b, err := gen.Format(modelgen.NewDBTemplate(), modelgen.GetDBTemplateData(pkg, schema))
	if err != nil {
		return nil, fmt.Errorf("model.go: %v", err)
	}
	files["model.go"] = b
	return files, nil
}

func c20Run(dir string, timeout time.Duration, name string, args ...string) (string, error) {
	cmd := exec.Command(name, args...)
	cmd.Dir = dir
	cmd.Env = append(os.Environ(), "GOFLAGS=-mod=mod", "GOPROXY=off", "GOSUMDB=off", "GOTOOLCHAIN=local")
	var out bytes.Buffer
	cmd.Stdout, cmd.Stderr = &out, &out
	if err := cmd.Start(); err != nil {
		return "", err
	}
	done := make(chan error, 1)
	go func() { done <- cmd.Wait() }()
	select {
	case err := <-done:
		return out.String(), err
	case <-time.After(timeout):
		_ = cmd.Process.Kill()
		return out.String(), fmt.Errorf("timeout after %s", timeout)
	}
}

func readDir(dir string) map[string][]byte {
	out := map[string][]byte{}
	es, _ := os.ReadDir(dir)
	for _, e := range es {
		if b, err := os.ReadFile(filepath.Join(dir, e.Name())); err == nil {
			out[e.Name()] = b
		}
	}
	return out
}

func sameFiles(a, b map[string][]byte) string {
	var names []string
	for n := range a {
		names = append(names, n)
	}
	for n := range b {
		if _, ok := a[n]; !ok {
			names = append(names, n)
		}
	}
	sort.Strings(names)
	for _, n := range names {
		x, okx := a[n]
		y, oky := b[n]
		if !okx || !oky {
			return "file " + n + " exists in one output only"
		}
		if !bytes.Equal(x, y) {
			xl, yl := strings.Split(string(x), "\n"), strings.Split(string(y), "\n")
			for i := 0; i < len(xl) && i < len(yl); i++ {
				if xl[i] != yl[i] {
					return fmt.Sprintf("file %s line %d: %q vs %q", n, i+1, xl[i], yl[i])
				}
			}
			return "file " + n + " differs in length"
		}
	}
	return ""
}

var c20NumRe = regexp.MustCompile(`[0-9]+`)
var c20QuoteRe = regexp.MustCompile(`"[^"]*"|'[^']*'`)

func c20ErrClass(msg string) string {
	m := c20QuoteRe.ReplaceAllString(msg, "Q")
	m = c20NumRe.ReplaceAllString(m, "N")
	m = strings.Map(func(r rune) rune {
		if r == ' ' || r == '-' || r == '_' || (r >= 'a' && r <= 'z') || (r >= 'A' && r <= 'Z') {
			return r
		}
		return -1
	}, m)
	f := strings.Fields(m)
	if len(f) > 9 {
		f = f[:9]
	}
	return strings.Join(f, "-")
}

type c20pkg struct {
	Name     string                       `json:"name"`
	Extended bool                         `json:"extended"`
	Enums    bool                         `json:"enums"`
	Types    map[string]map[string]string `json:"types"` // table -> column -> native type
	Shape    string                       `json:"shape"`
	hostile  string
	schema   string
}

func c20Child(r *ev.Run, batch int) {
	repo := os.Getenv("VERIF_REPO")
	if repo == "" {
		repo = "/repo"
	}
	scratch, err := os.MkdirTemp(wireScratch(), fmt.Sprintf("c20-%d-", batch))
	if err != nil {
		r.Inconclusive("scratch: " + err.Error())
		return
	}
	defer os.RemoveAll(scratch)
	gomod := fmt.Sprintf("module c20scratch\n\ngo 1.21\n\nrequire github.com/ovn-org/libovsdb v0.0.0\n\nreplace github.com/ovn-org/libovsdb => %s\n", repo)
	_ = os.WriteFile(filepath.Join(scratch, "go.mod"), []byte(gomod), 0644)
	if b, err := os.ReadFile(filepath.Join(ev.Root(), "harness", "go.sum")); err == nil {
		_ = os.WriteFile(filepath.Join(scratch, "go.sum"), b, 0644)
	}
	// the generator binary of the tree under test
	bin := filepath.Join(scratch, "modelgen.bin")
	if out, err := c20Run(scratch, 10*time.Minute, "go", "build", "-o", bin, "github.com/ovn-org/libovsdb/cmd/modelgen"); err != nil {
		r.Violation("C20/modelgen-binary-does-not-build/"+c20ErrClass(out), "cmd/modelgen does not build: "+truncate(out, 2000), nil)
		return
	}
	nSchemas := 6
	if !r.Quick() {
		nSchemas = 20
	}
	cfgs := []c20cfg{{false, false}, {false, true}, {true, false}, {true, true}}
	var pkgs []*c20pkg
	for si := 0; si < nSchemas; si++ {
		p := prng.Derive(ev.Seed(), "C20", batch, si)
		s, hostile := c20Schema(p)
		sj := s.JSON()
		var ovs ovsdb.DatabaseSchema
		if err := json.Unmarshal(sj, &ovs); err != nil {
			r.Violation("C20/schema-undecodable/"+c20ErrClass(err.Error()), "generated schema is rejected by the library: "+err.Error(), map[string]interface{}{"schema": json.RawMessage(sj)})
			continue
		}
		schemaFile := filepath.Join(scratch, fmt.Sprintf("schema%d.json", si))
		_ = os.WriteFile(schemaFile, sj, 0644)
		types := map[string]map[string]string{}
		kinds := map[string]bool{}
		for _, t := range s.Tables {
			types[t.Name] = map[string]string{"_uuid": "string"}
			for _, c := range t.Cols {
				types[t.Name][c.Name] = dyn.GoType(c).String()
				k := c.Kind() + ":" + c.Key.Type
				if len(c.Key.Enum) > 0 {
					k += ":enum"
				}
				kinds[k] = true
			}
		}
		var kl []string
		for k := range kinds {
			kl = append(kl, k)
		}
		sort.Strings(kl)
		shape := fmt.Sprintf("tables=%d|%s", len(s.Tables), strings.Join(kl, ","))
		for ci, cfg := range cfgs {
			pkg := fmt.Sprintf("m%d_%d", si, ci)
			r.LogCase(fmt.Sprintf("C20 batch=%d schema=%d cfg=%s schema=%s", batch, si, cfg, sj))
			r.Eval(1)
			wit := map[string]interface{}{"schema": json.RawMessage(sj), "configuration": cfg.String()}
			pfx := "C20"
			if hostile != "" && cfg.enums {
				pfx = "C20/enum-member-not-an-identifier(" + hostile + ")"
			}
			files, err := c20Generate(pkg, ovs, cfg)
			if err != nil {
				r.Violation(fmt.Sprintf("%s/generate/%s/%s", pfx, cfg, c20ErrClass(err.Error())), "the generator fails on a valid schema: "+err.Error(), wit)
				continue
			}
			// determinism in-process (map iteration order differs from call to call)
			for k := 0; k < 2; k++ {
				again, err := c20Generate(pkg, ovs, cfg)
				if err != nil {
					r.Violation(fmt.Sprintf("%s/generate-second-time/%s/%s", pfx, cfg, c20ErrClass(err.Error())), "the generator fails the second time only: "+err.Error(), wit)
					break
				}
				if d := sameFiles(files, again); d != "" {
					r.Violation(fmt.Sprintf("C20/not-deterministic/library/%s", cfg), "two runs of the generator on one schema differ: "+d, wit)
					break
				}
			}
			// the binary (enum types are always on there)
			if cfg.enums {
				var outs []map[string][]byte
				for k := 0; k < 2; k++ {
					od := filepath.Join(scratch, fmt.Sprintf("bin-%s-%d", pkg, k))
					args := []string{"-p", pkg, "-o", od}
					if cfg.ext {
						args = append(args, "-extended")
					}
					args = append(args, schemaFile)
					if out, err := c20Run(scratch, 2*time.Minute, bin, args...); err != nil {
						r.Violation(fmt.Sprintf("%s/generate-binary/%s/%s", pfx, cfg, c20ErrClass(out)), "cmd/modelgen fails on a valid schema: "+truncate(out, 1500), wit)
						outs = nil
						break
					}
					outs = append(outs, readDir(od))
					_ = os.RemoveAll(od)
				}
				if len(outs) == 2 {
					if d := sameFiles(outs[0], outs[1]); d != "" {
						r.Violation(fmt.Sprintf("C20/not-deterministic/binary/%s", cfg), "two runs of cmd/modelgen on one schema differ: "+d, wit)
					} else if d := sameFiles(files, outs[0]); d != "" {
						r.Violation(fmt.Sprintf("C20/binary-differs-from-library/%s", cfg), "cmd/modelgen and the library API generate different code: "+d, wit)
					}
					r.Count("binary-runs-compared", 2)
					// regeneration: the output directory already holds the files of another
					// configuration (users re-run the generator in place after changing flags or
					// the schema); what ends up there must be what a fresh generation gives
					od := filepath.Join(scratch, fmt.Sprintf("bin-%s-again", pkg))
					first := []string{"-p", pkg, "-o", od}
					if !cfg.ext {
						first = append(first, "-extended")
					}
					second := []string{"-p", pkg, "-o", od}
					if cfg.ext {
						second = append(second, "-extended")
					}
					_, err1 := c20Run(scratch, 2*time.Minute, bin, append(first, schemaFile)...)
					out2, err2 := c20Run(scratch, 2*time.Minute, bin, append(second, schemaFile)...)
					if err1 == nil && err2 != nil {
						r.Violation(fmt.Sprintf("%s/regenerate-binary/%s/%s", pfx, cfg, c20ErrClass(out2)), "cmd/modelgen fails when its output directory holds an earlier generation: "+truncate(out2, 1500), wit)
					} else if err1 == nil {
						if d := sameFiles(outs[0], readDir(od)); d != "" {
							r.Violation(fmt.Sprintf("C20/regeneration-differs-from-fresh-generation/%s", cfg), "generating into a directory that holds the output of another configuration does not give what a fresh generation gives: "+d, wit)
						}
						r.Count("regenerations-compared", 1)
					}
					_ = os.RemoveAll(od)
				}
			}
			pd := filepath.Join(scratch, pkg)
			_ = os.MkdirAll(pd, 0755)
			for n, b := range files {
				_ = os.WriteFile(filepath.Join(pd, n), b, 0644)
			}
			pkgs = append(pkgs, &c20pkg{Name: pkg, Extended: cfg.ext, Enums: cfg.enums, Types: types, Shape: shape, hostile: hostile, schema: string(sj)})
			r.Count("packages-generated", 1)
		}
	}
	// build everything with the driver; packages that do not compile are reported and dropped
	bad := map[string]bool{}
	driver := filepath.Join(scratch, "driver.bin")
	for round := 0; round < 6; round++ {
		var live []*c20pkg
		for _, pk := range pkgs {
			if !bad[pk.Name] {
				live = append(live, pk)
			}
		}
		if len(live) == 0 {
			return
		}
		var imp, tab strings.Builder
		for _, pk := range live {
			fmt.Fprintf(&imp, "\t%s \"c20scratch/%s\"\n", pk.Name, pk.Name)
			fmt.Fprintf(&tab, "\t{%q, %s.FullDatabaseModel, %s.Schema, %v},\n", pk.Name, pk.Name, pk.Name, pk.Extended)
		}
		src := strings.Replace(strings.Replace(c20DriverSrc, "//IMPORTS", imp.String(), 1), "//TABLE", tab.String(), 1)
		_ = os.WriteFile(filepath.Join(scratch, "main.go"), []byte(src), 0644)
		out, err := c20Run(scratch, 20*time.Minute, "go", "build", "-o", driver, ".")
		if err == nil {
			break
		}
		progress := false
		for _, ln := range strings.Split(out, "\n") {
			for _, pk := range live {
				if strings.HasPrefix(ln, pk.Name+"/") || strings.HasPrefix(ln, "./"+pk.Name+"/") {
					if !bad[pk.Name] {
						bad[pk.Name] = true
						progress = true
						msg := ln
						if i := strings.Index(ln, ": "); i > 0 {
							msg = ln[i+2:]
						}
						cfg := c20cfg{pk.Extended, pk.Enums}
						pfx := "C20"
						if pk.hostile != "" && pk.Enums {
							pfx = "C20/enum-member-not-an-identifier(" + pk.hostile + ")"
						}
						r.Violation(fmt.Sprintf("%s/does-not-compile/%s/%s", pfx, cfg, c20ErrClass(msg)), "generated code does not compile: "+ln,
							map[string]interface{}{"schema": json.RawMessage(pk.schema), "configuration": cfg.String(), "compiler_output": truncate(out, 3000)})
					}
				}
			}
		}
		if !progress {
			r.Violation("C20/driver-does-not-build/"+c20ErrClass(out), "the generated packages do not build with the driver: "+truncate(out, 3000), nil)
			return
		}
	}
	if !r.Quick() && batch == 0 {
		if out, err := c20Run(scratch, 20*time.Minute, "go", "vet", "./..."); err != nil {
			r.Violation("C20/go-vet/"+c20ErrClass(out), "go vet complains about generated code: "+truncate(out, 3000), nil)
		}
		r.Count("go-vet-runs", 1)
	}
	var live []*c20pkg
	for _, pk := range pkgs {
		if !bad[pk.Name] {
			live = append(live, pk)
		}
	}
	ej, _ := json.Marshal(live)
	expFile := filepath.Join(scratch, "expect.json")
	_ = os.WriteFile(expFile, ej, 0644)
	out, err := c20Run(scratch, 5*time.Minute, driver, expFile, fmt.Sprint(ev.Seed()*1000+int64(batch)))
	if err != nil {
		r.Violation("C20/driver-crashed/"+ev.PanicSignature(out, out), "the program exercising the generated models died: "+truncate(out, 4000), nil)
		return
	}
	byName := map[string]*c20pkg{}
	for _, pk := range live {
		byName[pk.Name] = pk
	}
	for _, ln := range strings.Split(out, "\n") {
		if !strings.HasPrefix(ln, "{") {
			continue
		}
		var res struct {
			Pkg      string            `json:"pkg"`
			Findings [][2]string       `json:"findings"`
			Counts   map[string]int    `json:"counts"`
			Sample   map[string]string `json:"sample"`
		}
		if json.Unmarshal([]byte(ln), &res) != nil {
			continue
		}
		pk := byName[res.Pkg]
		if pk == nil {
			continue
		}
		cfg := c20cfg{pk.Extended, pk.Enums}
		r.Distinct(pk.Shape + "|" + cfg.String())
		for _, f := range res.Findings {
			r.Violation("C20/"+f[0], f[1]+" ("+cfg.String()+")", map[string]interface{}{"schema": json.RawMessage(pk.schema), "configuration": cfg.String(), "package": pk.Name})
		}
		for k, n := range res.Counts {
			r.Count(k, n)
		}
		if r.NeedSample() && len(res.Sample) > 0 {
			r.Sample(map[string]interface{}{"configuration": cfg.String(), "schema_shape": pk.Shape, "observed": res.Sample})
		}
	}
}

// c20DriverSrc is the monitor compiled together with the generated packages.
const c20DriverSrc = `package main

import (
	"encoding/json"
	"fmt"
	"math/rand"
	"os"
	"reflect"
	"sort"
	"strconv"
	"strings"

	"github.com/ovn-org/libovsdb/model"
	"github.com/ovn-org/libovsdb/ovsdb"
//IMPORTS
)

type entry struct {
	Name     string
	Full     func() (model.ClientDBModel, error)
	Schema   func() ovsdb.DatabaseSchema
	Extended bool
}

var entries = []entry{
//TABLE
}

type expect struct {
	Name     string                       ` + "`json:\"name\"`" + `
	Extended bool                         ` + "`json:\"extended\"`" + `
	Types    map[string]map[string]string ` + "`json:\"types\"`" + `
}

type result struct {
	Pkg      string            ` + "`json:\"pkg\"`" + `
	Findings [][2]string       ` + "`json:\"findings\"`" + `
	Counts   map[string]int    ` + "`json:\"counts\"`" + `
	Sample   map[string]string ` + "`json:\"sample\"`" + `
}

func (r *result) bad(sig, what string) {
	for _, f := range r.Findings {
		if f[0] == sig {
			return
		}
	}
	r.Findings = append(r.Findings, [2]string{sig, what})
}

// native renders a type by its underlying kinds (named enum types resolved).
func native(t reflect.Type) string {
	switch t.Kind() {
	case reflect.Ptr:
		return "*" + native(t.Elem())
	case reflect.Slice:
		return "[]" + native(t.Elem())
	case reflect.Map:
		return "map[" + native(t.Key()) + "]" + native(t.Elem())
	case reflect.String:
		return "string"
	case reflect.Int:
		return "int"
	case reflect.Float64:
		return "float64"
	case reflect.Bool:
		return "bool"
	}
	return t.String()
}

var strs = []string{"", "a", "b", "up"}

func atom(rng *rand.Rand, t reflect.Type) reflect.Value {
	v := reflect.New(t).Elem()
	switch t.Kind() {
	case reflect.String:
		v.SetString(strs[rng.Intn(len(strs))])
	case reflect.Int:
		v.SetInt(int64(rng.Intn(3)))
	case reflect.Float64:
		v.SetFloat(float64(rng.Intn(3)) / 2)
	case reflect.Bool:
		v.SetBool(rng.Intn(2) == 0)
	}
	return v
}

func fill(rng *rand.Rand, v reflect.Value) {
	t := v.Type()
	switch t.Kind() {
	case reflect.Ptr:
		switch rng.Intn(3) {
		case 0:
			v.Set(reflect.Zero(t))
		default:
			p := reflect.New(t.Elem())
			p.Elem().Set(atom(rng, t.Elem()))
			v.Set(p)
		}
	case reflect.Slice:
		switch n := rng.Intn(5); n {
		case 0:
			v.Set(reflect.Zero(t))
		case 1:
			v.Set(reflect.MakeSlice(t, 0, 2))
		default:
			s := reflect.MakeSlice(t, 0, n+1) // spare capacity on purpose
			for i := 0; i < n-1; i++ {
				s = reflect.Append(s, atom(rng, t.Elem()))
			}
			v.Set(s)
		}
	case reflect.Map:
		switch n := rng.Intn(5); n {
		case 0:
			v.Set(reflect.Zero(t))
		case 1:
			v.Set(reflect.MakeMap(t))
		default:
			m := reflect.MakeMap(t)
			for i := 0; i < n-1; i++ {
				m.SetMapIndex(atom(rng, t.Key()), atom(rng, t.Elem()))
			}
			v.Set(m)
		}
	default:
		v.Set(atom(rng, t))
	}
}

func fillStruct(rng *rand.Rand, p reflect.Value) {
	s := p.Elem()
	for i := 0; i < s.NumField(); i++ {
		if s.Type().Field(i).Tag.Get("ovsdb") == "" {
			continue
		}
		fill(rng, s.Field(i))
	}
}

// deep is an independent deep copy.
func deep(v reflect.Value) reflect.Value {
	t := v.Type()
	switch t.Kind() {
	case reflect.Ptr:
		if v.IsNil() {
			return reflect.Zero(t)
		}
		p := reflect.New(t.Elem())
		p.Elem().Set(deep(v.Elem()))
		return p
	case reflect.Slice:
		if v.IsNil() {
			return reflect.Zero(t)
		}
		s := reflect.MakeSlice(t, v.Len(), v.Len())
		for i := 0; i < v.Len(); i++ {
			s.Index(i).Set(deep(v.Index(i)))
		}
		return s
	case reflect.Map:
		if v.IsNil() {
			return reflect.Zero(t)
		}
		m := reflect.MakeMap(t)
		for _, k := range v.MapKeys() {
			m.SetMapIndex(k, deep(v.MapIndex(k)))
		}
		return m
	case reflect.Struct:
		s := reflect.New(t).Elem()
		for i := 0; i < t.NumField(); i++ {
			s.Field(i).Set(deep(v.Field(i)))
		}
		return s
	}
	return v
}

func other(v reflect.Value) reflect.Value {
	n := reflect.New(v.Type()).Elem()
	switch v.Kind() {
	case reflect.String:
		n.SetString(v.String() + "x")
	case reflect.Int:
		n.SetInt(v.Int() + 1)
	case reflect.Float64:
		n.SetFloat(v.Float() + 0.25)
	case reflect.Bool:
		n.SetBool(!v.Bool())
	}
	return n
}

// scribble changes everything reachable from v (in place where memory could be shared).
func scribble(v reflect.Value) {
	switch v.Kind() {
	case reflect.Ptr:
		if !v.IsNil() {
			v.Elem().Set(other(v.Elem()))
		}
	case reflect.Slice:
		for i := 0; i < v.Len(); i++ {
			v.Index(i).Set(other(v.Index(i)))
		}
		if v.Cap() > v.Len() { // spare capacity
			full := v.Slice(0, v.Cap())
			for i := v.Len(); i < v.Cap(); i++ {
				full.Index(i).Set(other(full.Index(i)))
			}
		}
	case reflect.Map:
		for _, k := range v.MapKeys() {
			v.SetMapIndex(k, other(v.MapIndex(k)))
		}
		if !v.IsNil() {
			v.SetMapIndex(other(reflect.New(v.Type().Key()).Elem()), reflect.New(v.Type().Elem()).Elem())
		}
	}
}

// perturbations returns variants of field value v that differ from it.
func perturbations(rng *rand.Rand, v reflect.Value) []reflect.Value {
	t := v.Type()
	var out []reflect.Value
	switch t.Kind() {
	case reflect.Ptr:
		if v.IsNil() {
			p := reflect.New(t.Elem()) // pointer to the zero value
			out = append(out, p)
		} else {
			out = append(out, reflect.Zero(t))
			p := reflect.New(t.Elem())
			p.Elem().Set(other(v.Elem()))
			out = append(out, p)
		}
	case reflect.Slice:
		if v.IsNil() {
			out = append(out, reflect.MakeSlice(t, 0, 0))
		} else if v.Len() == 0 {
			out = append(out, reflect.Zero(t))
		}
		s := deep(v)
		if s.IsNil() {
			s = reflect.MakeSlice(t, 0, 1)
		}
		out = append(out, reflect.Append(s, reflect.New(t.Elem()).Elem())) // one more (zero) element
		if v.Len() > 0 {
			c := deep(v)
			i := rng.Intn(v.Len())
			c.Index(i).Set(other(c.Index(i)))
			out = append(out, c)
			out = append(out, deep(v).Slice(0, v.Len()-1))
			out = append(out, v.Slice(0, v.Len()-1)) // a shorter view of the SAME array
		}
		if v.Len() > 1 && !reflect.DeepEqual(v.Index(0).Interface(), v.Index(1).Interface()) {
			c := deep(v)
			x := deep(c.Index(0))
			c.Index(0).Set(c.Index(1))
			c.Index(1).Set(x)
			out = append(out, c) // same elements, other order
		}
	case reflect.Map:
		if v.IsNil() {
			out = append(out, reflect.MakeMap(t))
		} else if v.Len() == 0 {
			out = append(out, reflect.Zero(t))
		}
		zero := reflect.New(t.Elem()).Elem()
		if v.Len() > 0 {
			ks := v.MapKeys()
			sort.Slice(ks, func(i, j int) bool { return fmt.Sprint(ks[i]) < fmt.Sprint(ks[j]) })
			k := ks[rng.Intn(len(ks))]
			c := deep(v)
			c.SetMapIndex(k, other(v.MapIndex(k)))
			out = append(out, c) // one value changed
			// same size, another key set; the new key holds the zero value and so
			// does (in a second variant) the key it replaces
			nk := other(k)
			for try := 0; try < 8 && v.MapIndex(nk).IsValid(); try++ {
				nk = other(nk)
			}
			if !v.MapIndex(nk).IsValid() { // boolean keys can be exhausted
				c2 := deep(v)
				c2.SetMapIndex(k, reflect.Value{})
				c2.SetMapIndex(nk, zero)
				out = append(out, c2)
			}
			c3 := deep(v)
			c3.SetMapIndex(k, zero)
			if !reflect.DeepEqual(c3.Interface(), v.Interface()) {
				out = append(out, c3)
			}
		}
		c := deep(v)
		if c.IsNil() {
			c = reflect.MakeMap(t)
		}
		nk := reflect.New(t.Key()).Elem()
		for try := 0; try < 8 && c.MapIndex(nk).IsValid(); try++ {
			nk = other(nk)
		}
		if !c.MapIndex(nk).IsValid() {
			c.SetMapIndex(nk, zero)
			out = append(out, c) // one more entry
		}
	default:
		out = append(out, other(v))
	}
	return out
}

func call(m reflect.Value, name string, args ...reflect.Value) (out []reflect.Value, err error) {
	defer func() {
		if p := recover(); p != nil {
			err = fmt.Errorf("panic in %s: %v", name, p)
		}
	}()
	f := m.MethodByName(name)
	if !f.IsValid() {
		return nil, fmt.Errorf("no method %s", name)
	}
	return f.Call(args), nil
}

func check(e entry, exp expect, seed int64) *result {
	res := &result{Pkg: e.Name, Counts: map[string]int{}, Sample: map[string]string{}}
	defer func() {
		if p := recover(); p != nil {
			res.bad("panic-in-generated-model-api", fmt.Sprint(p))
		}
	}()
	dbm, err := e.Full()
	if err != nil {
		res.bad("full-database-model-fails", err.Error())
		return res
	}
	schema := e.Schema()
	dm, errs := model.NewDatabaseModel(schema, dbm)
	if len(errs) > 0 {
		var l []string
		for _, er := range errs {
			l = append(l, er.Error())
		}
		res.bad("model-does-not-validate", "NewDatabaseModel(Schema(), FullDatabaseModel()) reports: "+strings.Join(l, "; "))
		return res
	}
	res.Counts["models-validated"]++
	types := dm.Types()
	if len(types) != len(exp.Types) {
		res.bad("table-count", fmt.Sprintf("model has %d tables, schema %d", len(types), len(exp.Types)))
	}
	rng := rand.New(rand.NewSource(seed))
	var tnames []string
	for tn := range types {
		tnames = append(tnames, tn)
	}
	sort.Strings(tnames)
	for _, tn := range tnames {
		pt := types[tn]
		st := pt
		if st.Kind() == reflect.Ptr {
			st = st.Elem()
		}
		want := exp.Types[tn]
		if want == nil {
			res.bad("table-not-in-schema", "model table "+tn+" is not a table of the schema")
			continue
		}
		seen := map[string]bool{}
		for i := 0; i < st.NumField(); i++ {
			f := st.Field(i)
			col := f.Tag.Get("ovsdb")
			if col == "" {
				continue
			}
			seen[col] = true
			res.Counts["fields-type-checked"]++
			if w, ok := want[col]; !ok {
				res.bad("field-for-unknown-column", fmt.Sprintf("%s.%s is tagged %q which is no column", tn, f.Name, col))
			} else if got := native(f.Type); got != w {
				res.bad("field-type/"+w+"-generated-as-"+got, fmt.Sprintf("%s.%s (column %s): generated type %s (%s), the mapper expects %s", tn, f.Name, col, f.Type, got, w))
			}
		}
		for col := range want {
			if !seen[col] {
				res.bad("column-without-field", fmt.Sprintf("table %s column %s has no field", tn, col))
			}
		}
		if !e.Extended {
			continue
		}
		// copy / equality laws
		for n := 0; n < 40; n++ {
			a := reflect.New(st)
			fillStruct(rng, a)
			snap := deep(a.Elem())
			out, err := call(a, "DeepCopy")
			if err != nil {
				res.bad("deepcopy-unusable", err.Error())
				break
			}
			c := out[0]
			res.Counts["copies-checked"]++
			if !reflect.DeepEqual(a.Interface(), c.Interface()) {
				res.bad("deepcopy-not-equal", fmt.Sprintf("%s: DeepCopy of %+v is %+v", tn, a.Elem().Interface(), c.Elem().Interface()))
			}
			if eq, err := call(a, "Equals", c); err != nil || !eq[0].Bool() {
				res.bad("copy-not-Equals", fmt.Sprintf("%s: a.Equals(a.DeepCopy()) is false for %+v (%v)", tn, a.Elem().Interface(), err))
			}
			if !model.Equal(a.Interface(), c.Interface()) {
				res.bad("copy-not-model.Equal", fmt.Sprintf("%s: model.Equal(a, a.DeepCopy()) is false for %+v", tn, a.Elem().Interface()))
			}
			g := model.Clone(a.Interface())
			if !reflect.DeepEqual(g, a.Interface()) {
				res.bad("model.Clone-not-equal", fmt.Sprintf("%s: model.Clone of %+v is %+v", tn, a.Elem().Interface(), reflect.ValueOf(g).Elem().Interface()))
			}
			// no shared memory: scribble over the copies, the source must not move
			for _, cp := range []reflect.Value{c, reflect.ValueOf(g)} {
				for i := 0; i < st.NumField(); i++ {
					if st.Field(i).Tag.Get("ovsdb") != "" {
						scribble(cp.Elem().Field(i))
					}
				}
			}
			if !reflect.DeepEqual(a.Elem().Interface(), snap.Interface()) {
				res.bad("copy-shares-memory", fmt.Sprintf("%s: changing a copy changed its source: was %+v, now %+v", tn, snap.Interface(), a.Elem().Interface()))
			}
			// one-field perturbations
			for i := 0; i < st.NumField(); i++ {
				if st.Field(i).Tag.Get("ovsdb") == "" {
					continue
				}
				for _, pv := range perturbations(rng, a.Elem().Field(i)) {
					b := reflect.New(st)
					b.Elem().Set(deep(a.Elem()))
					b.Elem().Field(i).Set(pv)
					wantEq := reflect.DeepEqual(a.Interface(), b.Interface())
					res.Counts["perturbed-pairs-compared"]++
					for _, dir := range [][2]reflect.Value{{a, b}, {b, a}} {
						eq, err := call(dir[0], "Equals", dir[1])
						if err != nil {
							res.bad("equals-unusable", err.Error())
							continue
						}
						if eq[0].Bool() != wantEq {
							res.bad("equals-wrong/"+native(st.Field(i).Type), fmt.Sprintf("%s field %s: Equals says %v for %+v and %+v, fields equal: %v", tn, st.Field(i).Name, eq[0].Bool(), dir[0].Elem().Field(i).Interface(), dir[1].Elem().Field(i).Interface(), wantEq))
						}
						if model.Equal(dir[0].Interface(), dir[1].Interface()) != wantEq {
							res.bad("model.Equal-wrong/"+native(st.Field(i).Type), fmt.Sprintf("%s field %s: model.Equal disagrees with field equality (%v) for %+v and %+v", tn, st.Field(i).Name, wantEq, dir[0].Elem().Field(i).Interface(), dir[1].Elem().Field(i).Interface()))
						}
					}
				}
			}
			// independent random pair from the same small pools
			b := reflect.New(st)
			fillStruct(rng, b)
			wantEq := reflect.DeepEqual(a.Interface(), b.Interface())
			if eq, err := call(a, "Equals", b); err == nil && eq[0].Bool() != wantEq {
				res.bad("equals-wrong/random-pair", fmt.Sprintf("%s: Equals says %v for %+v and %+v", tn, eq[0].Bool(), a.Elem().Interface(), b.Elem().Interface()))
			}
			res.Counts["random-pairs-compared"]++
			if wantEq {
				res.Counts["random-pairs-equal"]++
			}
			if n == 0 && len(res.Sample) < 3 {
				res.Sample[tn] = fmt.Sprintf("%+v", a.Elem().Interface())
			}
		}
	}
	return res
}

func main() {
	b, err := os.ReadFile(os.Args[1])
	if err != nil {
		panic(err)
	}
	var exps []expect
	if err := json.Unmarshal(b, &exps); err != nil {
		panic(err)
	}
	seed, _ := strconv.ParseInt(os.Args[2], 10, 64)
	byName := map[string]expect{}
	for _, e := range exps {
		byName[e.Name] = e
	}
	for i, e := range entries {
		res := check(e, byName[e.Name], seed+int64(i))
		j, _ := json.Marshal(res)
		fmt.Println(string(j))
	}
}
`
