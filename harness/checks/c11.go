package checks

// C11 — aggregating successive updates equals the single net update.
// Sequences (length 2-6) of insert/update/mutate/delete on one row are
// accumulated exactly as a transaction does (AddOperation per operation, Merge
// into the accumulated ModelUpdates, next operation sees the previous result).
// Oracle: the accumulated update against the reference execution of the same
// sequence: first old / last new, GetModel / GetRow, modify applied to the
// first old gives the last new, nothing left when the row ends as it began or
// is inserted and deleted, insert+changes = one insert of the final row,
// changes+delete = one delete of the original row.

import (
	"encoding/json"
	"fmt"
	"sort"
	"strings"

	"github.com/ovn-org/libovsdb/model"
	"github.com/ovn-org/libovsdb/ovsdb"
	"github.com/ovn-org/libovsdb/updates"
	"verifharness/internal/dyn"
	"verifharness/internal/ev"
	"verifharness/internal/prng"
	"verifharness/internal/ref"
	"verifharness/internal/tspace"
)

func init() { Register("C11", c11Parent, c11Child) }

func c11Parent(r *ev.Run) {
	r.Rule = "sequences of operations on one row; small scope enumerated completely: all triples (original, first change, second change) of ordered lists over a 3-element universe for sets of integer/string, all triples of maps over 3 keys x 2 values, optionals and atoms over 3 values (two updates in a row); plus random chains of length 2-6 mixing insert, update, mutate (insert/delete/arithmetic) and delete that restore columns and overlap on elements; distinct = (operation kinds, column kinds, canonical values)"
	r.Assume("each operation is applied to the result of the previous one, as database/transaction does")
	r.RunBatches(ev.BatchOpts{N: r.N(8, 32)})
}

// applyModifyRef applies an update2 modify row to a reference row.
func applyModifyRef(t *tspace.Table, row ref.Row, mod ovsdb.Row) (ref.Row, error) {
	out := row.Clone()
	for cn, v := range mod {
		c := t.Col(cn)
		if c == nil {
			return nil, fmt.Errorf("modify names unknown column %s", cn)
		}
		d, err := dyn.FromOvs(c, v)
		if err != nil {
			return nil, err
		}
		cur := out[cn]
		switch {
		case c.IsMap():
			for i, k := range d.K {
				if x, ok := cur.Get(k); ok && x == d.V[i] {
					cur = cur.Without(k)
				} else {
					cur = cur.WithPair(k, d.V[i])
				}
			}
		case c.IsSet():
			for _, k := range d.K {
				if cur.Has(k) {
					cur = cur.Without(k)
				} else {
					cur = cur.With(k)
				}
			}
		default:
			cur = d
		}
		out[cn] = cur
	}
	return out, nil
}

func fullRowFromOvs(m *dyn.Model, t *tspace.Table, r *ovsdb.Row) (ref.Row, error) {
	if r == nil {
		return nil, nil
	}
	got, err := m.RowFromOvs(t.Name, *r)
	if err != nil {
		return nil, err
	}
	out := ref.Row{}
	for _, c := range t.Cols {
		if d, ok := got[c.Name]; ok {
			out[c.Name] = d
		} else {
			out[c.Name] = ref.Default(c)
		}
	}
	return out, nil
}

type c11env struct {
	m *dyn.Model
	t *tspace.Table
}

// run accumulates ops on the library side and judges against the reference.
func (e *c11env) run(initial ref.Row, ops []ref.Op, nilEmpty bool) []finding {
	t := e.t
	var fs []finding
	pre := ref.NewDB(e.m.S)
	if initial != nil {
		pre.T["T"][c10UUID] = initial
	}
	out := pre.Transact(cloneOps(ops))
	if out.OutOfDom != "" || out.Failed() {
		return nil
	}
	final := out.Post.T["T"][c10UUID] // nil if deleted / never inserted
	wire, err := e.m.WireOps(ops)
	if err != nil {
		return nil
	}
	var cur model.Model
	var firstOld model.Model
	if initial != nil {
		src := initial
		if nilEmpty {
			// unset (nil) instead of empty, non-nil collections
			src = ref.Row{}
			for k, d := range initial {
				if d.Len() > 0 {
					src[k] = d
				}
			}
		}
		cur = e.m.NewModel("T", c10UUID, src)
		firstOld = deepCopyModel(cur)
	}
	acc := updates.ModelUpdates{}
	kinds := opKindsOf(ops)
	for i := range wire {
		op := wire[i]
		if op.Op != "insert" && cur == nil {
			continue // no row to operate on (where matches nothing)
		}
		u := updates.ModelUpdates{}
		if err := u.AddOperation(e.m.DB, "T", c10UUID, cur, &op); err != nil {
			return []finding{{"C11/accumulate/error/" + kinds, fmt.Sprintf("AddOperation %d (%s) failed: %v", i, op.Op, err)}}
		}
		if err := acc.Merge(e.m.DB, u); err != nil {
			return []finding{{"C11/accumulate/merge-error/" + kinds, fmt.Sprintf("Merge after operation %d (%s) failed: %v", i, op.Op, err)}}
		}
		// next operation sees the result of this one
		changed := false
		_ = u.ForEachModelUpdate("T", func(_ string, old, new model.Model) error {
			changed = true
			cur = new
			return nil
		})
		_ = changed
	}
	if firstOld != nil {
		// the caller's original model must not have been altered by the accumulation
		u0, r0, _ := e.m.RowOf("T", firstOld)
		_ = u0
		if !r0.Equal(initial) {
			fs = append(fs, finding{"C11/alters-first-old/" + kinds, "the original model was altered while accumulating"})
		}
	}
	same := (initial == nil && final == nil) || (initial != nil && final != nil && initial.Equal(final))
	n := 0
	var mOld, mNew model.Model
	var ru ovsdb.RowUpdate2
	_ = acc.ForEachModelUpdate("T", func(_ string, o, nw model.Model) error {
		n++
		mOld, mNew = o, nw
		return nil
	})
	_ = acc.ForEachRowUpdate("T", func(_ string, r ovsdb.RowUpdate2) error {
		ru = r
		return nil
	})
	if same {
		if n != 0 {
			fs = append(fs, finding{"C11/net-zero-survives/" + kinds, fmt.Sprintf("the row ends as it began (or was inserted and deleted) but an update survives: insert=%v modify=%v delete=%v", ru.Insert != nil, ru.Modify, ru.Delete != nil)})
		}
		return fs
	}
	if n != 1 {
		return append(fs, finding{"C11/net-change-missing/" + kinds, fmt.Sprintf("the row changed (%v -> %v) but the accumulated update holds %d entries", initial, final, n)})
	}
	rowOfModel := func(mm model.Model) ref.Row {
		if mm == nil || isNilModel(mm) {
			return nil
		}
		_, r, err := e.m.RowOf("T", mm)
		if err != nil {
			return ref.Row{"<error>": ref.Set(ref.Str(err.Error()))}
		}
		return r
	}
	eq := func(a, b ref.Row) bool {
		if a == nil || b == nil {
			return a == nil && b == nil
		}
		return a.Equal(b)
	}
	if !eq(rowOfModel(mOld), initial) {
		fs = append(fs, finding{"C11/old-is-not-first-old/" + kinds, fmt.Sprintf("accumulated old model is %v, first old was %v", rowOfModel(mOld), initial)})
	}
	if !eq(rowOfModel(mNew), final) {
		fs = append(fs, finding{"C11/new-is-not-last-new/" + kinds, fmt.Sprintf("accumulated new model is %v, last new is %v", rowOfModel(mNew), final)})
	}
	if gm := acc.GetModel("T", c10UUID); !eq(rowOfModel(gm), final) {
		fs = append(fs, finding{"C11/getmodel/" + kinds, fmt.Sprintf("GetModel gives %v, last new is %v", rowOfModel(gm), final)})
	}
	gr, err := fullRowFromOvs(e.m, t, acc.GetRow("T", c10UUID))
	if err != nil {
		fs = append(fs, finding{"C11/getrow-undecodable/" + kinds, err.Error()})
	} else if !eq(gr, final) {
		fs = append(fs, finding{"C11/getrow/" + kinds, fmt.Sprintf("GetRow gives %v, last new is %v", gr, final)})
	}
	switch {
	case initial == nil:
		if ru.Insert == nil || ru.Modify != nil || ru.Delete != nil {
			fs = append(fs, finding{"C11/insert-then-changes-not-one-insert/" + kinds, fmt.Sprintf("insert followed by changes is reported as insert=%v modify=%v delete=%v", ru.Insert != nil, ru.Modify != nil, ru.Delete != nil)})
		} else if ir, err := fullRowFromOvs(e.m, t, ru.Insert); err != nil || !eq(ir, final) {
			fs = append(fs, finding{"C11/insert-row-is-not-final-row/" + kinds, fmt.Sprintf("insert row is %v (err %v), final row is %v", ir, err, final)})
		}
	case final == nil:
		if ru.Delete == nil || ru.Modify != nil || ru.Insert != nil {
			fs = append(fs, finding{"C11/changes-then-delete-not-one-delete/" + kinds, fmt.Sprintf("changes followed by delete are reported as insert=%v modify=%v delete=%v", ru.Insert != nil, ru.Modify != nil, ru.Delete != nil)})
		} else if or, err := fullRowFromOvs(e.m, t, ru.Old); err != nil || !eq(or, initial) {
			fs = append(fs, finding{"C11/delete-old-is-not-original-row/" + kinds, fmt.Sprintf("the delete carries old row %v (err %v), the original row is %v", or, err, initial)})
		}
	default:
		if ru.Modify == nil || ru.Insert != nil || ru.Delete != nil {
			fs = append(fs, finding{"C11/net-modify-shape/" + kinds, fmt.Sprintf("a net modification is reported as insert=%v modify=%v delete=%v", ru.Insert != nil, ru.Modify != nil, ru.Delete != nil)})
			break
		}
		// the modify row as sent on the wire
		mb, _ := json.Marshal(ovsdb.RowUpdate2{Modify: ru.Modify})
		var w ovsdb.RowUpdate2
		if err := json.Unmarshal(mb, &w); err != nil || w.Modify == nil {
			fs = append(fs, finding{"C11/modify-undecodable/" + kinds, fmt.Sprintf("%s: %v", mb, err)})
			break
		}
		got, err := applyModifyRef(t, initial, *w.Modify)
		if err != nil {
			fs = append(fs, finding{"C11/modify-unapplicable/" + kinds, err.Error()})
		} else if !got.Equal(final) {
			col := ""
			for _, c := range t.Cols {
				if !got[c.Name].Equal(final[c.Name]) {
					col = c.Desc()
					break
				}
			}
			fs = append(fs, finding{"C11/modify-law/" + col + "/" + kinds, fmt.Sprintf("accumulated modify %s applied to the first old %v gives %v, the last new is %v", mb, initial, got, final)})
		}
		// vacuous columns: a column whose net change is nil must not be carried with a changing effect (covered by the law)
		if or, err := fullRowFromOvs(e.m, t, ru.Old); err == nil && or != nil && !or.Equal(initial) {
			fs = append(fs, finding{"C11/rowupdate-old/" + kinds, fmt.Sprintf("row update old is %v, first old is %v", or, initial)})
		}
		if nr, err := fullRowFromOvs(e.m, t, ru.New); err == nil && nr != nil && !nr.Equal(final) {
			fs = append(fs, finding{"C11/rowupdate-new/" + kinds, fmt.Sprintf("row update new is %v, last new is %v", nr, final)})
		}
	}
	return fs
}

// c11step is one operation of a transaction: the same operation applied to several rows
// ends up in ONE ModelUpdates (as Transaction.Update / Mutate / Delete build it), which is
// then merged into the accumulated one.
type c11step struct {
	op    ref.Op // Where is filled in per row
	uuids []string
}

// runMulti accumulates multi-row steps and judges every row against the reference.
func (e *c11env) runMulti(initial map[string]ref.Row, steps []c11step) []finding {
	var fs []finding
	pre := ref.NewDB(e.m.S)
	for u, row := range initial {
		pre.T["T"][u] = row
	}
	var flat []ref.Op
	type at struct{ step, idx int }
	var where []at
	for si, st := range steps {
		for _, u := range st.uuids {
			op := st.op
			if op.Kind == "insert" {
				op.UUID = u
			} else {
				op.Where = byUUID(u)
			}
			flat = append(flat, op)
			where = append(where, at{si, len(flat) - 1})
		}
	}
	out := pre.Transact(cloneOps(flat))
	if out.OutOfDom != "" || out.Failed() {
		return nil
	}
	wire, err := e.m.WireOps(flat)
	if err != nil {
		return nil
	}
	cur := map[string]model.Model{}
	for u, row := range initial {
		cur[u] = e.m.NewModel("T", u, row)
	}
	kinds := "multi-row:" + opKindsOf(flat)
	acc := updates.ModelUpdates{}
	k := 0
	for _, st := range steps {
		u := updates.ModelUpdates{}
		for _, id := range st.uuids {
			op := wire[k]
			k++
			c := cur[id]
			if (op.Op == "insert") != (c == nil) {
				continue // where matches nothing / the reference would have failed
			}
			if err := u.AddOperation(e.m.DB, "T", id, c, &op); err != nil {
				return []finding{{"C11/accumulate/error/" + kinds, fmt.Sprintf("AddOperation (%s on %s) failed: %v", op.Op, id, err)}}
			}
		}
		_ = u.ForEachModelUpdate("T", func(id string, old, new model.Model) error {
			if new == nil || isNilModel(new) {
				delete(cur, id)
			} else {
				cur[id] = new
			}
			return nil
		})
		if err := acc.Merge(e.m.DB, u); err != nil {
			return []finding{{"C11/accumulate/merge-error/" + kinds, fmt.Sprintf("Merge failed: %v", err)}}
		}
	}
	rowOfModel := func(mm model.Model) ref.Row {
		if mm == nil || isNilModel(mm) {
			return nil
		}
		_, r, err := e.m.RowOf("T", mm)
		if err != nil {
			return ref.Row{"<error>": ref.Set(ref.Str(err.Error()))}
		}
		return r
	}
	eq := func(a, b ref.Row) bool {
		if a == nil || b == nil {
			return a == nil && b == nil
		}
		return a.Equal(b)
	}
	type pair struct{ o, n ref.Row }
	got := map[string]pair{}
	_ = acc.ForEachModelUpdate("T", func(id string, o, nw model.Model) error {
		got[id] = pair{rowOfModel(o), rowOfModel(nw)}
		return nil
	})
	ids := map[string]bool{}
	for u := range initial {
		ids[u] = true
	}
	for _, st := range steps {
		for _, u := range st.uuids {
			ids[u] = true
		}
	}
	for id := range ids {
		ini, fin := initial[id], out.Post.T["T"][id]
		g, present := got[id]
		switch {
		case eq(ini, fin):
			if present {
				fs = append(fs, finding{"C11/multi-row/net-zero-survives/" + kinds, fmt.Sprintf("row %s ends as it began (or was inserted and deleted) but the accumulated update still holds it", id)})
			}
		case !present:
			fs = append(fs, finding{"C11/multi-row/net-change-missing/" + kinds, fmt.Sprintf("row %s changed (%v -> %v) but the accumulated update does not hold it (rows held: %d)", id, ini, fin, len(got))})
		default:
			if !eq(g.o, ini) {
				fs = append(fs, finding{"C11/multi-row/old-is-not-first-old/" + kinds, fmt.Sprintf("row %s: accumulated old is %v, first old was %v", id, g.o, ini)})
			}
			if !eq(g.n, fin) {
				fs = append(fs, finding{"C11/multi-row/new-is-not-last-new/" + kinds, fmt.Sprintf("row %s: accumulated new is %v, last new is %v", id, g.n, fin)})
			}
		}
	}
	for id := range got {
		if !ids[id] {
			fs = append(fs, finding{"C11/multi-row/update-for-untouched-row/" + kinds, "row " + id + " was never touched"})
		}
	}
	return fs
}

func isNilModel(m model.Model) bool {
	defer func() { _ = recover() }()
	return m == nil
}

func opKindsOf(ops []ref.Op) string {
	var l []string
	for _, op := range ops {
		k := op.Kind
		if k == "mutate" {
			var ms []string
			for _, mu := range op.Muts {
				ms = append(ms, mu.Mutator)
			}
			sort.Strings(ms)
			k += "(" + strings.Join(uniq(ms), ",") + ")"
		}
		l = append(l, k)
	}
	return strings.Join(l, ">")
}

func c11Child(r *ev.Run, batch int) {
	s, cols := c10Schema()
	m, err := dyn.Build(s, nil)
	if err != nil {
		r.Violation("C11/harness/model-build", err.Error(), nil)
		return
	}
	t := s.Tables[0]
	e := &c11env{m: m, t: t}
	nb := r.N(8, 32)
	defRow := func() ref.Row {
		row := ref.Row{}
		for _, c := range t.Cols {
			row[c.Name] = ref.Default(c)
		}
		return row
	}
	where := byUUID(c10UUID)
	do := func(initial ref.Row, ops []ref.Op, desc string) {
		r.Eval(1)
		r.Count("cases", 1)
		r.LogCase("C11 " + desc)
		func() {
			defer func() {
				if p := recover(); p != nil {
					r.Violation("C11/panic/"+opKindsOf(ops)+"/"+ev.PanicSignature(fmt.Sprint(p), ""), fmt.Sprintf("panic: %v", p), map[string]interface{}{"case": desc})
				}
			}()
			for _, f := range e.run(initial, ops, r.Counter("cases")%2 == 0) {
				r.Violation(f.Sig, f.What, map[string]interface{}{"initial": fmt.Sprint(initial), "ops": opsJSON(ops)})
			}
		}()
	}
	// small scope: triples over reduced universes
	idx := 0
	triples := 0
	for _, cc := range cols {
		c := cc.col
		var sm []oval
		switch {
		case c.IsMap() && c.Name == "map_ss", c.IsMap() && c.Name == "map_is", c.IsMap() && c.Name == "bmap_ss":
			sm = allMaps(cc.univ, cc.vals)
		case c.IsSet() && (c.Name == "set_int" || c.Name == "set_str" || c.Name == "set_uuid" || c.Name == "bset_int"):
			sm = orderedLists(cc.univ[:3])
		case c.IsOptional(), c.IsScalar():
			sm = cc.small()
		default:
			continue
		}
		for _, o := range sm {
			for _, a := range sm {
				for _, b := range sm {
					idx++
					if idx%nb != batch {
						continue
					}
					triples++
					init := defRow()
					init[c.Name] = o.datum(c.IsMap())
					ops := []ref.Op{
						{Kind: "update", Table: "T", Where: where, Row: ref.Row{c.Name: a.datum(c.IsMap())}},
						{Kind: "update", Table: "T", Where: where, Row: ref.Row{c.Name: b.datum(c.IsMap())}},
					}
					r.Distinct("t|" + c.Name + o.String() + a.String() + b.String())
					do(init, ops, fmt.Sprintf("triple %s o=%s a=%s b=%s", c.Name, o, a, b))
					if r.NeedSample() && len(o.k) > 1 && len(a.k) > 0 && len(b.k) > 1 {
						r.Sample(map[string]interface{}{"column": c.Desc(), "original": o.String(), "first_change": a.String(), "second_change": b.String()})
					}
				}
			}
		}
	}
	r.Count("small_scope_triples", triples)
	// random chains
	p := prng.Derive(r.Seed, "C11", batch)
	chains := r.N(2500, 90000)
	var mutable []c10col
	for _, cc := range cols {
		mutable = append(mutable, cc)
	}
	val := func(cc c10col) ref.Datum {
		sm := cc.small()
		if (cc.col.IsSet() || cc.col.IsMap()) && p.Bool() {
			return cc.random(p).datum(cc.col.IsMap())
		}
		return sm[p.Intn(len(sm))].datum(cc.col.IsMap())
	}
	for i := 0; i < chains; i++ {
		var initial ref.Row
		var ops []ref.Op
		startInsert := p.Chance(1, 3)
		focus := []c10col{mutable[p.Intn(len(mutable))], mutable[p.Intn(len(mutable))]}
		rowVals := func() ref.Row {
			row := ref.Row{}
			for _, cc := range focus {
				row[cc.col.Name] = val(cc)
			}
			return row
		}
		if startInsert {
			ops = append(ops, ref.Op{Kind: "insert", Table: "T", UUID: c10UUID, Row: rowVals()})
		} else {
			initial = defRow()
			for k, v := range rowVals() {
				initial[k] = v
			}
		}
		steps := 1 + p.Intn(5)
		var history []ref.Row
		for sidx := 0; sidx < steps; sidx++ {
			cc := focus[p.Intn(len(focus))]
			c := cc.col
			switch x := p.Intn(10); {
			case x < 4:
				row := ref.Row{c.Name: val(cc)}
				if p.Chance(1, 4) && len(history) > 0 {
					row = history[p.Intn(len(history))] // restore earlier values
				} else if p.Chance(1, 5) && initial != nil {
					row = ref.Row{c.Name: initial[c.Name]} // restore the original value
				}
				history = append(history, row)
				ops = append(ops, ref.Op{Kind: "update", Table: "T", Where: where, Row: row})
			case x < 9:
				var mu ref.Mut
				switch {
				case c.IsMap():
					v := val(cc)
					if p.Bool() {
						mu = ref.Mut{Col: c.Name, Mutator: "insert", Val: v}
					} else if p.Bool() {
						mu = ref.Mut{Col: c.Name, Mutator: "delete", Val: v}
					} else {
						keys := ref.Datum{}
						for _, k := range v.K {
							keys = keys.With(k)
						}
						mu = ref.Mut{Col: c.Name, Mutator: "delete", Val: keys}
					}
				case c.IsSet():
					mu = ref.Mut{Col: c.Name, Mutator: []string{"insert", "delete"}[p.Intn(2)], Val: val(cc)}
				case c.IsScalar() && (c.Key.Type == "integer" || c.Key.Type == "real"):
					arg := ref.Set(ref.Int([]int64{1, 2, -1}[p.Intn(3)]))
					if c.Key.Type == "real" {
						arg = ref.Set(ref.Real([]float64{1, 0.5, -2}[p.Intn(3)]))
					}
					mu = ref.Mut{Col: c.Name, Mutator: []string{"+=", "-=", "*="}[p.Intn(3)], Val: arg}
				default:
					continue
				}
				op := ref.Op{Kind: "mutate", Table: "T", Where: where, Muts: []ref.Mut{mu}}
				if p.Chance(1, 3) {
					// a second mutation of the same column in the same operation
					op.Muts = append(op.Muts, ref.Mut{Col: mu.Col, Mutator: mu.Mutator, Val: mu.Val})
					if c.IsSet() || c.IsMap() {
						op.Muts[1].Val = val(cc)
						op.Muts[1].Mutator = []string{"insert", "delete"}[p.Intn(2)]
						if c.IsMap() && op.Muts[1].Mutator == "insert" && !op.Muts[1].Val.Map {
							op.Muts[1].Val = ref.Datum{Map: true}
						}
					}
				}
				ops = append(ops, op)
			default:
				ops = append(ops, ref.Op{Kind: "delete", Table: "T", Where: where})
				sidx = steps
			}
		}
		if len(ops) < 2 {
			continue
		}
		r.Count("random_chains", 1)
		r.Distinct("c|" + fmt.Sprint(initial) + fmt.Sprint(opsJSON(ops)))
		do(initial, ops, fmt.Sprintf("chain initial=%v ops=%v", initial, opsJSON(ops)))
	}
	// multi-row transactions: 2-5 existing rows, 2-4 steps, each step one operation on a
	// subset of the rows (and of the rows inserted before), merged step by step
	multi := r.N(1200, 40000)
	mp := prng.Derive(r.Seed, "C11multi", batch)
	for i := 0; i < multi; i++ {
		initial := map[string]ref.Row{}
		var live []string
		focus := mutable[mp.Intn(len(mutable))]
		c := focus.col
		pickVal := func() ref.Datum {
			sm := focus.small()
			return sm[mp.Intn(len(sm))].datum(c.IsMap())
		}
		for k := 2 + mp.Intn(4); k > 0; k-- {
			u := mp.UUID()
			row := defRow()
			row["name"] = ref.Set(ref.Str("e" + u[:6]))
			row[c.Name] = pickVal()
			initial[u] = row
			live = append(live, u)
		}
		sort.Strings(live)
		subset := func() []string {
			var l []string
			for _, u := range live {
				if mp.Chance(2, 3) {
					l = append(l, u)
				}
			}
			if len(l) == 0 && len(live) > 0 {
				l = []string{live[mp.Intn(len(live))]}
			}
			return l
		}
		var steps []c11step
		for k := 2 + mp.Intn(3); k > 0; k-- {
			switch x := mp.Intn(10); {
			case x < 3:
				u := mp.UUID()
				steps = append(steps, c11step{op: ref.Op{Kind: "insert", Table: "T", Row: ref.Row{"name": ref.Set(ref.Str("n" + u[:6])), c.Name: pickVal()}}, uuids: []string{u}})
				live = append(live, u)
				sort.Strings(live)
			case x < 6:
				us := subset()
				steps = append(steps, c11step{op: ref.Op{Kind: "delete", Table: "T"}, uuids: us})
				var rest []string
				for _, u := range live {
					if !contains(us, u) {
						rest = append(rest, u)
					}
				}
				live = rest
			default:
				if len(live) == 0 {
					continue
				}
				steps = append(steps, c11step{op: ref.Op{Kind: "update", Table: "T", Row: ref.Row{c.Name: pickVal()}}, uuids: subset()})
			}
		}
		if len(steps) < 2 {
			continue
		}
		r.Eval(1)
		r.Count("multi_row_transactions", 1)
		desc := fmt.Sprintf("multi-row column=%s rows=%d steps=%d", c.Name, len(initial), len(steps))
		var sk []string
		for _, st := range steps {
			sk = append(sk, fmt.Sprintf("%s*%d", st.op.Kind, len(st.uuids)))
		}
		r.Distinct("mr|" + c.Name + strings.Join(sk, ","))
		r.LogCase("C11 " + desc + " " + strings.Join(sk, ","))
		func() {
			defer func() {
				if pv := recover(); pv != nil {
					r.Violation("C11/multi-row/panic/"+ev.PanicSignature(fmt.Sprint(pv), ""), fmt.Sprintf("panic: %v", pv), map[string]interface{}{"case": desc, "steps": sk})
				}
			}()
			for _, f := range e.runMulti(initial, steps) {
				r.Violation(f.Sig, f.What, map[string]interface{}{"case": desc, "steps": sk})
			}
		}()
	}
}
