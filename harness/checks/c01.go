package checks

// C01 — a monitor-fed cache mirrors the database it monitors.
// A real client (model API, cache) and a real server in one race-instrumented
// child; a raw writer peer commits a generated history. After every committed
// transaction (the server notifies synchronously before it replies, so the
// client has processed the notification when the writer's call returns) the
// client's cache is compared with the database on every monitored table and
// column. Monitors are established at PRNG-chosen points of the history with
// each method, first and additional ones, and in both orders of "monitor reply
// processed" vs. "following notification processed" (pause point
// client.monitor.reply). The client's own transactions must be visible in its
// cache when Transact returns.

import (
	"context"
	"encoding/json"
	"fmt"
	"reflect"
	"sort"
	"strings"
	"sync"
	"time"

	"github.com/go-logr/logr"
	"github.com/ovn-org/libovsdb/client"
	"github.com/ovn-org/libovsdb/model"
	"github.com/ovn-org/libovsdb/ovsdb"
	"verifharness/internal/dyn"
	"verifharness/internal/ev"
	"verifharness/internal/gen"
	"verifharness/internal/peer"
	"verifharness/internal/prng"
	"verifharness/internal/ref"
	"verifharness/internal/tspace"
)

func init() { Register("C01", c01Parent, c01Child) }

func c01Parent(r *ev.Run) {
	r.Rule = "generated schema x history of transactions by a raw writer x monitors set up by a library client at chosen points (methods monitor / monitor_cond / monitor_cond_since, subsets of tables and columns, up to 3 monitors on one connection) x the two processing orders of monitor reply and following notification (pinned with the client.monitor.reply pause point); cache compared with the database after every committed transaction; a case is one comparison; distinct = (method, first/additional monitor, order, kinds of change in the transaction, monitored column subset or all)"
	r.Assume("quiescence is by construction: the server's notification call returns after the client's handler has run, and transact is answered afterwards")
	r.RunBatches(ev.BatchOpts{N: r.N(8, 32), Race: true})
}

// hook plumbing: one client at a time per process
var (
	c01HookMu   sync.Mutex
	c01Armed    bool
	c01Reached  chan struct{}
	c01Release  chan struct{}
	hookInstall sync.Once
)

func installClientHook() {
	hookInstall.Do(func() {
		client.VerifHook = func(point string) {
			if point == "client.update.before" {
				// C16: a callback that may hold an update notification back
				c16WinMu.Lock()
				upd := c16UpdateHook
				c16WinMu.Unlock()
				if upd != nil {
					upd()
				}
				return
			}
			if point != "client.monitor.reply" {
				return
			}
			// C16: a callback that commits a transaction inside the window
			c16WinMu.Lock()
			win := c16Window
			c16WinMu.Unlock()
			if win != nil {
				win()
				return
			}
			c01HookMu.Lock()
			armed := c01Armed
			reached, release := c01Reached, c01Release
			c01Armed = false
			c01HookMu.Unlock()
			if !armed {
				return
			}
			close(reached)
			<-release
		}
	})
}

type c01mon struct {
	method string
	tables map[string]map[string]bool // table -> monitored columns
	first  bool
	order  string
}

// cacheDiff compares the client's cache with the database on the monitored tables/columns.
func cacheDiff(m *dyn.Model, c client.Client, db *ref.DB, monitored map[string]map[string]bool) string {
	tc := c.Cache()
	if tc == nil {
		return "client has no cache"
	}
	for tn, cols := range monitored {
		t := m.S.Table(tn)
		rc := tc.Table(tn)
		if rc == nil {
			return "cache has no table " + tn
		}
		rows, err := m.SnapshotRows(tn, rc.Rows())
		if err != nil {
			return "cache unreadable: " + err.Error()
		}
		for u, dr := range db.T[tn] {
			cr, ok := rows[u]
			if !ok {
				return fmt.Sprintf("table %s: row %s is in the database but not in the cache", tn, u)
			}
			if eq, why := projEqual(t, cr, dr, cols); !eq {
				return fmt.Sprintf("table %s row %s: %s (cache vs database)", tn, u, why)
			}
		}
		for u := range rows {
			if _, ok := db.T[tn][u]; !ok {
				return fmt.Sprintf("table %s: row %s is in the cache but not in the database", tn, u)
			}
		}
	}
	return ""
}

func cacheDiffClass(d string) string {
	switch {
	case strings.Contains(d, "not in the cache"):
		return "row-missing-from-cache"
	case strings.Contains(d, "not in the database"):
		return "stale-row-in-cache"
	case strings.Contains(d, "column "):
		return "column-differs/" + colClassOf(d)
	}
	return errClassOf(d)
}

func c01Case(r *ev.Run, p *prng.R, batch, ci int) {
	dir := wireScratch()
	o := tspace.Full(2 + p.Intn(2))
	o.MaxCols = 4
	o.RefBias = 30
	s := tspace.Gen(p, o)
	m, err := dyn.Build(s, nil)
	if err != nil {
		return
	}
	srv, err := peer.StartServer(m, dir, fmt.Sprintf("c01-%d-%d", batch, ci))
	if err != nil {
		r.Inconclusive("server: " + err.Error())
		return
	}
	defer srv.Close()
	writer, err := peer.Dial(srv.Path)
	if err != nil {
		r.Inconclusive("dial: " + err.Error())
		return
	}
	defer writer.Close()
	if ci%2 == 1 {
		// bystanders: other connections monitoring the same tables with their own (often
		// narrower) column selections and select flags; what the server prepares for them
		// must not leak into what the client under test receives
		for i := 0; i < 1+p.Intn(2); i++ {
			by, err := peer.Dial(srv.Path)
			if err != nil {
				break
			}
			defer by.Close()
			for k := 0; k < 1+p.Intn(2); k++ {
				_, _ = genMonReq(p, s, 500+10*i+k, true, false).register(by, s.Name)
			}
		}
		r.Count("cases_with_bystander_monitors", 1)
	}
	l := logr.Discard()
	cl, err := client.NewOVSDBClient(m.Client, client.WithEndpoint("unix:"+srv.Path), client.WithLogger(&l))
	if err != nil {
		r.Inconclusive("client: " + err.Error())
		return
	}
	ctx, cancel := context.WithTimeout(context.Background(), 120*time.Second)
	defer cancel()
	if err := cl.Connect(ctx); err != nil {
		r.Violation("C01/connect-failed/"+errClassOf(err.Error()), "Connect fails against the library's own server: "+err.Error(), map[string]interface{}{"schema": json.RawMessage(s.JSON())})
		return
	}
	defer cl.Close()
	g := gen.New(p, s)
	g.NoWait = true
	g.DanglingPct = 5
	pre, _ := m.Snapshot(srv.DB)
	monitored := map[string]map[string]bool{}
	var mons []*c01mon
	txns := r.N(24, 40)
	setupAt := map[int]bool{p.Intn(6): true, 8 + p.Intn(6): true, 16 + p.Intn(6): true}
	lastOps := ""
	wit := func(extra map[string]interface{}) map[string]interface{} {
		var ml []string
		for _, mo := range mons {
			var tl []string
			for tn, cols := range mo.tables {
				tl = append(tl, fmt.Sprintf("%s(%d cols)", tn, len(cols)))
			}
			sort.Strings(tl)
			ml = append(ml, fmt.Sprintf("%s first=%v order=%s %v", mo.method, mo.first, mo.order, tl))
		}
		w := map[string]interface{}{"schema": json.RawMessage(s.JSON()), "monitors": ml, "last_transaction": json.RawMessage(lastOps), "pre_state": stateJSON(pre)}
		for k, v := range extra {
			w[k] = v
		}
		return w
	}
	setupMonitor := func() bool {
		// tables not yet monitored
		var free []*tspace.Table
		for _, t := range s.Tables {
			if monitored[t.Name] == nil {
				free = append(free, t)
			}
		}
		if len(free) == 0 {
			return true
		}
		mo := &c01mon{method: []string{ovsdb.MonitorRPC, ovsdb.ConditionalMonitorRPC, ovsdb.ConditionalMonitorSinceRPC}[p.Intn(3)], tables: map[string]map[string]bool{}, first: len(mons) == 0}
		var opts []client.MonitorOption
		n := 1 + p.Intn(len(free))
		for _, t := range free[:n] {
			mdl := reflect.New(m.Types[t.Name]).Interface()
			cols := map[string]bool{}
			var fields []interface{}
			if p.Chance(1, 2) {
				for _, c := range t.Cols {
					if p.Chance(2, 3) {
						cols[c.Name] = true
						fields = append(fields, m.FieldPtr(t.Name, mdl, c.Name))
					}
				}
			}
			if len(fields) == 0 {
				for _, c := range t.Cols {
					cols[c.Name] = true
				}
			}
			mo.tables[t.Name] = cols
			opts = append(opts, client.WithTable(mdl, fields...))
		}
		mon := cl.NewMonitor(opts...)
		mon.Method = mo.method
		pinned := p.Chance(1, 2)
		mo.order = "reply-first"
		var merr error
		if pinned {
			mo.order = "notification-first"
			c01HookMu.Lock()
			c01Armed = true
			c01Reached = make(chan struct{})
			c01Release = make(chan struct{})
			reached, release := c01Reached, c01Release
			c01HookMu.Unlock()
			done := make(chan error, 1)
			go func() {
				_, e := cl.Monitor(ctx, mon)
				done <- e
			}()
			select {
			case <-reached:
				// the reply is in; commit a transaction touching the new monitor's tables
				// before the client applies the initial contents
				var ops []ref.Op
				var tns []string
				for tn := range mo.tables {
					tns = append(tns, tn)
				}
				// ... and the tables of the monitors established earlier: their
				// notifications are deferred during this set-up and replayed after it
				for tn := range monitored {
					if mo.tables[tn] == nil {
						tns = append(tns, tn)
					}
				}
				sort.Strings(tns)
				for _, tn := range tns {
					if mo.tables[tn] == nil && !p.Chance(2, 3) {
						continue
					}
					t := s.Table(tn)
					us := dyn.SortedUUIDs(pre.T[tn])
					if len(us) > 0 {
						u := us[p.Intn(len(us))]
						ops = append(ops, ref.Op{Kind: "update", Table: tn, Where: byUUID(u), Row: g.UpdateRow(t, pre, nil, false)})
					}
					if len(us) > 1 && s.RootSet(tn) && p.Bool() {
						ops = append(ops, ref.Op{Kind: "delete", Table: tn, Where: byUUID(us[0])})
					}
					if s.RootSet(tn) {
						ops = append(ops, ref.Op{Kind: "insert", Table: tn, UUID: p.UUID(), Row: g.InsertRow(t, pre, nil)})
					}
				}
				if wire, err := m.WireOps(ops); err == nil && len(ops) > 0 {
					wb, _ := json.Marshal(wire)
					lastOps = string(wb)
					r.LogCase(fmt.Sprintf("C01 batch=%d case=%d pinned-window txn schema=%s ops=%s", batch, ci, s.JSON(), wb))
					if _, err := writer.Transact(s.Name, wire); err == nil {
						r.Count("transactions_inside_the_window", 1)
					}
					if np, err := m.Snapshot(srv.DB); err == nil {
						pre = np
					}
				}
				close(release)
				merr = <-done
			case merr = <-done:
				// the hook was not reached (monitor failed early)
				c01HookMu.Lock()
				c01Armed = false
				c01HookMu.Unlock()
			}
		} else {
			_, merr = cl.Monitor(ctx, mon)
		}
		mons = append(mons, mo)
		kind := "additional"
		if mo.first {
			kind = "first"
		}
		r.SetAdd("monitor_setups", mo.method+"/"+kind+"/"+mo.order)
		if merr != nil {
			r.Violation("C01/monitor-failed/"+mo.method+"/"+kind+"/"+mo.order+"/"+errClassOf(merr.Error()), "Monitor fails on a legal request: "+merr.Error(), wit(nil))
			return false
		}
		for tn, cols := range mo.tables {
			monitored[tn] = cols
		}
		r.Eval(1)
		r.Distinct(mo.method + "|" + kind + "|" + mo.order + "|setup")
		if d := cacheDiff(m, cl, pre, monitored); d != "" {
			r.Violation("C01/after-monitor-setup/"+mo.method+"/"+kind+"/"+mo.order+"/"+cacheDiffClass(d), "after Monitor returned the cache differs from the database: "+d, wit(nil))
			return false
		}
		if !cl.Connected() {
			r.Violation("C01/client-disconnected-after-monitor-setup/"+mo.method+"/"+kind+"/"+mo.order, "the client dropped its connection during monitor set-up", wit(nil))
			return false
		}
		return true
	}
	for ti := 0; ti < txns; ti++ {
		if setupAt[ti] && len(mons) < 3 {
			if !setupMonitor() {
				return
			}
		}
		ops := g.Txn(pre)
		wire, err := m.WireOps(ops)
		if err != nil {
			continue
		}
		wb, _ := json.Marshal(wire)
		lastOps = string(wb)
		r.LogCase(fmt.Sprintf("C01 batch=%d case=%d txn=%d schema=%s ops=%s", batch, ci, ti, s.JSON(), wb))
		ownTxn := len(mons) > 0 && p.Chance(1, 4)
		var res []ovsdb.OperationResult
		var terr error
		if ownTxn {
			// the monitoring client itself transacts: read-your-writes
			res, terr = cl.Transact(ctx, wire...)
		} else {
			res, terr = writer.Transact(s.Name, wire)
		}
		if terr != nil {
			if !cl.Connected() {
				r.Violation("C01/client-disconnected/"+errClassOf(terr.Error()), "the client lost its connection: "+terr.Error(), wit(nil))
				return
			}
			continue
		}
		failed := false
		for _, x := range res {
			if x.Error != "" {
				failed = true
			}
		}
		post, err := m.Snapshot(srv.DB)
		if err != nil {
			return
		}
		if len(mons) > 0 {
			kinds := map[string]bool{}
			for _, ch := range dbDelta(pre, post) {
				if monitored[ch.table] == nil {
					continue
				}
				switch {
				case ch.old == nil:
					kinds["insert"] = true
				case ch.new == nil:
					kinds["delete"] = true
				default:
					kinds["modify"] = true
				}
			}
			var kl []string
			for k := range kinds {
				kl = append(kl, k)
			}
			sort.Strings(kl)
			last := mons[len(mons)-1]
			r.Eval(1)
			who := "other-writer"
			if ownTxn {
				who = "own-transaction"
			}
			if len(kl) > 0 {
				allCols := "all-columns"
				for tn, cols := range last.tables {
					if len(cols) < len(s.Table(tn).Cols) {
						allCols = "column-subset"
					}
				}
				r.Distinct(fmt.Sprintf("%s|n=%d|%s|%s|%s|%s", last.method, len(mons), last.order, strings.Join(kl, "+"), who, allCols))
			}
			if d := cacheDiff(m, cl, post, monitored); d != "" {
				methods := map[string]bool{}
				for _, mo := range mons {
					methods[mo.method] = true
				}
				var ml []string
				for k := range methods {
					ml = append(ml, k)
				}
				sort.Strings(ml)
				r.Violation("C01/cache-differs/"+strings.Join(ml, "+")+"/"+who+"/"+cacheDiffClass(d), "after a committed transaction the cache differs from the database: "+d, wit(map[string]interface{}{"transaction_failed": failed}))
				return
			}
			if !cl.Connected() {
				r.Violation("C01/client-disconnected-by-notification", "the client dropped its connection while processing a legal notification stream", wit(nil))
				return
			}
			if r.NeedSample() && len(kl) > 0 {
				r.Sample(wit(map[string]interface{}{"changes": kl, "by": who}))
			}
		}
		pre = post
		if len(pre.CheckIntegrity()) > 0 || pre.Rows() > 16 {
			return
		}
	}
}

var _ = model.Clone

func c01Child(r *ev.Run, batch int) {
	installClientHook()
	if batch%4 == 0 {
		c01DeferredErrorCase(r, batch, "monitor_cond")
		c01DeferredErrorCase(r, batch, "monitor_cond_since")
	}
	cases := r.N(25, 480)
	for ci := 0; ci < cases; ci++ {
		p := prng.Derive(r.Seed, "C01", batch, ci)
		r.LogCase(fmt.Sprintf("C01 batch=%d case=%d", batch, ci))
		c01Case(r, p, batch, ci)
		if ci%3 == 0 {
			c01RefFedCase(r, prng.Derive(r.Seed, "C01ref", batch, ci), batch, ci)
		}
	}
}
