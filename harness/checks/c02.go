package checks

// C02 — transactions are all-or-nothing.
// Failing transactions are made on purpose (a valid generated transaction gets
// a poisoned operation at a chosen position). Oracles after every transaction
// whose reply carries an error: (I) every table and the reference index of
// every row are unchanged; (D) a twin database that never saw the failed
// transactions answers every later transaction identically and holds the same
// rows; (shape) the reply has results up to and including the failing
// operation and nothing but nulls after it, or all results plus one error.

import (
	"encoding/json"
	"fmt"
	"sort"
	"strings"

	"github.com/ovn-org/libovsdb/ovsdb"
	"verifharness/internal/dyn"
	"verifharness/internal/ev"
	"verifharness/internal/gen"
	"verifharness/internal/prng"
	"verifharness/internal/ref"
	"verifharness/internal/tspace"
	"verifharness/internal/txn"
)

func init() { Register("C02", c02Parent, c02Child) }

func c02Parent(r *ev.Run) {
	r.Rule = "generated history; every second transaction is poisoned at a chosen operation index with a failure cause (unknown table/column, ill-typed value, immutable column, dangling strong reference, deleting a referenced row, emptied min-1 weak set, duplicate index value, re-used row uuid, duplicate uuid-name, failing wait, division by zero); a case is one transaction whose reply carries an error; distinct = (failure cause, error class, position of the failing operation, number of successful operations before it, tables touched before it)"
	r.Assume("the twin database receives exactly the transactions whose reply carried no error; replies are compared with select rows as sets")
	r.RunBatches(ev.BatchOpts{N: r.N(16, 64)})
}

// refIndexDump is a canonical dump of GetReferences for every existing row.
func refIndexDump(m *dyn.Model, e *txn.Engine, db *ref.DB) string {
	var lines []string
	for _, t := range m.S.Tables {
		for u := range db.T[t.Name] {
			refs, err := e.DB.GetReferences(m.S.Name, t.Name, u)
			if err != nil {
				lines = append(lines, fmt.Sprintf("%s/%s: error %v", t.Name, u, err))
				continue
			}
			for spec, byTo := range refs {
				for to, from := range byTo {
					f := append([]string{}, from...)
					sort.Strings(f)
					lines = append(lines, fmt.Sprintf("%s/%s <- %s.%s(v=%v): %s=%v", t.Name, u, spec.FromTable, spec.FromColumn, spec.FromValue, to, f))
				}
			}
		}
	}
	sort.Strings(lines)
	return strings.Join(lines, "\n")
}

// canonReply renders a reply with select rows sorted.
func canonReply(rep *txn.Reply) string {
	var parts []string
	for i, r := range rep.Results {
		if rep.Skipped[i] {
			parts = append(parts, "null")
			continue
		}
		var rows []string
		for _, row := range r.Rows {
			rows = append(rows, canonStr(row))
		}
		sort.Strings(rows)
		parts = append(parts, fmt.Sprintf("{count:%d uuid:%s err:%q rows:%v}", r.Count, r.UUID.GoUUID, errClassOf(r.Error), rows))
	}
	return strings.Join(parts, " ")
}

type poison struct {
	cause string
	op    ovsdb.Operation
	op2   *ovsdb.Operation // optional second operation placed right after
}

// poisons builds candidate failing operations for the current state.
func poisons(p *prng.R, m *dyn.Model, g *gen.G, db *ref.DB) []poison {
	s := m.S
	var out []poison
	t := s.Tables[p.Intn(len(s.Tables))]
	rows := dyn.SortedUUIDs(db.T[t.Name])
	anyRow := func() (string, ref.Row) {
		if len(rows) == 0 {
			return "", nil
		}
		u := rows[p.Intn(len(rows))]
		return u, db.T[t.Name][u]
	}
	whereAll := []ovsdb.Condition{}
	out = append(out, poison{cause: "unknown-table", op: ovsdb.Operation{Op: "insert", Table: "No_Such_Table", Row: ovsdb.Row{"name": "x"}, UUID: p.UUID()}})
	out = append(out, poison{cause: "unknown-column-in-row", op: ovsdb.Operation{Op: "insert", Table: t.Name, Row: ovsdb.Row{"no_such_column": 1}, UUID: p.UUID()}})
	out = append(out, poison{cause: "unknown-op", op: ovsdb.Operation{Op: "frobnicate", Table: t.Name}})
	if len(rows) > 0 {
		out = append(out, poison{cause: "unknown-column-in-where", op: ovsdb.Operation{Op: "delete", Table: t.Name, Where: []ovsdb.Condition{{Column: "no_such_column", Function: "==", Value: 1}}}})
		out = append(out, poison{cause: "ill-typed-value", op: ovsdb.Operation{Op: "update", Table: t.Name, Where: whereAll, Row: ovsdb.Row{"name": 42}}})
		out = append(out, poison{cause: "ill-typed-condition", op: ovsdb.Operation{Op: "select", Table: t.Name, Where: []ovsdb.Condition{{Column: "name", Function: "==", Value: 3.5}}}})
	}
	zero := 0
	out = append(out, poison{cause: "failing-wait", op: ovsdb.Operation{Op: "wait", Table: t.Name, Timeout: &zero, Where: whereAll, Columns: []string{"name"}, Until: "==",
		Rows: []ovsdb.Row{{"name": "no-such-name-1"}, {"name": "no-such-name-2"}, {"name": "no-such-name-3"}, {"name": "no-such-name-4"}, {"name": "no-such-name-5"}, {"name": "no-such-name-6"},
			{"name": "no-such-name-7"}, {"name": "no-such-name-8"}, {"name": "no-such-name-9"}, {"name": "no-such-name-10"}, {"name": "no-such-name-11"}, {"name": "no-such-name-12"},
			{"name": "no-such-name-13"}, {"name": "no-such-name-14"}, {"name": "no-such-name-15"}, {"name": "no-such-name-16"}, {"name": "no-such-name-17"}, {"name": "no-such-name-18"},
			{"name": "no-such-name-19"}, {"name": "no-such-name-20"}, {"name": "no-such-name-21"}, {"name": "no-such-name-22"}, {"name": "no-such-name-23"}}}})
	dupName := ovsdb.Operation{Op: "insert", Table: t.Name, Row: ovsdb.Row{"name": "second"}, UUID: p.UUID(), UUIDName: "dupname"}
	out = append(out, poison{cause: "duplicate-uuid-name", op: ovsdb.Operation{Op: "insert", Table: t.Name, Row: ovsdb.Row{"name": "first"}, UUID: p.UUID(), UUIDName: "dupname"}, op2: &dupName})
	if u, _ := anyRow(); u != "" {
		out = append(out, poison{cause: "reused-row-uuid", op: ovsdb.Operation{Op: "insert", Table: t.Name, Row: ovsdb.Row{"name": "dup"}, UUID: u}})
	}
	for _, c := range t.Cols {
		c := c
		wire := func(d ref.Datum) interface{} { return dyn.ToOvs(c, d) }
		if c.Immutable && len(rows) > 0 {
			u, row := anyRow()
			// a value surely different from the stored one
			v := g.Value(c, db, nil)
			for tries := 0; tries < 10 && v.Equal(row[c.Name]); tries++ {
				v = g.Value(c, db, nil)
			}
			if !v.Equal(row[c.Name]) {
				out = append(out, poison{cause: "immutable-column", op: ovsdb.Operation{Op: "update", Table: t.Name,
					Where: []ovsdb.Condition{{Column: "_uuid", Function: "==", Value: ovsdb.UUID{GoUUID: u}}}, Row: ovsdb.Row{c.Name: wire(v)}}})
			}
		}
		if c.IsScalar() && c.Key.Type == "integer" && len(c.Key.Enum) == 0 && !c.Immutable && len(rows) > 0 {
			out = append(out, poison{cause: "division-by-zero", op: ovsdb.Operation{Op: "mutate", Table: t.Name, Where: whereAll, Mutations: []ovsdb.Mutation{{Column: c.Name, Mutator: "/=", Value: 0}}}})
			out = append(out, poison{cause: "modulo-by-zero", op: ovsdb.Operation{Op: "mutate", Table: t.Name, Where: whereAll, Mutations: []ovsdb.Mutation{{Column: c.Name, Mutator: "%=", Value: 0}}}})
		}
		if c.Key.IsStrong() && !c.IsMap() && !c.Immutable {
			missing := ovsdb.UUID{GoUUID: p.UUID()}
			if c.IsScalar() {
				if u, _ := anyRow(); u != "" {
					out = append(out, poison{cause: "dangling-strong-reference", op: ovsdb.Operation{Op: "update", Table: t.Name,
						Where: []ovsdb.Condition{{Column: "_uuid", Function: "==", Value: ovsdb.UUID{GoUUID: u}}}, Row: ovsdb.Row{c.Name: missing}}})
				}
			} else if u, _ := anyRow(); u != "" {
				out = append(out, poison{cause: "dangling-strong-reference", op: ovsdb.Operation{Op: "update", Table: t.Name,
					Where: []ovsdb.Condition{{Column: "_uuid", Function: "==", Value: ovsdb.UUID{GoUUID: u}}}, Row: ovsdb.Row{c.Name: ovsdb.OvsSet{GoSet: []interface{}{missing}}}}})
			}
		}
	}
	// delete a strongly referenced row / the only target of a min-1 weak set
	for _, ft := range s.Tables {
		for _, c := range ft.Cols {
			for fu, fr := range db.T[ft.Name] {
				d := fr[c.Name]
				if c.Key.IsStrong() && d.Len() > 0 && s.RootSet(ft.Name) {
					to := d.K[0].S
					if to != fu && to != ref.ZeroUUID {
						out = append(out, poison{cause: "delete-strongly-referenced-row", op: ovsdb.Operation{Op: "delete", Table: c.Key.RefTable,
							Where: []ovsdb.Condition{{Column: "_uuid", Function: "==", Value: ovsdb.UUID{GoUUID: to}}}}})
					}
				}
				if c.Key.IsWeak() && c.Min >= 1 && !c.IsMap() && d.Len() == c.Min && s.RootSet(ft.Name) {
					to := d.K[0].S
					if to != fu && to != ref.ZeroUUID {
						out = append(out, poison{cause: "emptied-min1-weak-set", op: ovsdb.Operation{Op: "delete", Table: c.Key.RefTable,
							Where: []ovsdb.Condition{{Column: "_uuid", Function: "==", Value: ovsdb.UUID{GoUUID: to}}}}})
					}
				}
			}
		}
	}
	// duplicate index value
	for _, it := range s.Tables {
		if len(it.Indexes) == 0 || len(db.T[it.Name]) == 0 {
			continue
		}
		us := dyn.SortedUUIDs(db.T[it.Name])
		src := db.T[it.Name][us[p.Intn(len(us))]]
		row := ovsdb.Row{}
		for _, c := range it.Cols {
			if c.Min > 0 || len(src[c.Name].K) > 0 {
				if c.Key.IsRef() || (c.Val != nil && c.Val.IsRef()) {
					continue
				}
				row[c.Name] = dyn.ToOvs(c, src[c.Name])
			}
		}
		out = append(out, poison{cause: "duplicate-index-vs-database", op: ovsdb.Operation{Op: "insert", Table: it.Name, Row: row, UUID: p.UUID()}})
	}
	return out
}

// c02Concurrent borrows C17's concurrent histories (several connections writing to one
// server under injected delays, raw monitors recording the notifications) and keeps the
// clauses that are about all-or-nothing: a transaction answered with an error must not
// have been notified and must not have left its rows, an acknowledged one must have been
// notified, and the final database must satisfy the integrity rules.
func c02Concurrent(r *ev.Run, batch int) {
	m, err := dyn.Build(c17Schema(), nil)
	if err != nil {
		return
	}
	c17InstallHook()
	r.SigMap = func(sig string) string {
		for _, keep := range []string{"C17/failed-transaction-notified", "C17/failed-transaction-left-rows", "C17/acknowledged-transaction-not-notified", "C17/final-state-integrity"} {
			if strings.HasPrefix(sig, keep) {
				return "C02/concurrent/" + strings.TrimPrefix(sig, "C17/")
			}
		}
		return ""
	}
	r.DropInconclusive = true
	defer func() { r.SigMap, r.DropInconclusive = nil, false }()
	n := r.N(1, 6)
	for hi := 0; hi < n; hi++ {
		p := prng.Derive(r.Seed, "C02concurrent", batch, hi)
		r.LogCase(fmt.Sprintf("C02 concurrent history batch=%d history=%d", batch, hi))
		r.Count("concurrent_histories", 1)
		c17History(r, m, p, batch, 1000+hi)
	}
}

func c02Child(r *ev.Run, batch int) {
	defer c02Concurrent(r, batch)
	schemas := r.N(3, 60)
	txns := r.N(140, 600)
	for si := 0; si < schemas; si++ {
		p := prng.Derive(r.Seed, "C02", batch, si)
		o := tspace.Full(2 + p.Intn(2))
		o.RefBias = 35
		o.MaxCols = 4
		o.Immutable = true
		s := tspace.Gen(p, o)
		m, err := dyn.Build(s, nil)
		if err != nil {
			r.Violation("C02/harness/model-build", "cannot build run-time model: "+err.Error(), map[string]interface{}{"schema": string(s.JSON())})
			continue
		}
		g := gen.New(p, s)
		g.NoWait = true
		g.DanglingPct = 3
		var live, twin *txn.Engine
		var pre *ref.DB
		restart := func() bool {
			var err error
			if live, err = txn.New(m); err != nil {
				return false
			}
			if twin, err = txn.New(m); err != nil {
				return false
			}
			pre = ref.NewDB(s)
			return true
		}
		if !restart() {
			continue
		}
		var failedSince []string // causes of failed transactions since the last twin comparison
		for ti := 0; ti < txns; ti++ {
			ops := g.Txn(pre)
			wire, err := m.WireOps(ops)
			if err != nil {
				continue
			}
			cause := "generated"
			pos := -1
			if ti%2 == 1 {
				ps := poisons(p, m, g, pre)
				if len(ps) > 0 {
					po := ps[p.Intn(len(ps))]
					// round-trip the poison like the server would
					b, _ := json.Marshal(po.op)
					var pw ovsdb.Operation
					if json.Unmarshal(b, &pw) == nil {
						pos = p.Intn(len(wire) + 1)
						cause = po.cause
						nw := append([]ovsdb.Operation{}, wire[:pos]...)
						nw = append(nw, pw)
						if po.op2 != nil {
							nw = append(nw, *po.op2)
						}
						wire = append(nw, wire[pos:]...)
					}
				}
			}
			wb, _ := json.Marshal(wire)
			r.LogCase(fmt.Sprintf("C02 batch=%d schema=%d txn=%d cause=%s schema=%s wire_ops=%s", batch, si, ti, cause, s.JSON(), wb))
			beforeRefs := refIndexDump(m, live, pre)
			liveRep := live.TransactWire(cloneWire(wire), true)
			if liveRep.Hung {
				r.Violation("C02/transaction-does-not-terminate/"+cause, "Transact did not return", map[string]interface{}{"schema": json.RawMessage(s.JSON()), "wire_ops": json.RawMessage(wb), "pre_state": stateJSON(pre)})
				return
			}
			wit := func(extra map[string]interface{}) map[string]interface{} {
				w := map[string]interface{}{"schema": json.RawMessage(s.JSON()), "wire_ops": json.RawMessage(wb), "pre_state": stateJSON(pre), "cause": cause, "poison_position": pos,
					"reply": canonReply(liveRep), "machine": map[string]interface{}{"schema": s, "pre": pre.T, "wire": json.RawMessage(wb)}}
				for k, v := range extra {
					w[k] = v
				}
				return w
			}
			if sp := liveRep.ShapeProblem(); sp != "" {
				r.Violation("C02/reply-shape/"+cause+"/"+errClassOf(sp), "reply shape: "+sp, wit(nil))
			}
			post, err := m.Snapshot(live.DB)
			if err != nil {
				r.Violation("C02/stored-state-unreadable/"+errClassOf(err.Error()), "database state cannot be read back: "+err.Error(), wit(nil))
				if !restart() {
					break
				}
				continue
			}
			if liveRep.Failed || liveRep.CommitErr != nil {
				r.Eval(1)
				errCls := errClassOf(liveRep.FailErr)
				if liveRep.CommitErr != nil {
					errCls = "commit:" + errClassOf(liveRep.CommitErr.Error())
					r.Violation("C02/commit-failed-after-success-reply/"+cause, "reply reported success, Commit failed: "+liveRep.CommitErr.Error(), wit(nil))
				}
				before := 0
				tables := map[string]bool{}
				for i := 0; i < liveRep.FailIndex && i < len(wire); i++ {
					before++
					tables[wire[i].Table] = true
				}
				r.Distinct(fmt.Sprintf("%s|%s|idx=%d|before=%d|tables=%d", cause, errCls, liveRep.FailIndex, before, len(tables)))
				r.Count("failed."+cause, 1)
				r.SetAdd("failure_error_classes", cause+" -> "+errCls)
				if liveRep.FailIndex >= liveRep.NOps {
					r.Count("failed_at_commit_time", 1)
				}
				if d := pre.Diff(post); d != "" {
					r.Violation("C02/state-changed/"+cause+"/"+errCls, "a transaction whose reply carries an error changed the database: "+d+" (first=before, second=after)", wit(nil))
				}
				afterRefs := refIndexDump(m, live, post)
				if afterRefs != beforeRefs {
					r.Violation("C02/reference-index-changed/"+cause+"/"+errCls, "a failed transaction changed the reference index", wit(map[string]interface{}{"references_before": beforeRefs, "references_after": afterRefs}))
				}
				failedSince = append(failedSince, cause)
				if r.NeedSample() && pos >= 0 {
					r.Sample(map[string]interface{}{"cause": cause, "poison_position": pos, "wire_ops": json.RawMessage(wb), "reply": canonReply(liveRep)})
				}
			} else {
				// successful: the twin gets it too and must agree
				r.Count("committed", 1)
				twinRep := twin.TransactWire(cloneWire(wire), true)
				a, b := canonReply(liveRep), canonReply(twinRep)
				tpost, terr := m.Snapshot(twin.DB)
				if a != b || (terr == nil && post.Diff(tpost) != "") {
					// is the answer to this transaction deterministic at all? Replay it on
					// fresh databases loaded with the same rows.
					answers := map[string]bool{}
					for k := 0; k < 8; k++ {
						if fe, err := loadState(m, pre); err == nil {
							fr := fe.TransactWire(cloneWire(wire), true)
							key := canonReply(fr)
							if fp, err := m.Snapshot(fe.DB); err == nil {
								key += "|" + fp.Hash()
							}
							answers[key] = true
						}
					}
					if len(answers) > 1 {
						// the library answers this transaction differently from run to run on
						// identical databases (map iteration order): not attributable to the
						// failed transactions, judged by C03/C06/C08
						r.Count("nondeterministic_answers_not_attributable_to_failed_transactions", 1)
						if !restart() {
							break
						}
						failedSince = nil
						continue
					}
				}
				if a != b {
					r.Violation("C02/twin-reply-differs/after:"+strings.Join(uniq(failedSince), "+"), "after failed transactions the database answers a later transaction differently from a twin that never saw them",
						wit(map[string]interface{}{"live_reply": a, "twin_reply": b, "failed_before": failedSince}))
				} else if terr == nil {
					if d := post.Diff(tpost); d != "" {
						r.Violation("C02/twin-state-differs/after:"+strings.Join(uniq(failedSince), "+"), "after failed transactions the database holds different rows from a twin that never saw them: "+d,
							wit(map[string]interface{}{"failed_before": failedSince}))
					}
				}
				if a != b || terr != nil || post.Diff(tpost) != "" {
					if !restart() {
						break
					}
					failedSince = nil
					continue
				}
				if len(failedSince) > 0 {
					r.Count("twin_comparisons_after_failures", 1)
				}
				failedSince = nil
			}
			pre = post
			if len(pre.CheckIntegrity()) > 0 || pre.Rows() > 16 {
				if !restart() {
					break
				}
				failedSince = nil
			}
		}
	}
}

func uniq(l []string) []string {
	m := map[string]bool{}
	var out []string
	for _, x := range l {
		if !m[x] {
			m[x] = true
			out = append(out, x)
		}
	}
	sort.Strings(out)
	return out
}

func cloneWire(ops []ovsdb.Operation) []ovsdb.Operation {
	b, _ := json.Marshal(ops)
	var out []ovsdb.Operation
	_ = json.Unmarshal(b, &out)
	return out
}
