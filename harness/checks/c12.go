package checks

// C12 — wire encoding round-trips every protocol value.
// Oracle: decode(encode(v)) ≡ v (semantic equality) over structurally
// generated values of every exported wire type; for schemas additionally
// decode(reference-encoding(description)) exposes exactly the description on
// the accessor surface, and decode∘encode is the identity on it.

import (
	"encoding/json"
	"fmt"
	"reflect"
	"sort"
	"strings"

	"github.com/ovn-org/libovsdb/ovsdb"
	"verifharness/internal/ev"
	"verifharness/internal/prng"
)

func init() { Register("C12", c12Parent, c12Child) }

func c12Parent(r *ev.Run) {
	r.Rule = "structural generators per wire type (operation x10 kinds, condition, mutation, set, map, uuid, row, table-updates, table-updates2, monitor request/select, monitor_cond_since reply, operation result/error, database schema); a case is one value; distinct = canonical JSON of the value; non-trivial = value has at least one non-empty member"
	r.Assume("numbers are compared by value (decoded JSON numbers are float64); a one-element set and its bare atom are the same value (RFC 7047 <set> notation); nil and empty collections are the same value where the Go type cannot tell them apart")
	r.RunBatches(ev.BatchOpts{N: r.N(8, 32)})
}

// canon converts a protocol value to a plain comparable structure.
func canon(v interface{}) interface{} {
	switch x := v.(type) {
	case nil:
		return nil
	case int:
		return float64(x)
	case int64:
		return float64(x)
	case float64:
		return x
	case bool, string:
		return x
	case ovsdb.UUID:
		return "U:" + x.GoUUID
	case *ovsdb.UUID:
		return "U:" + x.GoUUID
	case ovsdb.OvsSet:
		if len(x.GoSet) == 1 {
			return canon(x.GoSet[0])
		}
		out := []interface{}{"set"}
		for _, e := range x.GoSet {
			out = append(out, canon(e))
		}
		return out
	case ovsdb.OvsMap:
		type kv struct {
			k string
			v interface{}
		}
		var l []kv
		for k, val := range x.GoMap {
			kb, _ := json.Marshal(canon(k))
			l = append(l, kv{string(kb), canon(val)})
		}
		sort.Slice(l, func(i, j int) bool { return l[i].k < l[j].k })
		out := []interface{}{"map"}
		for _, e := range l {
			out = append(out, []interface{}{e.k, e.v})
		}
		return out
	case ovsdb.Row:
		if x == nil {
			return map[string]interface{}{}
		}
		m := map[string]interface{}{}
		for k, val := range x {
			m[k] = canon(val)
		}
		return m
	case *ovsdb.Row:
		if x == nil {
			return nil
		}
		return canon(*x)
	case map[string]interface{}:
		m := map[string]interface{}{}
		for k, val := range x {
			m[k] = canon(val)
		}
		return m
	case []interface{}:
		out := []interface{}{}
		for _, e := range x {
			out = append(out, canon(e))
		}
		return out
	case []string:
		out := []interface{}{}
		for _, e := range x {
			out = append(out, e)
		}
		return out
	}
	return fmt.Sprintf("%T:%v", v, v)
}

func canonStr(v interface{}) string {
	b, _ := json.Marshal(canon(v))
	return string(b)
}

// ---- generators of wire values ---------------------------------------------------

type wgen struct{ p *prng.R }

var c12Strings = []string{"", "a", "b", "set", "map", "uuid", "named-uuid", "x y", "é\"\\", "row1", "\x01", "tab\tnl\n", "\v\x7f", " ", "\U0001F600", "a\x00b"}

func (g wgen) atom(kind int) interface{} {
	switch kind {
	case 0:
		return []int{0, 1, -1, 7, 4096, -9007199254740991, 9007199254740991}[g.p.Intn(7)]
	case 1:
		return []float64{0, 1.5, -2.25, 1e-9, 123456.789, -0.5}[g.p.Intn(6)]
	case 2:
		return g.p.Bool()
	case 3:
		return c12Strings[g.p.Intn(len(c12Strings))]
	case 4:
		return ovsdb.UUID{GoUUID: g.p.UUID()}
	default:
		return ovsdb.UUID{GoUUID: []string{"rowname", "a_b", "n1"}[g.p.Intn(3)]}
	}
}

func (g wgen) set(kind int) ovsdb.OvsSet {
	n := []int{0, 1, 2, 3, 5}[g.p.Intn(5)]
	s := ovsdb.OvsSet{GoSet: []interface{}{}}
	seen := map[string]bool{}
	for i := 0; i < n; i++ {
		a := g.atom(kind)
		if kind >= 4 && g.p.Bool() {
			// references: rows that exist and rows inserted under a name, in one set
			a = g.atom(9 - kind)
		}
		k := canonStr(a)
		if seen[k] {
			continue
		}
		seen[k] = true
		s.GoSet = append(s.GoSet, a)
	}
	return s
}

func (g wgen) omap(kk, vk int, setValues bool) ovsdb.OvsMap {
	n := []int{0, 1, 2, 4}[g.p.Intn(4)]
	m := ovsdb.OvsMap{GoMap: map[interface{}]interface{}{}}
	for i := 0; i < n; i++ {
		k := g.atom(kk)
		if f, ok := k.(int); ok {
			k = float64(f) // decoded map keys are float64; keep the key type stable for lookup
		}
		if setValues {
			s := g.set(4)
			if len(s.GoSet) == 1 {
				m.GoMap[k] = s.GoSet[0]
			} else {
				m.GoMap[k] = s
			}
		} else {
			m.GoMap[k] = g.atom(vk)
		}
	}
	return m
}

// value returns a column value of a random shape.
func (g wgen) value() interface{} {
	switch g.p.Intn(4) {
	case 0:
		return g.atom(g.p.Intn(6))
	case 1:
		return g.set(g.p.Intn(6))
	case 2:
		return g.omap(g.p.Intn(5), g.p.Intn(6), false)
	default:
		return g.omap(3, 4, true)
	}
}

func (g wgen) row() ovsdb.Row {
	r := ovsdb.Row{}
	n := g.p.Intn(5)
	for i := 0; i < n; i++ {
		r[[]string{"name", "ports", "external_ids", "n", "flag", "ref", "_uuid"}[g.p.Intn(7)]] = g.value()
	}
	return r
}

var condFns = []ovsdb.ConditionFunction{"==", "!=", "<", "<=", ">", ">=", "includes", "excludes"}
var mutators = []ovsdb.Mutator{"+=", "-=", "*=", "/=", "%=", "insert", "delete"}

func (g wgen) cond() ovsdb.Condition {
	return ovsdb.Condition{Column: []string{"name", "n", "_uuid", "ports"}[g.p.Intn(4)], Function: condFns[g.p.Intn(8)], Value: g.value()}
}

func (g wgen) mut() ovsdb.Mutation {
	return ovsdb.Mutation{Column: []string{"n", "ports", "external_ids"}[g.p.Intn(3)], Mutator: mutators[g.p.Intn(7)], Value: g.value()}
}

var opKinds = []string{"insert", "select", "update", "mutate", "delete", "wait", "commit", "abort", "comment", "assert"}

func (g wgen) op() ovsdb.Operation {
	o := ovsdb.Operation{Op: opKinds[g.p.Intn(10)]}
	if g.p.Chance(4, 5) {
		o.Table = []string{"Bridge", "Port", "t_1"}[g.p.Intn(3)]
	}
	if g.p.Bool() {
		o.Row = g.row()
	}
	if g.p.Chance(1, 3) {
		for i := g.p.Intn(3); i >= 0; i-- {
			o.Rows = append(o.Rows, g.row())
		}
	}
	if g.p.Chance(1, 3) {
		o.Columns = []string{"name", "n"}[:1+g.p.Intn(2)]
	}
	if g.p.Bool() {
		for i := g.p.Intn(3); i > 0; i-- {
			o.Mutations = append(o.Mutations, g.mut())
		}
	}
	if g.p.Chance(1, 3) {
		t := []int{0, 1, 1000}[g.p.Intn(3)]
		o.Timeout = &t
	}
	switch g.p.Intn(3) {
	case 0:
		o.Where = []ovsdb.Condition{}
	case 1:
		for i := g.p.Intn(3); i >= 0; i-- {
			o.Where = append(o.Where, g.cond())
		}
	}
	if g.p.Chance(1, 3) {
		o.Until = []string{"==", "!="}[g.p.Intn(2)]
	}
	if g.p.Chance(1, 4) {
		b := g.p.Bool()
		o.Durable = &b
	}
	if g.p.Chance(1, 4) {
		s := c12Strings[g.p.Intn(len(c12Strings))]
		o.Comment = &s
	}
	if g.p.Chance(1, 4) {
		s := c12Strings[g.p.Intn(len(c12Strings))]
		o.Lock = &s
	}
	if g.p.Chance(1, 3) {
		o.UUID = g.p.UUID()
	}
	if g.p.Chance(1, 3) {
		o.UUIDName = "row" + fmt.Sprint(g.p.Intn(3))
	}
	return o
}

func condsStr(cs []ovsdb.Condition) string {
	var l []interface{}
	for _, c := range cs {
		l = append(l, []interface{}{c.Column, string(c.Function), canon(c.Value)})
	}
	b, _ := json.Marshal(l)
	return string(b)
}

func mutsStr(ms []ovsdb.Mutation) string {
	var l []interface{}
	for _, c := range ms {
		l = append(l, []interface{}{c.Column, string(c.Mutator), canon(c.Value)})
	}
	b, _ := json.Marshal(l)
	return string(b)
}

func opStr(o ovsdb.Operation) string {
	m := map[string]interface{}{"op": o.Op, "table": o.Table, "until": o.Until, "uuid": o.UUID, "uuid-name": o.UUIDName}
	if len(o.Row) > 0 {
		m["row"] = canon(o.Row)
	}
	var rows []interface{}
	for _, r := range o.Rows {
		rows = append(rows, canon(r))
	}
	m["rows"] = rows
	if len(o.Columns) > 0 {
		m["columns"] = o.Columns
	}
	m["mutations"] = mutsStr(o.Mutations)
	m["where"] = condsStr(o.Where)
	if o.Timeout != nil {
		m["timeout"] = *o.Timeout
	}
	if o.Durable != nil {
		m["durable"] = *o.Durable
	}
	if o.Comment != nil {
		m["comment"] = *o.Comment
	}
	if o.Lock != nil {
		m["lock"] = *o.Lock
	}
	b, _ := json.Marshal(m)
	return string(b)
}

func (g wgen) rowPtr(p int) *ovsdb.Row {
	if !g.p.Chance(p, 4) {
		return nil
	}
	r := g.row()
	return &r
}

func ru2Str(u *ovsdb.RowUpdate2) string {
	if u == nil {
		return "null"
	}
	b, _ := json.Marshal([]interface{}{canon(u.Initial), canon(u.Insert), canon(u.Modify), canon(u.Delete)})
	return string(b)
}

func ruStr(u *ovsdb.RowUpdate) string {
	if u == nil {
		return "null"
	}
	b, _ := json.Marshal([]interface{}{canon(u.New), canon(u.Old)})
	return string(b)
}

func tu2Str(t ovsdb.TableUpdates2) string {
	m := map[string]map[string]string{}
	for tn, tu := range t {
		m[tn] = map[string]string{}
		for u, ru := range tu {
			m[tn][u] = ru2Str(ru)
		}
	}
	b, _ := json.Marshal(m)
	return string(b)
}

func tuStr(t ovsdb.TableUpdates) string {
	m := map[string]map[string]string{}
	for tn, tu := range t {
		m[tn] = map[string]string{}
		for u, ru := range tu {
			m[tn][u] = ruStr(ru)
		}
	}
	b, _ := json.Marshal(m)
	return string(b)
}

func (g wgen) tu2() ovsdb.TableUpdates2 {
	t := ovsdb.TableUpdates2{}
	for i := g.p.Intn(3); i > 0; i-- {
		tu := ovsdb.TableUpdate2{}
		for j := g.p.Intn(3); j >= 0; j-- {
			ru := &ovsdb.RowUpdate2{}
			switch g.p.Intn(4) {
			case 0:
				ru.Initial = g.rowPtr(4)
			case 1:
				ru.Insert = g.rowPtr(4)
			case 2:
				ru.Modify = g.rowPtr(4)
			default:
				e := ovsdb.Row{}
				ru.Delete = &e
			}
			tu[g.p.UUID()] = ru
		}
		t[[]string{"Bridge", "Port", "t_1"}[g.p.Intn(3)]] = tu
	}
	return t
}

func (g wgen) tu() ovsdb.TableUpdates {
	t := ovsdb.TableUpdates{}
	for i := g.p.Intn(3); i > 0; i-- {
		tu := ovsdb.TableUpdate{}
		for j := g.p.Intn(3); j >= 0; j-- {
			ru := &ovsdb.RowUpdate{}
			switch g.p.Intn(3) {
			case 0:
				ru.New = g.rowPtr(4)
			case 1:
				ru.New, ru.Old = g.rowPtr(4), g.rowPtr(4)
			default:
				ru.Old = g.rowPtr(4)
			}
			tu[g.p.UUID()] = ru
		}
		t[[]string{"Bridge", "Port", "t_1"}[g.p.Intn(3)]] = tu
	}
	return t
}

func selStr(s *ovsdb.MonitorSelect) string {
	if s == nil {
		return "nil"
	}
	b, _ := json.Marshal(s)
	return fmt.Sprintf("%v/%v/%v/%v/%s", s.Initial(), s.Insert(), s.Delete(), s.Modify(), b)
}

func (g wgen) msel() *ovsdb.MonitorSelect {
	if g.p.Chance(1, 5) {
		return nil
	}
	// all 3^4 combinations of absent/true/false are reachable through JSON
	parts := []string{}
	for _, n := range []string{"initial", "insert", "delete", "modify"} {
		switch g.p.Intn(3) {
		case 0:
			parts = append(parts, fmt.Sprintf("%q:true", n))
		case 1:
			parts = append(parts, fmt.Sprintf("%q:false", n))
		}
	}
	var s ovsdb.MonitorSelect
	_ = json.Unmarshal([]byte("{"+strings.Join(parts, ",")+"}"), &s)
	return &s
}

func mreqStr(m ovsdb.MonitorRequest) string {
	b, _ := json.Marshal([]interface{}{canon(m.Columns), condsStr(m.Where), selStr(m.Select)})
	return string(b)
}

// rt round-trips v through JSON into out (pointer) and reports errors.
func rt(v interface{}, out interface{}) error {
	b, err := json.Marshal(v)
	if err != nil {
		return fmt.Errorf("encode: %v", err)
	}
	if err := json.Unmarshal(b, out); err != nil {
		return fmt.Errorf("decode of %s: %v", trunc(string(b), 300), err)
	}
	return nil
}

func trunc(s string, n int) string {
	if len(s) > n {
		return s[:n] + "..."
	}
	return s
}

// c12One runs one case of the given kind and returns (description, before, after, err).
func c12One(g wgen, kind string) (desc string, before, after string, err error) {
	switch kind {
	case "set":
		v := g.set(g.p.Intn(6))
		var o ovsdb.OvsSet
		err = rt(v, &o)
		// decoding target is a set: a bare atom decodes to a one-element set
		return canonStr(v), canonStr(ovsdb.OvsSet{GoSet: v.GoSet}), canonStr(o), err
	case "map":
		var v ovsdb.OvsMap
		if g.p.Chance(1, 4) {
			v = g.omap(3, 4, true)
		} else {
			v = g.omap(g.p.Intn(5), g.p.Intn(6), false)
		}
		var o ovsdb.OvsMap
		err = rt(v, &o)
		return canonStr(v), canonStr(v), canonStr(o), err
	case "uuid":
		v := g.atom(4 + g.p.Intn(2)).(ovsdb.UUID)
		var o ovsdb.UUID
		err = rt(v, &o)
		return canonStr(v), canonStr(v), canonStr(o), err
	case "row":
		v := g.row()
		var o ovsdb.Row
		err = rt(v, &o)
		return canonStr(v), canonStr(v), canonStr(o), err
	case "condition":
		v := g.cond()
		var o ovsdb.Condition
		err = rt(v, &o)
		return condsStr([]ovsdb.Condition{v}), condsStr([]ovsdb.Condition{v}), condsStr([]ovsdb.Condition{o}), err
	case "mutation":
		v := g.mut()
		var o ovsdb.Mutation
		err = rt(v, &o)
		return mutsStr([]ovsdb.Mutation{v}), mutsStr([]ovsdb.Mutation{v}), mutsStr([]ovsdb.Mutation{o}), err
	case "operation":
		v := g.op()
		var o ovsdb.Operation
		err = rt(v, &o)
		if err == nil {
			// one operation, one encoding: held by value, by pointer, in a slice of operations
			// or in the parameter list of a transact request
			byValue, e1 := json.Marshal(v)
			byPointer, e2 := json.Marshal(&v)
			inSlice, e3 := json.Marshal([]ovsdb.Operation{v})
			inArgs, e4 := json.Marshal(ovsdb.NewTransactArgs("db", v))
			// (pairs of a map are encoded in no particular order: the members present and the
			// decoded operations are compared, not the bytes)
			members := func(b []byte) string {
				var m map[string]json.RawMessage
				if json.Unmarshal(b, &m) != nil {
					return "<not an object>"
				}
				var l []string
				for k := range m {
					l = append(l, k)
				}
				sort.Strings(l)
				return strings.Join(l, ",")
			}
			decoded := func(b []byte) string {
				var x ovsdb.Operation
				if json.Unmarshal(b, &x) != nil {
					return "<undecodable>"
				}
				return opStr(x)
			}
			var sl, al []json.RawMessage
			if e3 == nil {
				e3 = json.Unmarshal(inSlice, &sl)
			}
			if e4 == nil {
				e4 = json.Unmarshal(inArgs, &al)
			}
			switch {
			case e1 != nil || e2 != nil || e3 != nil || e4 != nil || len(sl) != 1 || len(al) != 2:
				err = fmt.Errorf("encode: %v %v %v %v", e1, e2, e3, e4)
			default:
				for _, alt := range []struct {
					how string
					b   []byte
				}{{"by value", byValue}, {"in a slice of operations", sl[0]}, {"in the parameters of a transact request", al[1]}} {
					if members(alt.b) != members(byPointer) || decoded(alt.b) != decoded(byPointer) {
						err = fmt.Errorf("encode: an operation held %s encodes as %s, held by pointer as %s", alt.how, trunc(string(alt.b), 200), trunc(string(byPointer), 200))
						break
					}
				}
			}
		}
		return opStr(v), opStr(v), opStr(o), err
	case "updates":
		v := g.tu()
		var o ovsdb.TableUpdates
		err = rt(v, &o)
		return tuStr(v), tuStr(v), tuStr(o), err
	case "updates2":
		v := g.tu2()
		var o ovsdb.TableUpdates2
		err = rt(v, &o)
		return tu2Str(v), tu2Str(v), tu2Str(o), err
	case "monitor_request":
		v := ovsdb.MonitorRequest{Select: g.msel()}
		if g.p.Bool() {
			v.Columns = []string{"name", "n", "ports"}[:1+g.p.Intn(3)]
		}
		for i := g.p.Intn(3); i > 0; i-- {
			v.Where = append(v.Where, g.cond())
		}
		var o ovsdb.MonitorRequest
		err = rt(v, &o)
		if err == nil && g.p.Bool() {
			// also as the map used on the wire
			mv := map[string]ovsdb.MonitorRequest{"Bridge": v}
			var mo map[string]*ovsdb.MonitorRequest
			if err = rt(mv, &mo); err == nil && mo["Bridge"] != nil {
				o = *mo["Bridge"]
			}
		}
		return mreqStr(v), mreqStr(v), mreqStr(o), err
	case "monitor_select":
		v := g.msel()
		if v == nil {
			v = ovsdb.NewDefaultMonitorSelect()
		}
		if g.p.Chance(1, 4) {
			v = ovsdb.NewMonitorSelect(g.p.Bool(), g.p.Bool(), g.p.Bool(), g.p.Bool())
		}
		var o ovsdb.MonitorSelect
		err = rt(v, &o)
		return selStr(v), selStr(v), selStr(&o), err
	case "cond_since_reply":
		v := ovsdb.MonitorCondSinceReply{Found: g.p.Bool(), LastTransactionID: g.p.UUID(), Updates: g.tu2()}
		var o ovsdb.MonitorCondSinceReply
		err = rt(v, &o)
		f := func(m ovsdb.MonitorCondSinceReply) string {
			return fmt.Sprintf("%v|%s|%s", m.Found, m.LastTransactionID, tu2Str(m.Updates))
		}
		return f(v), f(v), f(o), err
	case "result":
		v := ovsdb.OperationResult{}
		switch g.p.Intn(5) {
		case 0:
			v.Count = g.p.Intn(5)
		case 1:
			v.UUID = ovsdb.UUID{GoUUID: g.p.UUID()}
		case 2:
			for i := g.p.Intn(3); i >= 0; i-- {
				v.Rows = append(v.Rows, g.row())
			}
		case 3:
			v.Error = c12Errors[g.p.Intn(len(c12Errors))]
			v.Details = c12Strings[g.p.Intn(len(c12Strings))]
		}
		f := func(m ovsdb.OperationResult) string {
			var rows []interface{}
			for _, r := range m.Rows {
				rows = append(rows, canon(r))
			}
			b, _ := json.Marshal([]interface{}{m.Count, m.Error, m.Details, m.UUID.GoUUID, rows})
			return string(b)
		}
		// OperationResult.UUID has no omitempty-able zero: an empty UUID is
		// encoded as ["named-uuid",""], which decodes to the same empty value.
		var o ovsdb.OperationResult
		err = rt(v, &o)
		return f(v), f(v), f(o), err
	case "error":
		// result -> JSON -> result -> typed error -> result
		v := ovsdb.OperationResult{Error: c12Errors[g.p.Intn(11)], Details: c12Strings[g.p.Intn(len(c12Strings))]}
		var o ovsdb.OperationResult
		if err = rt(v, &o); err != nil {
			return v.Error, "", "", err
		}
		op := ovsdb.Operation{Op: "insert", Table: "t"}
		extra := g.p.Bool()
		var operrs []ovsdb.OperationError
		var e2 error
		if extra {
			// commit-time error: one more result than operations
			operrs, e2 = ovsdb.CheckOperationResults([]ovsdb.OperationResult{{}, o}, []ovsdb.Operation{op})
		} else {
			operrs, e2 = ovsdb.CheckOperationResults([]ovsdb.OperationResult{o}, []ovsdb.Operation{op})
		}
		var typed error
		if extra {
			typed = e2
		} else if len(operrs) == 1 {
			typed = operrs[0]
		}
		if typed == nil {
			return v.Error, v.Error + "|" + v.Details, fmt.Sprintf("no typed error (errs=%v err=%v)", operrs, e2), nil
		}
		back := ovsdb.ResultFromError(typed)
		return fmt.Sprintf("%s|%s|extra=%v", v.Error, v.Details, extra), v.Error + "|" + v.Details, back.Error + "|" + back.Details, nil
	}
	return "", "", "", fmt.Errorf("unknown kind %s", kind)
}

var c12Errors = []string{"referential integrity violation", "constraint violation", "resources exhausted", "I/O error",
	"duplicate uuid name", "domain error", "range error", "timed out", "not supported", "aborted", "not owner", "custom error"}

var c12Kinds = []string{"set", "map", "uuid", "row", "condition", "mutation", "operation", "operation", "updates", "updates2",
	"monitor_request", "monitor_select", "cond_since_reply", "result", "error", "schema", "schema"}

func c12Child(r *ev.Run, batch int) {
	n := r.N(5000, 500000)
	for i := 0; i < n; i++ {
		kind := c12Kinds[i%len(c12Kinds)]
		g := wgen{prng.Derive(r.Seed, "C12", batch, i)}
		func() {
			defer func() {
				if p := recover(); p != nil {
					r.Violation("C12/panic/"+kind+"/"+ev.PanicSignature(fmt.Sprint(p), ""), fmt.Sprintf("round trip of a valid %s value panicked: %v", kind, p), map[string]interface{}{"batch": batch, "case": i})
				}
			}()
			r.Eval(1)
			r.Count("kind."+kind, 1)
			if kind == "schema" {
				c12Schema(r, g, batch, i)
				return
			}
			desc, before, after, err := c12One(g, kind)
			if len(desc) > 12 {
				r.Distinct(kind + desc)
			}
			if i < len(c12Kinds) && batch == 0 {
				r.Sample(map[string]interface{}{"kind": kind, "value": trunc(desc, 400)})
			}
			if err != nil {
				r.Violation("C12/"+kind+"/error/"+errClass(err), fmt.Sprintf("a valid %s value does not survive encode/decode: %v", kind, err), map[string]interface{}{"value": desc, "batch": batch, "case": i})
				return
			}
			if before != after {
				r.Violation("C12/"+kind+"/differs/"+diffClass(kind, before, after), fmt.Sprintf("decode(encode(v)) != v for a %s value", kind), map[string]interface{}{"before": before, "after": after, "batch": batch, "case": i})
			}
		}()
	}
}

func errClass(err error) string {
	s := err.Error()
	for _, k := range []string{"encode", "decode"} {
		if strings.HasPrefix(s, k) {
			s = k
			break
		}
	}
	return s
}

func diffClass(kind, before, after string) string {
	if kind == "error" {
		return strings.SplitN(before, "|", 2)[0]
	}
	return "value"
}

// ---- schemas ----------------------------------------------------------------------

type sBase struct {
	Type             string
	Enum             []interface{}
	MinInt, MaxInt   *int
	MinReal, MaxReal *float64
	MinLen, MaxLen   *int
	RefTable         *string
	RefType          *string
}

type sCol struct {
	Name      string
	Key       sBase
	Value     *sBase
	Min       *int
	Max       interface{} // nil, int or "unlimited"
	Ephemeral *bool
	Mutable   *bool
	Simple    bool // "type": "<atomic>"
}

type sTable struct {
	Name    string
	Cols    []sCol
	Indexes [][]string
	IsRoot  *bool
}

func (b sBase) json(forceObj bool) interface{} {
	m := map[string]interface{}{"type": b.Type}
	plain := true
	if b.Enum != nil {
		plain = false
		if len(b.Enum) == 1 {
			m["enum"] = b.Enum[0]
		} else {
			m["enum"] = []interface{}{"set", b.Enum}
		}
	}
	set := func(k string, p interface{}) {
		v := reflect.ValueOf(p)
		if !v.IsNil() {
			m[k] = v.Elem().Interface()
			plain = false
		}
	}
	set("minInteger", b.MinInt)
	set("maxInteger", b.MaxInt)
	set("minReal", b.MinReal)
	set("maxReal", b.MaxReal)
	set("minLength", b.MinLen)
	set("maxLength", b.MaxLen)
	set("refTable", b.RefTable)
	set("refType", b.RefType)
	if plain && !forceObj {
		return b.Type
	}
	return m
}

func (c sCol) json() interface{} {
	col := map[string]interface{}{}
	if c.Simple {
		col["type"] = c.Key.Type
	} else {
		t := map[string]interface{}{"key": c.Key.json(false)}
		if c.Value != nil {
			t["value"] = c.Value.json(false)
		}
		if c.Min != nil {
			t["min"] = *c.Min
		}
		if c.Max != nil {
			t["max"] = c.Max
		}
		col["type"] = t
	}
	if c.Ephemeral != nil {
		col["ephemeral"] = *c.Ephemeral
	}
	if c.Mutable != nil {
		col["mutable"] = *c.Mutable
	}
	return col
}

func ip(i int) *int             { return &i }
func fp(f float64) *float64     { return &f }
func sp(s string) *string       { return &s }
func bp(b bool) *bool           { return &b }
func (g wgen) maybe(n int) bool { return g.p.Chance(1, n) }

func (g wgen) sbase(tables []string) sBase {
	b := sBase{Type: []string{"integer", "real", "boolean", "string", "uuid"}[g.p.Intn(5)]}
	switch b.Type {
	case "integer":
		switch g.p.Intn(4) {
		case 0:
			b.MinInt = ip(g.p.Intn(10) - 5)
		case 1:
			b.MaxInt = ip(100 + g.p.Intn(10))
		case 2:
			b.MinInt, b.MaxInt = ip(g.p.Intn(5)), ip(10+g.p.Intn(100))
		}
		if b.MinInt == nil && b.MaxInt == nil && g.maybe(4) {
			b.Enum = []interface{}{1.0, 2.0, 5.0}[:1+g.p.Intn(3)]
		}
	case "real":
		switch g.p.Intn(4) {
		case 0:
			b.MinReal = fp(-1.5)
		case 1:
			b.MaxReal = fp(99.25)
		case 2:
			b.MinReal, b.MaxReal = fp(0.5), fp(10.5+float64(g.p.Intn(4)))
		}
		if b.MinReal == nil && b.MaxReal == nil && g.maybe(4) {
			b.Enum = []interface{}{0.5, 1.5, 2.5}[:1+g.p.Intn(3)]
		}
	case "string":
		switch g.p.Intn(5) {
		case 0:
			b.MinLen = ip(1 + g.p.Intn(3))
		case 1:
			b.MaxLen = ip(16 + g.p.Intn(8))
		case 2:
			b.MinLen, b.MaxLen = ip(1+g.p.Intn(3)), ip(8+g.p.Intn(50))
		case 3:
			b.Enum = []interface{}{"up", "down", "a b", "x"}[:1+g.p.Intn(4)]
		}
	case "uuid":
		if g.p.Bool() {
			b.RefTable = sp(tables[g.p.Intn(len(tables))])
			switch g.p.Intn(3) {
			case 0:
				b.RefType = sp("strong")
			case 1:
				b.RefType = sp("weak")
			}
		}
	}
	return b
}

func (g wgen) scol(name string, tables []string) sCol {
	c := sCol{Name: name, Key: g.sbase(tables)}
	switch g.p.Intn(10) {
	case 7:
		c.Min = ip(0) // max omitted: at most one
	case 8:
		c.Max = "unlimited" // min omitted: at least one
	case 9:
		c.Max = 2 + g.p.Intn(5)
	case 0:
		if c.Key.Enum == nil && c.Key.MinInt == nil && c.Key.MaxInt == nil && c.Key.MinReal == nil && c.Key.MaxReal == nil &&
			c.Key.MinLen == nil && c.Key.MaxLen == nil && c.Key.RefTable == nil {
			c.Simple = true
		}
	case 1:
		c.Min, c.Max = ip(0), 1
	case 2:
		c.Min, c.Max = ip(0), "unlimited"
	case 3:
		c.Min, c.Max = ip(1), "unlimited"
	case 4:
		c.Min, c.Max = ip(g.p.Intn(2)), 2+g.p.Intn(5)
	case 5:
		v := g.sbase(tables)
		c.Value = &v
		c.Min, c.Max = ip(0), "unlimited"
		if g.maybe(3) {
			c.Max = 3 + g.p.Intn(4)
		}
	}
	if g.maybe(4) {
		c.Ephemeral = bp(g.p.Bool())
	}
	if g.maybe(4) {
		c.Mutable = bp(g.p.Bool())
	}
	return c
}

func numEq(a interface{}, b interface{}) bool {
	return canonStr(a) == canonStr(b)
}

// checkBase compares the accessor surface of a decoded base type with its description.
func checkBase(where string, b *ovsdb.BaseType, d sBase) []string {
	var out []string
	bad := func(f string, got, want interface{}) {
		out = append(out, fmt.Sprintf("%s.%s: got %v want %v", where, f, got, want))
	}
	if b == nil {
		return []string{where + ": missing base type"}
	}
	if b.Type != d.Type {
		bad("type", b.Type, d.Type)
	}
	if len(b.Enum) != len(d.Enum) {
		bad("enum", b.Enum, d.Enum)
	} else {
		for i := range d.Enum {
			if !numEq(b.Enum[i], d.Enum[i]) {
				bad("enum", b.Enum, d.Enum)
				break
			}
		}
	}
	switch d.Type {
	case "integer":
		if d.MinInt != nil {
			if v, err := b.MinInteger(); err != nil || v != *d.MinInt {
				bad("minInteger", v, *d.MinInt)
			}
		}
		if d.MaxInt != nil {
			if v, err := b.MaxInteger(); err != nil || v != *d.MaxInt {
				bad("maxInteger", v, *d.MaxInt)
			}
		}
	case "real":
		if d.MinReal != nil {
			if v, err := b.MinReal(); err != nil || v != *d.MinReal {
				bad("minReal", v, *d.MinReal)
			}
		}
		if d.MaxReal != nil {
			if v, err := b.MaxReal(); err != nil || v != *d.MaxReal {
				bad("maxReal", v, *d.MaxReal)
			}
		}
	case "string":
		minL, _ := b.MinLength()
		maxL, _ := b.MaxLength()
		wantMin := 0
		if d.MinLen != nil {
			wantMin = *d.MinLen
		}
		if minL != wantMin {
			bad("minLength", minL, wantMin)
		}
		if d.MaxLen != nil && maxL != *d.MaxLen {
			bad("maxLength", maxL, *d.MaxLen)
		}
		if d.MaxLen == nil && maxL < 1<<40 {
			bad("maxLength(default)", maxL, "unbounded")
		}
	case "uuid":
		rt, _ := b.RefTable()
		want := ""
		if d.RefTable != nil {
			want = *d.RefTable
		}
		if rt != want {
			bad("refTable", rt, want)
		}
		rty, _ := b.RefType()
		wantT := "strong"
		if d.RefType != nil {
			wantT = *d.RefType
		}
		if rty != wantT {
			bad("refType", rty, wantT)
		}
	}
	return out
}

func checkSchema(s ovsdb.DatabaseSchema, name, version string, tables []sTable) []string {
	var out []string
	if s.Name != name || s.Version != version {
		out = append(out, fmt.Sprintf("name/version: got %s/%s want %s/%s", s.Name, s.Version, name, version))
	}
	if len(s.Tables) != len(tables) {
		out = append(out, fmt.Sprintf("tables: got %d want %d", len(s.Tables), len(tables)))
	}
	for _, t := range tables {
		ts := s.Table(t.Name)
		if ts == nil {
			out = append(out, "table "+t.Name+" missing")
			continue
		}
		wantRoot := t.IsRoot != nil && *t.IsRoot
		if ts.IsRoot != wantRoot {
			out = append(out, fmt.Sprintf("%s.isRoot: got %v want %v", t.Name, ts.IsRoot, wantRoot))
		}
		if canonStr(idxToIface(ts.Indexes)) != canonStr(idxToIface(t.Indexes)) {
			out = append(out, fmt.Sprintf("%s.indexes: got %v want %v", t.Name, ts.Indexes, t.Indexes))
		}
		if len(ts.Columns) != len(t.Cols) {
			out = append(out, fmt.Sprintf("%s.columns: got %d want %d", t.Name, len(ts.Columns), len(t.Cols)))
		}
		for _, c := range t.Cols {
			cs := ts.Column(c.Name)
			w := t.Name + "." + c.Name
			if cs == nil || cs.TypeObj == nil {
				out = append(out, w+" missing")
				continue
			}
			wantMin, wantMax := 1, 1
			if c.Min != nil {
				wantMin = *c.Min
			}
			switch m := c.Max.(type) {
			case int:
				wantMax = m
			case string:
				wantMax = -1
			}
			if cs.TypeObj.Min() != wantMin || cs.TypeObj.Max() != wantMax {
				out = append(out, fmt.Sprintf("%s min/max: got %d/%d want %d/%d", w, cs.TypeObj.Min(), cs.TypeObj.Max(), wantMin, wantMax))
			}
			wantMut := c.Mutable == nil || *c.Mutable
			wantEph := c.Ephemeral != nil && *c.Ephemeral
			if cs.Mutable() != wantMut {
				out = append(out, fmt.Sprintf("%s mutable: got %v want %v", w, cs.Mutable(), wantMut))
			}
			if cs.Ephemeral() != wantEph {
				out = append(out, fmt.Sprintf("%s ephemeral: got %v want %v", w, cs.Ephemeral(), wantEph))
			}
			wantType := c.Key.Type
			switch {
			case c.Value != nil:
				wantType = "map"
			case wantMin != 1 || wantMax != 1:
				wantType = "set"
			case len(c.Key.Enum) > 0:
				wantType = "enum"
			}
			if cs.Type != wantType {
				out = append(out, fmt.Sprintf("%s extended type: got %s want %s", w, cs.Type, wantType))
			}
			out = append(out, checkBase(w+".key", cs.TypeObj.Key, c.Key)...)
			if c.Value != nil {
				out = append(out, checkBase(w+".value", cs.TypeObj.Value, *c.Value)...)
			} else if cs.TypeObj.Value != nil {
				out = append(out, w+".value: unexpected")
			}
		}
	}
	return out
}

func idxToIface(x [][]string) interface{} {
	var out []interface{}
	for _, l := range x {
		out = append(out, canon(l))
	}
	return out
}

func c12Schema(r *ev.Run, g wgen, batch, i int) {
	tnames := []string{"Bridge", "Port", "t_1", "Logical_Switch"}[:1+g.p.Intn(4)]
	var tables []sTable
	jt := map[string]interface{}{}
	for _, tn := range tnames {
		t := sTable{Name: tn}
		nc := 1 + g.p.Intn(5)
		cols := map[string]interface{}{}
		for c := 0; c < nc; c++ {
			col := g.scol(fmt.Sprintf("c%d", c), tnames)
			t.Cols = append(t.Cols, col)
			cols[col.Name] = col.json()
		}
		tj := map[string]interface{}{"columns": cols}
		if g.maybe(3) {
			t.Indexes = [][]string{{"c0"}}
			if nc > 2 && g.p.Bool() {
				t.Indexes = append(t.Indexes, []string{"c1", "c2"})
			}
			tj["indexes"] = t.Indexes
		}
		if g.maybe(2) {
			t.IsRoot = bp(g.p.Bool())
			tj["isRoot"] = *t.IsRoot
		}
		tables = append(tables, t)
		jt[tn] = tj
	}
	text, _ := json.Marshal(map[string]interface{}{"name": "DB", "version": "1.2.3", "tables": jt})
	r.Distinct("schema" + string(text))
	if batch == 0 && i < 2*len(c12Kinds) {
		r.Sample(map[string]interface{}{"kind": "schema", "value": json.RawMessage(text)})
	}
	var s1 ovsdb.DatabaseSchema
	if err := json.Unmarshal(text, &s1); err != nil {
		r.Violation("C12/schema/decode-error", "a valid schema fails to decode: "+err.Error(), map[string]interface{}{"schema": json.RawMessage(text)})
		return
	}
	if bad := checkSchema(s1, "DB", "1.2.3", tables); len(bad) > 0 {
		r.Violation("C12/schema/decode/"+fieldClass(bad[0]), "decoded schema differs from its text: "+bad[0], map[string]interface{}{"schema": json.RawMessage(text), "differences": bad})
		return
	}
	enc, err := json.Marshal(s1)
	if err != nil {
		r.Violation("C12/schema/encode-error", "a decoded schema fails to encode: "+err.Error(), map[string]interface{}{"schema": json.RawMessage(text)})
		return
	}
	var s2 ovsdb.DatabaseSchema
	if err := json.Unmarshal(enc, &s2); err != nil {
		r.Violation("C12/schema/redecode-error", "a re-encoded schema fails to decode: "+err.Error(), map[string]interface{}{"schema": json.RawMessage(text), "reencoded": json.RawMessage(enc)})
		return
	}
	if bad := checkSchema(s2, "DB", "1.2.3", tables); len(bad) > 0 {
		r.Violation("C12/schema/reencode/"+fieldClass(bad[0]), "decode(encode(decode(text))) differs from the text: "+bad[0], map[string]interface{}{"schema": json.RawMessage(text), "reencoded": json.RawMessage(enc), "differences": bad})
		return
	}
	enc2, _ := json.Marshal(s2)
	var a, b interface{}
	_ = json.Unmarshal(enc, &a)
	_ = json.Unmarshal(enc2, &b)
	if !reflect.DeepEqual(a, b) {
		r.Violation("C12/schema/reencode-unstable", "encode(decode(encode(s))) != encode(s)", map[string]interface{}{"first": json.RawMessage(enc), "second": json.RawMessage(enc2)})
	}
}

func fieldClass(s string) string {
	// "T.c.key.minLength: got ..." -> "minLength"
	s = strings.SplitN(s, ":", 2)[0]
	if i := strings.LastIndex(s, "."); i >= 0 {
		s = s[i+1:]
	}
	if i := strings.LastIndex(s, " "); i >= 0 {
		s = s[i+1:]
	}
	return s
}
