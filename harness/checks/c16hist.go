package checks

// C16, "last transaction id known to the server": the built-in server always
// answers monitor_cond_since with found=false, so this part runs the library
// CLIENT against a small OVSDB server written for the harness that keeps the
// history of its transactions: it sends update3 notifications carrying a
// transaction id and answers monitor_cond_since with found=true and only the
// changes since the id presented, when it still knows that id (it can be told
// to forget). Its state is a reference-model database; the direct writer
// mutates it through the reference model.

import (
	"context"
	"encoding/json"
	"fmt"
	"net"
	"os"
	"sync"
	"time"

	"github.com/cenkalti/backoff/v4"
	"github.com/cenkalti/rpc2"
	"github.com/cenkalti/rpc2/jsonrpc"
	"github.com/go-logr/logr"
	"github.com/ovn-org/libovsdb/client"
	"github.com/ovn-org/libovsdb/ovsdb"
	"verifharness/internal/dyn"
	"verifharness/internal/ev"
	"verifharness/internal/prng"
	"verifharness/internal/proxy"
	"verifharness/internal/ref"
)

type histMon struct {
	id     json.RawMessage
	method string
	tables map[string]bool
	c      *rpc2.Client
}

// HistUpdates is a <table-updates2> value: table -> uuid -> {initial|insert|modify|delete: row}.
type HistUpdates map[string]map[string]map[string]interface{}

type histEntry struct {
	id string
	db *ref.DB
}

type histServer struct {
	m    *dyn.Model
	mu   sync.Mutex
	db   *ref.DB
	hist []histEntry // states after each transaction; hist[0] is the initial state
	mons []*histMon
	ln   net.Listener
	path string
	p    *prng.R
	// counters
	foundTrue, foundFalse, update3 int
	lastNotes                      []string // JSON of the notifications of the last transaction
	// an old server: monitor_cond_since is an "unknown method" (the client falls back to
	// monitor_cond), and only condAllowed monitor_cond requests are accepted
	oldServer   bool
	condAllowed int
	// replyDelay holds back the reply to monitor requests (the request has been read, nothing
	// registered yet), so that notifications of other monitors overtake it
	replyDelay time.Duration
}

func newHistServer(m *dyn.Model, path string, p *prng.R) (*histServer, error) {
	_ = os.Remove(path)
	ln, err := net.Listen("unix", path)
	if err != nil {
		return nil, err
	}
	h := &histServer{m: m, db: ref.NewDB(m.S), ln: ln, path: path, p: p}
	h.hist = []histEntry{{id: p.UUID(), db: h.db}}
	srv := rpc2.NewServer()
	srv.Handle("list_dbs", func(c *rpc2.Client, args []interface{}, reply *[]string) error {
		*reply = []string{m.S.Name}
		return nil
	})
	srv.Handle("get_schema", func(c *rpc2.Client, args []interface{}, reply *json.RawMessage) error {
		*reply = json.RawMessage(m.S.JSON())
		return nil
	})
	srv.Handle("echo", func(c *rpc2.Client, args []interface{}, reply *[]interface{}) error {
		*reply = args
		return nil
	})
	srv.Handle("monitor_cond_since", func(c *rpc2.Client, args []json.RawMessage, reply *[]interface{}) error {
		return h.monitor(c, "monitor_cond_since", args, reply)
	})
	srv.Handle("monitor_cond", func(c *rpc2.Client, args []json.RawMessage, reply *HistUpdates) error {
		var r []interface{}
		if err := h.monitor(c, "monitor_cond", args, &r); err != nil {
			return err
		}
		*reply = r[0].(HistUpdates)
		return nil
	})
	srv.Handle("monitor", func(c *rpc2.Client, args []json.RawMessage, reply *HistUpdates) error {
		var r []interface{}
		if err := h.monitor(c, "monitor", args, &r); err != nil {
			return err
		}
		*reply = r[0].(HistUpdates)
		return nil
	})
	srv.OnDisconnect(func(c *rpc2.Client) {
		h.mu.Lock()
		var keep []*histMon
		for _, mo := range h.mons {
			if mo.c != c {
				keep = append(keep, mo)
			}
		}
		h.mons = keep
		h.mu.Unlock()
	})
	go func() {
		for {
			conn, err := ln.Accept()
			if err != nil {
				return
			}
			go srv.ServeCodec(&serialCodec{Codec: jsonrpc.NewJSONCodec(conn)})
		}
	}()
	return h, nil
}

func (h *histServer) close() { _ = h.ln.Close() }

// serialCodec serialises the writes of requests (notifications) and responses,
// which rpc2 issues from different goroutines on one JSON encoder.
type serialCodec struct {
	rpc2.Codec
	mu sync.Mutex
}

func (c *serialCodec) WriteRequest(r *rpc2.Request, v interface{}) error {
	c.mu.Lock()
	defer c.mu.Unlock()
	return c.Codec.WriteRequest(r, v)
}

func (c *serialCodec) WriteResponse(r *rpc2.Response, v interface{}) error {
	c.mu.Lock()
	defer c.mu.Unlock()
	return c.Codec.WriteResponse(r, v)
}

// deltaV1 encodes the changes from a to b as RFC 7047 <table-updates>: insert = new,
// delete = old, modify = old values of the changed columns + the whole new row.
func (h *histServer) deltaV1(a, b *ref.DB, tables map[string]bool) HistUpdates {
	out := HistUpdates{}
	for _, ch := range dbDelta(a, b) {
		if !tables[ch.table] {
			continue
		}
		t := h.m.S.Table(ch.table)
		if out[ch.table] == nil {
			out[ch.table] = map[string]map[string]interface{}{}
		}
		ru := map[string]interface{}{}
		switch {
		case ch.old == nil:
			ru["new"] = h.m.OvsRow(ch.table, ch.new)
		case ch.new == nil:
			ru["old"] = h.m.OvsRow(ch.table, ch.old)
		default:
			old := ref.Row{}
			for _, c := range t.Cols {
				if !ch.old[c.Name].Equal(ch.new[c.Name]) {
					old[c.Name] = ch.old[c.Name]
				}
			}
			ru["old"] = h.m.OvsRow(ch.table, old)
			ru["new"] = h.m.OvsRow(ch.table, ch.new)
		}
		out[ch.table][ch.uuid] = ru
	}
	return out
}

// delta encodes the changes from a to b on the given tables as update2 rows.
func (h *histServer) delta(a, b *ref.DB, tables map[string]bool, initial bool) HistUpdates {
	out := HistUpdates{}
	for _, ch := range dbDelta(a, b) {
		if !tables[ch.table] {
			continue
		}
		t := h.m.S.Table(ch.table)
		if out[ch.table] == nil {
			out[ch.table] = map[string]map[string]interface{}{}
		}
		ru := map[string]interface{}{}
		switch {
		case ch.old == nil:
			if initial {
				ru["initial"] = h.m.OvsRow(ch.table, ch.new)
			} else {
				ru["insert"] = h.m.OvsRow(ch.table, ch.new)
			}
		case ch.new == nil:
			ru["delete"] = nil // ovsdb-server sends "delete": null
		default:
			ru["modify"] = h.m.OvsRow(ch.table, ref.Modify2(t, ch.old, ch.new, nil))
		}
		out[ch.table][ch.uuid] = ru
	}
	return out
}

func (h *histServer) monitor(c *rpc2.Client, method string, args []json.RawMessage, reply *[]interface{}) error {
	if len(args) < 3 {
		return fmt.Errorf("not enough arguments")
	}
	var req map[string]json.RawMessage
	if err := json.Unmarshal(args[2], &req); err != nil {
		return err
	}
	tables := map[string]bool{}
	for tn := range req {
		tables[tn] = true
	}
	last := ""
	if len(args) > 3 {
		_ = json.Unmarshal(args[3], &last)
	}
	h.mu.Lock()
	d := h.replyDelay
	h.mu.Unlock()
	if d > 0 {
		time.Sleep(d)
	}
	h.mu.Lock()
	defer h.mu.Unlock()
	if h.oldServer {
		switch method {
		case "monitor_cond_since":
			return fmt.Errorf("unknown method")
		case "monitor_cond":
			if h.condAllowed <= 0 {
				return fmt.Errorf("monitor refused")
			}
			h.condAllowed--
		}
	}
	cur := h.hist[len(h.hist)-1]
	if method == "monitor_cond_since" {
		for _, e := range h.hist {
			if e.id == last {
				h.foundTrue++
				*reply = []interface{}{true, cur.id, h.delta(e.db, cur.db, tables, false)}
				h.mons = append(h.mons, &histMon{id: args[1], method: method, tables: tables, c: c})
				return nil
			}
		}
		h.foundFalse++
		*reply = []interface{}{false, cur.id, h.delta(ref.NewDB(h.m.S), cur.db, tables, true)}
	} else if method == "monitor" {
		*reply = []interface{}{h.deltaV1(ref.NewDB(h.m.S), cur.db, tables)}
	} else {
		*reply = []interface{}{h.delta(ref.NewDB(h.m.S), cur.db, tables, true)}
	}
	h.mons = append(h.mons, &histMon{id: args[1], method: method, tables: tables, c: c})
	return nil
}

// apply commits a reference transaction and notifies the monitors (synchronously).
func (h *histServer) apply(ops []ref.Op) error {
	h.mu.Lock()
	pre := h.db
	out := pre.Transact(ops)
	if out.Failed() {
		h.mu.Unlock()
		return fmt.Errorf("rejected")
	}
	h.db = out.Post
	id := h.p.UUID()
	h.hist = append(h.hist, histEntry{id: id, db: h.db})
	mons := append([]*histMon{}, h.mons...)
	type note struct {
		mo *histMon
		tu HistUpdates
	}
	var notes []note
	for _, mo := range mons {
		tu := h.delta(pre, h.db, mo.tables, false)
		if mo.method == "monitor" {
			tu = h.deltaV1(pre, h.db, mo.tables)
		}
		if len(tu) > 0 {
			notes = append(notes, note{mo, tu})
		}
	}
	h.lastNotes = nil
	for _, n := range notes {
		b, _ := json.Marshal(n.tu)
		h.lastNotes = append(h.lastNotes, n.mo.method+" "+string(b))
	}
	h.mu.Unlock()
	for _, n := range notes {
		var reply interface{}
		call := n.mo.c.Go(map[string]string{"monitor_cond_since": "update3", "monitor_cond": "update2", "monitor": "update"}[n.mo.method],
			func() []interface{} {
				if n.mo.method == "monitor_cond_since" {
					h.mu.Lock()
					h.update3++
					h.mu.Unlock()
					return []interface{}{n.mo.id, id, n.tu}
				}
				return []interface{}{n.mo.id, n.tu}
			}(), &reply, make(chan *rpc2.Call, 1))
		select {
		case <-call.Done:
		case <-time.After(2 * time.Second): // a cut connection: nobody answers
		}
	}
	return nil
}

// forget drops the history before the current state (ids presented later are unknown).
func (h *histServer) forget() {
	h.mu.Lock()
	h.hist = h.hist[len(h.hist)-1:]
	h.mu.Unlock()
}

func (h *histServer) snapshot() *ref.DB {
	h.mu.Lock()
	defer h.mu.Unlock()
	return h.db
}

// c16HistSession: monitors (monitor_cond_since and monitor_cond mixed), traffic,
// a cut, changes while away (incl. deletes), optional loss of history, reconnect.
func c16HistSession(r *ev.Run, m *dyn.Model, nMon int, methods []string, forget bool, cuts int, batch, idx int) []finding {
	p := prng.Derive(ev.Seed(), "C16hist", nMon, fmt.Sprint(methods), forget, cuts)
	dir := wireScratch()
	hs, err := newHistServer(m, fmt.Sprintf("%s/c16h-%d-%d.sock", dir, batch, idx), p)
	if err != nil {
		r.Inconclusive("history server: " + err.Error())
		return nil
	}
	defer hs.close()
	px, err := proxy.New(fmt.Sprintf("%s/c16hp-%d-%d.sock", dir, batch, idx), hs.path)
	if err != nil {
		r.Inconclusive("proxy: " + err.Error())
		return nil
	}
	defer px.Close()
	seq := 0
	insert := func(table string, n int) {
		var ops []ref.Op
		for i := 0; i < n; i++ {
			seq++
			ops = append(ops, ref.Op{Kind: "insert", Table: table, UUID: p.UUID(), Row: ref.Row{"name": ref.Set(ref.Str(fmt.Sprintf("%s-%d", table, seq))), "n": ref.Set(ref.Int(int64(seq)))}})
		}
		_ = hs.apply(ops)
	}
	churn := func() {
		db := hs.snapshot()
		for _, tn := range []string{"T0", "T1", "T2"} {
			us := dyn.SortedUUIDs(db.T[tn])
			if len(us) > 2 {
				_ = hs.apply([]ref.Op{{Kind: "delete", Table: tn, Where: byUUID(us[0])},
					{Kind: "update", Table: tn, Where: byUUID(us[1]), Row: ref.Row{"n": ref.Set(ref.Int(int64(1000 + seq)))}},
					{Kind: "mutate", Table: tn, Where: byUUID(us[2]), Muts: []ref.Mut{{Col: "ports", Mutator: "insert", Val: ref.Set(ref.Str(fmt.Sprintf("p%d", seq)))}}}})
			}
			insert(tn, 1)
		}
	}
	for _, tn := range []string{"T0", "T1", "T2"} {
		insert(tn, 4)
	}
	l := logr.Discard()
	cl, err := client.NewOVSDBClient(m.Client, client.WithEndpoint("unix:"+px.Listen), client.WithLogger(&l),
		client.WithReconnect(2*time.Second, backoff.NewConstantBackOff(10*time.Millisecond)))
	if err != nil {
		r.Inconclusive("client: " + err.Error())
		return nil
	}
	defer cl.Close()
	ctx, cancel := context.WithTimeout(context.Background(), 60*time.Second)
	defer cancel()
	if err := cl.Connect(ctx); err != nil {
		return []finding{{"C16/history/cannot-connect", "Connect to the history-keeping server fails: " + err.Error()}}
	}
	monitored := map[string]map[string]bool{}
	allCols := map[string]bool{"name": true, "n": true, "tags": true, "ports": true}
	for i := 0; i < nMon; i++ {
		tn := fmt.Sprintf("T%d", i)
		mon := cl.NewMonitor(client.WithTable(m.NewModel(tn, "", nil)))
		mon.Method = methods[i]
		if _, err := cl.Monitor(ctx, mon); err != nil {
			return []finding{{"C16/history/monitor-failed/" + methods[i], "Monitor fails against the history-keeping server: " + err.Error()}}
		}
		monitored[tn] = allCols
	}
	var fs []finding
	compare := func(stage string) bool {
		post := hs.snapshot()
		d := ""
		for i := 0; i < 1000; i++ {
			if d = cacheDiff(m, cl, post, monitored); d == "" {
				return true
			}
			time.Sleep(10 * time.Millisecond)
		}
		fs = append(fs, finding{fmt.Sprintf("C16/history/%s/monitors=%d/forgotten=%v/%s", stage, nMon, forget, cacheDiffClass(d)),
			fmt.Sprintf("%s (monitors %v, history forgotten: %v): the cache does not converge to the server's database: %s", stage, methods, forget, d)})
		return false
	}
	churn() // update3 notifications: the monitors learn transaction ids
	if !compare("before-any-cut") {
		return fs
	}
	for k := 0; k < cuts; k++ {
		px.Refuse(2 + p.Intn(3)) // keep the client away while the database changes
		px.CutAll()
		churn()
		churn()
		if forget && k == 0 {
			hs.forget()
		}
		// bounded progress
		last, quiet := px.Accepted(), 0
		for !cl.Connected() {
			time.Sleep(10 * time.Millisecond)
			if a := px.Accepted(); a != last {
				last, quiet = a, 0
			} else if quiet++; quiet > 2000 {
				return append(fs, finding{"C16/history/does-not-reconnect", "20 s after the last connection attempt the client is still not connected"})
			}
		}
		churn()
		if !compare(fmt.Sprintf("after-reconnect-%d", k+1)) {
			return fs
		}
	}
	hs.mu.Lock()
	r.Count("history.monitor_cond_since-answered-found=true", hs.foundTrue)
	r.Count("history.monitor_cond_since-answered-found=false", hs.foundFalse)
	r.Count("history.update3-notifications", hs.update3)
	hs.mu.Unlock()
	return fs
}

// c16HistPart runs the history sessions assigned to this batch.
func c16HistPart(r *ev.Run, m *dyn.Model, batch, nb int) {
	S, C := ovsdb.ConditionalMonitorSinceRPC, ovsdb.ConditionalMonitorRPC
	shapes := [][]string{{S}, {S, S}, {S, C}, {C, S}, {S, S, S}, {S, C, S}}
	idx := 0
	for _, methods := range shapes {
		for _, forget := range []bool{false, true} {
			for cuts := 1; cuts <= 2; cuts++ {
				idx++
				if idx%nb != batch {
					continue
				}
				r.LogCase(fmt.Sprintf("C16 history methods=%v forget=%v cuts=%d", methods, forget, cuts))
				fs := c16HistSession(r, m, len(methods), methods, forget, cuts, batch, 700000+idx)
				r.Eval(1)
				r.Distinct(fmt.Sprintf("history|%v|%v|%d", methods, forget, cuts))
				r.Count("sessions.history-server", 1)
				for _, f := range fs {
					r.Violation(f.Sig, f.What, map[string]interface{}{"methods": methods, "history_forgotten": forget, "cuts": cuts})
				}
			}
		}
	}
}

// injectInapplicable sends every monitor of the server a notification that no
// cache can apply (modify of a row that does not exist in a table the client
// knows but does not monitor): what a client sees when a monitor request of its
// own timed out locally but was registered by the server.
func (h *histServer) injectInapplicable(table string) {
	h.mu.Lock()
	mons := append([]*histMon{}, h.mons...)
	id := h.hist[len(h.hist)-1].id
	bogus := HistUpdates{table: {h.p.UUID(): {"modify": map[string]interface{}{"n": 5}}}}
	h.mu.Unlock()
	for _, mo := range mons {
		var reply interface{}
		var args []interface{}
		method := "update2"
		switch mo.method {
		case "monitor_cond_since":
			method, args = "update3", []interface{}{mo.id, id, bogus}
		case "monitor":
			continue
		default:
			args = []interface{}{mo.id, bogus}
		}
		call := mo.c.Go(method, args, &reply, make(chan *rpc2.Call, 1))
		select {
		case <-call.Done:
		case <-time.After(2 * time.Second):
		}
		return // once is enough
	}
}
