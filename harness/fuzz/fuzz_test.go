package fuzz

import (
	"encoding/json"
	"testing"

	"github.com/ovn-org/libovsdb/ovsdb"
)

// FuzzDecoders feeds arbitrary bytes to every exported wire type. The oracle
// is the fuzzing engine itself: a panic is a crasher.
func FuzzDecoders(f *testing.F) {
	for _, s := range []string{
		`["set",[1,2]]`, `["map",[["a","b"]]]`, `["uuid","00000001-0000-4000-8000-000000000000"]`, `["named-uuid","row1"]`,
		`{"name":"x","ports":["set",[["uuid","00000001-0000-4000-8000-000000000000"]]],"external_ids":["map",[["k","v"]]]}`,
		`["name","==","x"]`, `["n","+=",1]`, `{"op":"insert","table":"T","row":{"name":"x"},"uuid-name":"r"}`,
		`{"op":"select","table":"T","where":[["_uuid","==",["uuid","00000001-0000-4000-8000-000000000000"]]],"columns":["name"]}`,
		`{"T":{"00000001-0000-4000-8000-000000000000":{"new":{"name":"x"},"old":{"name":"y"}}}}`,
		`{"T":{"00000001-0000-4000-8000-000000000000":{"modify":{"ports":["set",[]]}}}}`,
		`[true,"00000001-0000-4000-8000-000000000000",{"T":{"00000001-0000-4000-8000-000000000000":{"initial":{"name":"x"}}}}]`,
		`{"columns":["a"],"where":[["a","==",1]],"select":{"initial":true,"modify":false}}`,
		`{"count":1,"uuid":["uuid","00000001-0000-4000-8000-000000000000"],"rows":[{"a":1}],"error":"x","details":"y"}`,
		`{"name":"DB","version":"1.0.0","tables":{"T":{"columns":{"name":{"type":"string"},"s":{"type":{"key":{"type":"uuid","refTable":"T","refType":"weak"},"min":0,"max":"unlimited"}},"e":{"type":{"key":{"type":"string","enum":["set",["a","b"]]}}},"m":{"type":{"key":"string","value":{"type":"integer","minInteger":0,"maxInteger":5},"min":0,"max":3}}},"indexes":[["name"]],"isRoot":true}}}`,
		`{"type":"string","minLength":1,"maxLength":5}`, `{"key":"integer","min":0,"max":"unlimited"}`, `[]`, `{}`, `null`, `1`, `"x"`,
	} {
		f.Add([]byte(s))
	}
	f.Fuzz(func(t *testing.T, b []byte) {
		var v0 ovsdb.OvsSet
		_ = json.Unmarshal(b, &v0)
		var v1 ovsdb.OvsMap
		_ = json.Unmarshal(b, &v1)
		var v2 ovsdb.UUID
		_ = json.Unmarshal(b, &v2)
		var v3 ovsdb.Row
		_ = json.Unmarshal(b, &v3)
		var v4 ovsdb.Condition
		_ = json.Unmarshal(b, &v4)
		var v5 ovsdb.Mutation
		_ = json.Unmarshal(b, &v5)
		var v6 ovsdb.Operation
		_ = json.Unmarshal(b, &v6)
		var v7 ovsdb.TableUpdates
		_ = json.Unmarshal(b, &v7)
		var v8 ovsdb.TableUpdates2
		_ = json.Unmarshal(b, &v8)
		var v9 ovsdb.MonitorRequest
		_ = json.Unmarshal(b, &v9)
		var v10 ovsdb.MonitorCondSinceReply
		_ = json.Unmarshal(b, &v10)
		var v11 ovsdb.OperationResult
		_ = json.Unmarshal(b, &v11)
		var v12 ovsdb.DatabaseSchema
		_ = json.Unmarshal(b, &v12)
		var v13 ovsdb.ColumnSchema
		_ = json.Unmarshal(b, &v13)
		var v14 ovsdb.ColumnType
		_ = json.Unmarshal(b, &v14)
		var v15 ovsdb.BaseType
		_ = json.Unmarshal(b, &v15)
		var v16 ovsdb.MonitorSelect
		_ = json.Unmarshal(b, &v16)
	})
}
