package main

import (
	"fmt"
	"os"
	"strconv"

	"verifharness/checks"
	"verifharness/internal/ev"
)

func main() {
	if len(os.Args) == 3 && os.Args[1] == "debug" {
		checks.Silence()
		os.Exit(checks.DebugReplay(os.Args[2]))
	}
	if len(os.Args) < 4 {
		fmt.Fprintln(os.Stderr, "usage: check check|child <Cxx> <quick|thorough> [batch]")
		os.Exit(2)
	}
	mode, prop, tier := os.Args[1], os.Args[2], os.Args[3]
	e, ok := checks.Registry[prop]
	if !ok {
		fmt.Printf("BROKEN: no check registered for %s\n", prop)
		os.Exit(2)
	}
	run := ev.NewRun(prop, tier)
	switch mode {
	case "check":
		e.Parent(run)
		os.Exit(run.Finish())
	case "child":
		b := 0
		if len(os.Args) > 4 {
			b, _ = strconv.Atoi(os.Args[4])
		}
		checks.Silence()
		e.Child(run, b)
		os.Exit(run.Finish())
	}
	os.Exit(2)
}
