// Package gen generates values, conditions, mutations, operations and whole
// transactions for a schema, biased to the edges the properties name: few keys
// and many touches, empty/singleton/multi collections, values returning to
// their default, references added, moved and removed.
package gen

import (
	"fmt"
	"sort"

	"verifharness/internal/prng"
	"verifharness/internal/ref"
	"verifharness/internal/tspace"
)

type G struct {
	P *prng.R
	S *tspace.Schema
	// knobs
	DanglingPct int  // chance (percent) that a reference atom points to a missing row
	NamePool    int  // size of the pool of "name" values (collisions for indexes)
	NoWait      bool // do not generate wait operations
	NoSelect    bool
	named       int
}

func New(p *prng.R, s *tspace.Schema) *G { return &G{P: p, S: s, DanglingPct: 4, NamePool: 5} }

var ints = []int64{0, 1, 2, 3, -1, 7}
var reals = []float64{0, 0.5, 1.5, -2.25, 3}
var strs = []string{"", "a", "b", "c", "row0", "x y"}

func sortedKeys(m map[string]ref.Row) []string {
	out := make([]string, 0, len(m))
	for k := range m {
		out = append(out, k)
	}
	sort.Strings(out)
	return out
}

// Existing returns the uuid of a random existing row of a table ("" if none).
func (g *G) Existing(db *ref.DB, table string) string {
	ks := sortedKeys(db.T[table])
	if len(ks) == 0 {
		return ""
	}
	return ks[g.P.Intn(len(ks))]
}

// Atom generates one atom of a base type. extra are uuids of rows being
// inserted in the same transaction (valid reference targets).
func (g *G) Atom(b tspace.Base, db *ref.DB, extra map[string][]string) ref.Atom {
	if len(b.Enum) > 0 {
		switch e := b.Enum[g.P.Intn(len(b.Enum))].(type) {
		case int:
			return ref.Int(int64(e))
		case float64:
			return ref.Real(e)
		case string:
			return ref.Str(e)
		}
	}
	switch b.Type {
	case "integer":
		return ref.Int(ints[g.P.Intn(len(ints))])
	case "real":
		return ref.Real(reals[g.P.Intn(len(reals))])
	case "boolean":
		return ref.Bool(g.P.Bool())
	case "string":
		return ref.Str(strs[g.P.Intn(len(strs))])
	}
	// uuid
	if b.RefTable != "" {
		if g.P.Intn(100) >= g.DanglingPct {
			var cands []string
			if db != nil {
				cands = sortedKeys(db.T[b.RefTable])
			}
			cands = append(cands, extra[b.RefTable]...)
			if len(cands) > 0 {
				return ref.UUID(cands[g.P.Intn(len(cands))])
			}
		}
		return ref.UUID(g.P.UUID())
	}
	// plain uuid from a small pool
	return ref.UUID(fmt.Sprintf("0000000%d-0000-4000-8000-000000000000", g.P.Intn(4)+1))
}

// Value generates an in-domain value of a column.
func (g *G) Value(c *tspace.Col, db *ref.DB, extra map[string][]string) ref.Datum {
	if c.IsMap() {
		d := ref.Datum{Map: true}
		n := []int{0, 0, 1, 2, 3}[g.P.Intn(5)]
		if c.Max != -1 && n > c.Max {
			n = c.Max
		}
		if n < c.Min {
			n = c.Min
		}
		for tries := 0; d.Len() < n && tries < 20; tries++ {
			d = d.WithPair(g.Atom(c.Key, db, extra), g.Atom(*c.Val, db, extra))
		}
		return d
	}
	if c.IsScalar() {
		return ref.Set(g.Atom(c.Key, db, extra))
	}
	n := []int{0, 0, 1, 1, 2, 3}[g.P.Intn(6)]
	if c.Max != -1 && n > c.Max {
		n = c.Max
	}
	if n < c.Min {
		n = c.Min
	}
	d := ref.Datum{}
	for tries := 0; d.Len() < n && tries < 20; tries++ {
		d = d.With(g.Atom(c.Key, db, extra))
	}
	if d.Len() < c.Min {
		// could not reach the minimum with distinct values (tiny universe)
		for i := 0; d.Len() < c.Min && i < 50; i++ {
			switch c.Key.Type {
			case "integer":
				d = d.With(ref.Int(int64(100 + i)))
			case "string":
				d = d.With(ref.Str(fmt.Sprintf("s%d", i)))
			case "real":
				d = d.With(ref.Real(float64(i) + 0.25))
			case "uuid":
				d = d.With(ref.UUID(g.P.UUID()))
			default:
				d = d.With(ref.Bool(i%2 == 0))
			}
		}
	}
	return d
}

// Name generates a value for the "name" column from a small pool.
func (g *G) Name() ref.Datum {
	return ref.Set(ref.Str(fmt.Sprintf("n%d", g.P.Intn(g.NamePool))))
}

// condFns lists the functions RFC 7047 defines for a column.
func condFns(c *tspace.Col) []string {
	if c.IsScalar() && (c.Key.Type == "integer" || c.Key.Type == "real") && len(c.Key.Enum) == 0 {
		return []string{"==", "!=", "<", "<=", ">", ">=", "includes", "excludes"}
	}
	return []string{"==", "!=", "includes", "excludes"}
}

// Cond generates a well-typed condition on a table, biased to hit existing rows.
func (g *G) Cond(t *tspace.Table, db *ref.DB) ref.Cond {
	rows := sortedKeys(db.T[t.Name])
	// by uuid
	if g.P.Chance(2, 5) {
		u := g.P.UUID()
		if len(rows) > 0 && g.P.Chance(9, 10) {
			u = rows[g.P.Intn(len(rows))]
		}
		fn := "=="
		switch g.P.Intn(8) {
		case 0:
			fn = "!="
		case 1:
			fn = "includes"
		case 2:
			fn = "excludes"
		}
		return ref.Cond{Col: "_uuid", Fn: fn, Val: ref.Set(ref.UUID(u))}
	}
	c := t.Cols[g.P.Intn(len(t.Cols))]
	fns := condFns(c)
	fn := fns[g.P.Intn(len(fns))]
	var val ref.Datum
	if len(rows) > 0 && g.P.Chance(2, 3) {
		// derive from an existing row's value
		have := db.T[t.Name][rows[g.P.Intn(len(rows))]][c.Name]
		val = have
		if (fn == "includes" || fn == "excludes") && have.Len() > 1 && g.P.Bool() {
			// a sub-collection
			sub := ref.Datum{Map: have.Map}
			for i, k := range have.K {
				if g.P.Bool() {
					if have.Map {
						sub = sub.WithPair(k, have.V[i])
					} else {
						sub = sub.With(k)
					}
				}
			}
			val = sub
		}
	} else if c.Name == "name" {
		val = g.Name()
	} else {
		val = g.Value(c, db, nil)
	}
	if c.IsMap() && !val.Map {
		val = ref.Datum{Map: true}
	}
	// the all-zero uuid is the RFC default of a uuid column, which the
	// library spells "": comparisons against it are outside the type space
	for tries := 0; hasZeroUUID(val) && tries < 5; tries++ {
		val = g.Value(c, db, nil)
	}
	if hasZeroUUID(val) {
		return ref.Cond{Col: "_uuid", Fn: "!=", Val: ref.Set(ref.UUID(g.P.UUID()))}
	}
	return ref.Cond{Col: c.Name, Fn: fn, Val: val}
}

// Where generates a condition list of length 0..3.
func (g *G) Where(t *tspace.Table, db *ref.DB) []ref.Cond {
	n := []int{0, 1, 1, 1, 1, 2, 2, 3}[g.P.Intn(8)]
	var out []ref.Cond
	for i := 0; i < n; i++ {
		out = append(out, g.Cond(t, db))
	}
	return out
}

// Mut generates a well-typed mutation for a column (ok=false if none exists).
func (g *G) Mut(c *tspace.Col, db *ref.DB, extra map[string][]string) (ref.Mut, bool) {
	// (now and then an immutable column is mutated: the operation must be refused whatever
	// the column's kind)
	if len(c.Key.Enum) > 0 || (c.Immutable && !g.P.Chance(1, 5)) {
		return ref.Mut{}, false
	}
	switch {
	case c.IsMap():
		if g.P.Bool() {
			v := g.Value(c, db, extra)
			if v.Len() == 0 {
				v = v.WithPair(g.Atom(c.Key, db, extra), g.Atom(*c.Val, db, extra))
			}
			return ref.Mut{Col: c.Name, Mutator: "insert", Val: v}, true
		}
		if g.P.Bool() {
			v := g.Value(c, db, extra)
			return ref.Mut{Col: c.Name, Mutator: "delete", Val: v}, true
		}
		keys := ref.Datum{}
		for i := g.P.Intn(3); i >= 0; i-- {
			keys = keys.With(g.Atom(c.Key, db, extra))
		}
		return ref.Mut{Col: c.Name, Mutator: "delete", Val: keys}, true
	case c.IsScalar():
		if c.Key.Type != "integer" && c.Key.Type != "real" {
			return ref.Mut{}, false
		}
		ms := []string{"+=", "-=", "*=", "/="}
		if c.Key.Type == "integer" {
			ms = append(ms, "%=")
		}
		m := ms[g.P.Intn(len(ms))]
		var arg ref.Atom
		if c.Key.Type == "integer" {
			arg = ref.Int([]int64{1, 2, 3, -1, 5}[g.P.Intn(5)])
		} else {
			arg = ref.Real([]float64{1, 0.5, 2, -1.5}[g.P.Intn(4)])
		}
		return ref.Mut{Col: c.Name, Mutator: m, Val: ref.Set(arg)}, true
	case c.IsOptional():
		return ref.Mut{}, false
	}
	// set
	m := []string{"insert", "delete"}[g.P.Intn(2)]
	v := ref.Datum{}
	for i := g.P.Intn(3); i >= 0; i-- {
		v = v.With(g.Atom(c.Key, db, extra))
	}
	return ref.Mut{Col: c.Name, Mutator: m, Val: v}, true
}

// InsertRow generates the given columns of an insert.
func (g *G) InsertRow(t *tspace.Table, db *ref.DB, extra map[string][]string) ref.Row {
	row := ref.Row{}
	for _, c := range t.Cols {
		if c.Name == "name" {
			row[c.Name] = g.Name()
			continue
		}
		must := c.Min > 0 && !c.IsScalar() || (c.IsScalar() && c.Key.IsRef())
		if must || g.P.Chance(3, 5) {
			row[c.Name] = g.Value(c, db, extra)
		}
	}
	return row
}

// UpdateRow generates the columns of an update.
func (g *G) UpdateRow(t *tspace.Table, db *ref.DB, extra map[string][]string, allowImmutable bool) ref.Row {
	row := ref.Row{}
	for tries := 0; len(row) == 0 && tries < 10; tries++ {
		for _, c := range t.Cols {
			if c.Immutable && !allowImmutable {
				continue
			}
			if g.P.Chance(1, 3) {
				if c.Name == "name" {
					row[c.Name] = g.Name()
				} else if g.P.Chance(1, 5) && !(c.IsScalar() && c.Key.Type == "uuid") {
					row[c.Name] = ref.Default(c) // back to default
					if c.Min > 0 && !c.IsScalar() {
						row[c.Name] = g.Value(c, db, extra)
					}
				} else {
					row[c.Name] = g.Value(c, db, extra)
				}
			}
		}
	}
	return row
}

// Txn generates one transaction against the given state.
func (g *G) Txn(db *ref.DB) []ref.Op {
	n := []int{1, 1, 2, 2, 3, 4, 5}[g.P.Intn(7)]
	var ops []ref.Op
	extra := map[string][]string{}
	// pre-plan inserts so that earlier operations may reference later rows
	for i := 0; i < n; i++ {
		t := g.S.Tables[g.P.Intn(len(g.S.Tables))]
		nrows := len(db.T[t.Name])
		kind := g.pickKind(nrows)
		op := ref.Op{Kind: kind, Table: t.Name}
		switch kind {
		case "insert":
			op.UUID = g.P.UUID()
			if g.P.Chance(1, 4) {
				g.named++
				op.UUIDName = fmt.Sprintf("row%d", g.named)
			}
			extra[t.Name] = append(extra[t.Name], op.UUID)
		}
		ops = append(ops, op)
	}
	for i := range ops {
		op := &ops[i]
		t := g.S.Table(op.Table)
		switch op.Kind {
		case "insert":
			op.Row = g.InsertRow(t, db, extra)
		case "select":
			op.Where = g.Where(t, db)
			if g.P.Bool() {
				for _, c := range t.Cols {
					if g.P.Bool() {
						op.Columns = append(op.Columns, c.Name)
					}
				}
				if g.P.Chance(1, 3) {
					op.Columns = append(op.Columns, "_uuid")
				}
			}
		case "update":
			op.Where = g.Where(t, db)
			op.Row = g.UpdateRow(t, db, extra, g.P.Chance(1, 10))
		case "mutate":
			op.Where = g.Where(t, db)
			for tries := 0; len(op.Muts) == 0 && tries < 10; tries++ {
				for k := g.P.Intn(3); k >= 0; k-- {
					c := t.Cols[g.P.Intn(len(t.Cols))]
					if m, ok := g.Mut(c, db, extra); ok {
						op.Muts = append(op.Muts, m)
					}
				}
			}
			if len(op.Muts) == 0 {
				op.Kind = "select"
			}
		case "delete":
			op.Where = g.Where(t, db)
			if len(op.Where) == 0 && g.P.Chance(4, 5) {
				op.Where = []ref.Cond{g.Cond(t, db)}
			}
		case "wait":
			zero := 0
			op.Timeout = &zero
			op.Until = []string{"==", "!="}[g.P.Intn(2)]
			op.Where = g.Where(t, db)
			for _, c := range t.Cols {
				if g.P.Chance(1, 3) {
					op.Columns = append(op.Columns, c.Name)
				}
			}
			if len(op.Columns) == 0 {
				op.Columns = []string{"name"}
			}
			// expected rows: usually the true projection of the matching rows
			us, _ := db.Match(t.Name, op.Where)
			for _, u := range us {
				r := ref.Row{}
				for _, cn := range op.Columns {
					r[cn] = db.T[t.Name][u][cn]
				}
				op.Rows = append(op.Rows, r)
			}
			if g.P.Chance(1, 3) && len(op.Rows) > 0 {
				op.Rows = op.Rows[:len(op.Rows)-1]
			} else if g.P.Chance(1, 4) {
				r := ref.Row{}
				for _, cn := range op.Columns {
					r[cn] = g.Value(t.Col(cn), db, nil)
				}
				op.Rows = append(op.Rows, r)
			}
			// the all-zero uuid and the unset uuid are one value inside the library:
			// columns where it occurs are not compared
			var keep []string
			for _, cn := range op.Columns {
				zero := false
				for _, r := range op.Rows {
					if hasZeroUUID(r[cn]) {
						zero = true
					}
				}
				for _, u := range us {
					if hasZeroUUID(db.T[t.Name][u][cn]) {
						zero = true
					}
				}
				if !zero {
					keep = append(keep, cn)
				}
			}
			if len(keep) != len(op.Columns) {
				if len(keep) == 0 {
					keep = []string{"name"}
				}
				for i, r := range op.Rows {
					nr := ref.Row{}
					for _, cn := range keep {
						if d, ok := r[cn]; ok {
							nr[cn] = d
						} else if len(us) > i {
							nr[cn] = db.T[t.Name][us[i]][cn]
						} else {
							nr[cn] = g.Value(t.Col(cn), db, nil)
						}
					}
					op.Rows[i] = nr
				}
				op.Columns = keep
			}
		}
	}
	return ops
}

func (g *G) pickKind(nrows int) string {
	x := g.P.Intn(100)
	if nrows == 0 && x < 60 {
		return "insert"
	}
	switch {
	case x < 28:
		return "insert"
	case x < 40:
		if g.NoSelect {
			return "update"
		}
		return "select"
	case x < 62:
		return "update"
	case x < 82:
		return "mutate"
	case x < 95:
		return "delete"
	}
	if g.NoWait {
		return "select"
	}
	return "wait"
}

func hasZeroUUID(d ref.Datum) bool {
	for _, k := range d.K {
		if k.T == 'u' && (k.S == ref.ZeroUUID || k.S == "") {
			return true
		}
	}
	for _, v := range d.V {
		if v.T == 'u' && (v.S == ref.ZeroUUID || v.S == "") {
			return true
		}
	}
	return false
}
