// Package dyn builds run-time model types (reflect.StructOf) for a generated
// schema and converts between the reference model's datums and the library's
// native / wire representations. The native type of a column is recomputed
// here independently of ovsdb.NativeType.
package dyn

import (
	"encoding/json"
	"fmt"
	"math"
	"reflect"
	"sort"
	"strings"

	"github.com/ovn-org/libovsdb/model"
	"github.com/ovn-org/libovsdb/ovsdb"
	"verifharness/internal/ref"
	"verifharness/internal/tspace"
)

// Model bundles a schema with its run-time Go types and library models.
type Model struct {
	S       *tspace.Schema
	Types   map[string]reflect.Type // table -> struct type
	Client  model.ClientDBModel
	DB      model.DatabaseModel
	Ovs     ovsdb.DatabaseSchema
	fieldOf map[string]map[string]string // table -> column -> field name
}

func atomGoType(t string) reflect.Type {
	switch t {
	case "integer":
		return reflect.TypeOf(int(0))
	case "real":
		return reflect.TypeOf(float64(0))
	case "boolean":
		return reflect.TypeOf(false)
	}
	return reflect.TypeOf("")
}

// GoType is the harness's own computation of the native type of a column.
func GoType(c *tspace.Col) reflect.Type {
	k := atomGoType(c.Key.Type)
	switch {
	case c.IsMap():
		return reflect.MapOf(k, atomGoType(c.Val.Type))
	case c.IsScalar():
		return k
	case c.IsOptional():
		return reflect.PtrTo(k)
	}
	return reflect.SliceOf(k)
}

// FieldName is the Go field name used for a column.
func FieldName(col string) string {
	var sb strings.Builder
	sb.WriteString("C")
	up := true
	for _, r := range col {
		if r == '_' {
			sb.WriteRune('_')
			up = true
			continue
		}
		if up && r >= 'a' && r <= 'z' {
			r = r - 'a' + 'A'
		}
		up = false
		sb.WriteRune(r)
	}
	return sb.String()
}

// Build creates struct types and the library's database model for a schema.
// indexes are optional client indexes (table -> list).
func Build(s *tspace.Schema, indexes map[string][]model.ClientIndex) (*Model, error) {
	m := &Model{S: s, Types: map[string]reflect.Type{}, fieldOf: map[string]map[string]string{}}
	models := map[string]model.Model{}
	for _, t := range s.Tables {
		fields := []reflect.StructField{{Name: "UUID", Type: reflect.TypeOf(""), Tag: `ovsdb:"_uuid"`}}
		m.fieldOf[t.Name] = map[string]string{"_uuid": "UUID"}
		for _, c := range t.Cols {
			fn := FieldName(c.Name)
			fields = append(fields, reflect.StructField{Name: fn, Type: GoType(c), Tag: reflect.StructTag(fmt.Sprintf(`ovsdb:"%s"`, c.Name))})
			m.fieldOf[t.Name][c.Name] = fn
		}
		// two tables with the same columns must not share one Go type (the
		// library keys its metadata by type): add an untagged marker field
		fields = append(fields, reflect.StructField{Name: "XTable" + FieldName(t.Name), Type: reflect.TypeOf(false)})
		st := reflect.StructOf(fields)
		m.Types[t.Name] = st
		models[t.Name] = reflect.New(st).Interface()
	}
	var err error
	m.Client, err = model.NewClientDBModel(s.Name, models)
	if err != nil {
		return nil, err
	}
	if indexes != nil {
		m.Client.SetIndexes(indexes)
	}
	if err := json.Unmarshal(s.JSON(), &m.Ovs); err != nil {
		return nil, fmt.Errorf("schema decode: %v", err)
	}
	var errs []error
	m.DB, errs = model.NewDatabaseModel(m.Ovs, m.Client)
	if len(errs) > 0 {
		return nil, fmt.Errorf("NewDatabaseModel: %v", errs)
	}
	return m, nil
}

// ---- datum <-> native ---------------------------------------------------------------

func atomToGo(a ref.Atom) interface{} {
	switch a.T {
	case 'i':
		return int(a.I)
	case 'r':
		return a.F
	case 'b':
		return a.B
	}
	return a.S
}

func goToAtom(t string, v reflect.Value) ref.Atom {
	switch t {
	case "integer":
		return ref.Int(v.Int())
	case "real":
		return ref.Real(v.Float())
	case "boolean":
		return ref.Bool(v.Bool())
	case "string":
		return ref.Str(v.String())
	}
	return ref.UUID(ref.NormUUID(v.String()))
}

// ToNative converts a datum into the Go value of the column's field.
func ToNative(c *tspace.Col, d ref.Datum) interface{} {
	gt := GoType(c)
	switch {
	case c.IsMap():
		mv := reflect.MakeMapWithSize(gt, d.Len())
		for i, k := range d.K {
			mv.SetMapIndex(reflect.ValueOf(atomToGo(k)), reflect.ValueOf(atomToGo(d.V[i])))
		}
		return mv.Interface()
	case c.IsScalar():
		if d.Len() == 0 {
			return reflect.Zero(gt).Interface()
		}
		return atomToGo(d.K[0])
	case c.IsOptional():
		if d.Len() == 0 {
			return reflect.Zero(gt).Interface()
		}
		p := reflect.New(gt.Elem())
		p.Elem().Set(reflect.ValueOf(atomToGo(d.K[0])))
		return p.Interface()
	}
	sv := reflect.MakeSlice(gt, 0, d.Len())
	for _, k := range d.K {
		sv = reflect.Append(sv, reflect.ValueOf(atomToGo(k)))
	}
	return sv.Interface()
}

// FromNative converts a field value into a datum; duplicates in a slice are an error.
func FromNative(c *tspace.Col, v interface{}) (ref.Datum, error) {
	rv := reflect.ValueOf(v)
	if !rv.IsValid() {
		return ref.Default(c), nil
	}
	switch {
	case c.IsMap():
		if rv.Kind() != reflect.Map {
			return ref.Datum{}, fmt.Errorf("column %s: %T is not a map", c.Name, v)
		}
		d := ref.Datum{Map: true}
		it := rv.MapRange()
		for it.Next() {
			d = d.WithPair(goToAtom(c.Key.Type, it.Key()), goToAtom(c.Val.Type, it.Value()))
		}
		return d, nil
	case c.IsScalar():
		return ref.Set(goToAtom(c.Key.Type, rv)), nil
	case c.IsOptional():
		if rv.Kind() != reflect.Ptr {
			return ref.Datum{}, fmt.Errorf("column %s: %T is not a pointer", c.Name, v)
		}
		if rv.IsNil() {
			return ref.Datum{}, nil
		}
		return ref.Set(goToAtom(c.Key.Type, rv.Elem())), nil
	}
	if rv.Kind() != reflect.Slice {
		return ref.Datum{}, fmt.Errorf("column %s: %T is not a slice", c.Name, v)
	}
	d := ref.Datum{}
	for i := 0; i < rv.Len(); i++ {
		a := goToAtom(c.Key.Type, rv.Index(i))
		if d.Has(a) {
			return d, fmt.Errorf("column %s: duplicate set element %s", c.Name, a)
		}
		d = d.With(a)
	}
	return d, nil
}

// RowOf converts a library model of a table into (uuid, full row).
func (m *Model) RowOf(table string, mdl model.Model) (string, ref.Row, error) {
	t := m.S.Table(table)
	rv := reflect.ValueOf(mdl)
	if rv.Kind() != reflect.Ptr || rv.IsNil() {
		return "", nil, fmt.Errorf("model %T is not a non-nil pointer", mdl)
	}
	rv = rv.Elem()
	row := ref.Row{}
	for _, c := range t.Cols {
		f := rv.FieldByName(m.fieldOf[table][c.Name])
		if !f.IsValid() {
			return "", nil, fmt.Errorf("model has no field for %s", c.Name)
		}
		d, err := FromNative(c, f.Interface())
		if err != nil {
			return "", nil, err
		}
		row[c.Name] = d
	}
	return rv.FieldByName("UUID").String(), row, nil
}

// NewModel builds a library model from (uuid, row); missing columns get defaults.
func (m *Model) NewModel(table, uuid string, row ref.Row) model.Model {
	t := m.S.Table(table)
	pv := reflect.New(m.Types[table])
	pv.Elem().FieldByName("UUID").SetString(uuid)
	for _, c := range t.Cols {
		d, ok := row[c.Name]
		if !ok {
			continue
		}
		nv := ToNative(c, d)
		if c.Key.Type == "uuid" && c.IsScalar() && d.Len() == 1 && d.K[0].S == ref.ZeroUUID {
			nv = ""
		}
		pv.Elem().FieldByName(m.fieldOf[table][c.Name]).Set(reflect.ValueOf(nv))
	}
	return pv.Interface()
}

// FieldPtr returns a pointer to the field of a column inside a model.
func (m *Model) FieldPtr(table string, mdl model.Model, col string) interface{} {
	return reflect.ValueOf(mdl).Elem().FieldByName(m.fieldOf[table][col]).Addr().Interface()
}

// Field returns the Go value of a column's field.
func (m *Model) Field(table string, mdl model.Model, col string) interface{} {
	return reflect.ValueOf(mdl).Elem().FieldByName(m.fieldOf[table][col]).Interface()
}

// ---- datum <-> wire -------------------------------------------------------------------

func atomToOvs(a ref.Atom) interface{} {
	switch a.T {
	case 'i':
		return int(a.I)
	case 'r':
		return a.F
	case 'b':
		return a.B
	case 's':
		return a.S
	}
	return ovsdb.UUID{GoUUID: a.S}
}

// ToOvs converts a datum to the value placed in an ovsdb.Row / condition /
// mutation: scalars as bare atoms, other sets as OvsSet, maps as OvsMap.
func ToOvs(c *tspace.Col, d ref.Datum) interface{} {
	if d.Map || (c.IsMap() && d.Len() == 0) {
		om := ovsdb.OvsMap{GoMap: map[interface{}]interface{}{}}
		for i, k := range d.K {
			om.GoMap[atomToOvs(k)] = atomToOvs(d.V[i])
		}
		return om
	}
	if c.IsScalar() && d.Len() == 1 {
		return atomToOvs(d.K[0])
	}
	os := ovsdb.OvsSet{GoSet: []interface{}{}}
	for _, k := range d.K {
		os.GoSet = append(os.GoSet, atomToOvs(k))
	}
	return os
}

func ovsAtom(t string, v interface{}) (ref.Atom, error) {
	switch t {
	case "integer":
		switch x := v.(type) {
		case float64:
			if x != math.Trunc(x) {
				return ref.Atom{}, fmt.Errorf("non-integral number %v for integer", x)
			}
			return ref.Int(int64(x)), nil
		case int:
			return ref.Int(int64(x)), nil
		case int64:
			return ref.Int(x), nil
		}
	case "real":
		switch x := v.(type) {
		case float64:
			return ref.Real(x), nil
		case int:
			return ref.Real(float64(x)), nil
		}
	case "boolean":
		if x, ok := v.(bool); ok {
			return ref.Bool(x), nil
		}
	case "string":
		if x, ok := v.(string); ok {
			return ref.Str(x), nil
		}
	case "uuid":
		switch x := v.(type) {
		case ovsdb.UUID:
			return ref.UUID(ref.NormUUID(x.GoUUID)), nil
		case string:
			return ref.UUID(ref.NormUUID(x)), nil
		}
	}
	return ref.Atom{}, fmt.Errorf("value %v (%T) is not a %s", v, v, t)
}

// FromOvs converts a decoded wire value of a column into a datum.
func FromOvs(c *tspace.Col, v interface{}) (ref.Datum, error) {
	switch x := v.(type) {
	case ovsdb.OvsMap:
		if !c.IsMap() {
			return ref.Datum{}, fmt.Errorf("column %s: map value for non-map column", c.Name)
		}
		d := ref.Datum{Map: true}
		for k, val := range x.GoMap {
			ka, err := ovsAtom(c.Key.Type, k)
			if err != nil {
				return d, err
			}
			va, err := ovsAtom(c.Val.Type, val)
			if err != nil {
				return d, err
			}
			if d.Has(ka) {
				return d, fmt.Errorf("column %s: duplicate map key %s", c.Name, ka)
			}
			d = d.WithPair(ka, va)
		}
		return d, nil
	case ovsdb.OvsSet:
		if c.IsMap() {
			if len(x.GoSet) == 0 {
				return ref.Datum{Map: true}, nil
			}
			return ref.Datum{}, fmt.Errorf("column %s: set value for map column", c.Name)
		}
		d := ref.Datum{}
		for _, e := range x.GoSet {
			a, err := ovsAtom(c.Key.Type, e)
			if err != nil {
				return d, err
			}
			if d.Has(a) {
				return d, fmt.Errorf("column %s: duplicate set element %s", c.Name, a)
			}
			d = d.With(a)
		}
		return d, nil
	}
	if c.IsMap() {
		return ref.Datum{}, fmt.Errorf("column %s: atom %v for map column", c.Name, v)
	}
	a, err := ovsAtom(c.Key.Type, v)
	if err != nil {
		return ref.Datum{}, err
	}
	return ref.Set(a), nil
}

// RowFromOvs converts a decoded wire row; absent columns are reported in the
// second result.
func (m *Model) RowFromOvs(table string, r ovsdb.Row) (ref.Row, error) {
	t := m.S.Table(table)
	out := ref.Row{}
	for cn, v := range r {
		if cn == "_uuid" || cn == "_version" {
			continue
		}
		c := t.Col(cn)
		if c == nil {
			return nil, fmt.Errorf("unknown column %s in row of %s", cn, table)
		}
		d, err := FromOvs(c, v)
		if err != nil {
			return nil, err
		}
		out[cn] = d
	}
	return out, nil
}

func colOrUUID(t *tspace.Table, name string) *tspace.Col {
	if name == "_uuid" {
		return &tspace.Col{Name: "_uuid", Key: tspace.Base{Type: "uuid"}, Min: 1, Max: 1}
	}
	return t.Col(name)
}

func (m *Model) ovsRow(t *tspace.Table, r ref.Row) ovsdb.Row {
	if r == nil {
		return nil
	}
	out := ovsdb.Row{}
	for cn, d := range r {
		c := colOrUUID(t, cn)
		if c == nil {
			c = &tspace.Col{Name: cn, Key: tspace.Base{Type: "string"}, Min: 0, Max: -1}
		}
		out[cn] = ToOvs(c, d)
	}
	return out
}

// OvsOp converts a reference operation into the library's wire operation.
func (m *Model) OvsOp(op ref.Op) ovsdb.Operation {
	t := m.S.Table(op.Table)
	if t == nil {
		t = &tspace.Table{Name: op.Table}
	}
	o := ovsdb.Operation{Op: op.Kind, Table: op.Table, UUID: op.UUID, UUIDName: op.UUIDName, Until: op.Until, Timeout: op.Timeout}
	if op.Kind == "insert" || op.Kind == "update" {
		o.Row = m.ovsRow(t, op.Row)
		if o.Row == nil {
			o.Row = ovsdb.Row{}
		}
	}
	for _, r := range op.Rows {
		o.Rows = append(o.Rows, m.ovsRow(t, r))
	}
	if op.Columns != nil {
		o.Columns = append([]string{}, op.Columns...)
	}
	if op.Kind != "insert" {
		o.Where = []ovsdb.Condition{}
		for _, c := range op.Where {
			col := colOrUUID(t, c.Col)
			if col == nil {
				col = &tspace.Col{Name: c.Col, Key: tspace.Base{Type: "string"}, Min: 0, Max: -1}
			}
			o.Where = append(o.Where, ovsdb.Condition{Column: c.Col, Function: ovsdb.ConditionFunction(c.Fn), Value: ToOvs(col, c.Val)})
		}
	}
	for _, mu := range op.Muts {
		col := t.Col(mu.Col)
		var val interface{}
		switch {
		case col == nil:
			val = ToOvs(&tspace.Col{Name: mu.Col, Key: tspace.Base{Type: "string"}, Min: 0, Max: -1}, mu.Val)
		case !mu.Val.Map && mu.Val.Len() == 1 && (mu.Mutator != "insert" && mu.Mutator != "delete"):
			val = atomToOvs(mu.Val.K[0])
		case mu.Val.Map:
			val = ToOvs(col, mu.Val)
		default:
			os := ovsdb.OvsSet{GoSet: []interface{}{}}
			for _, k := range mu.Val.K {
				os.GoSet = append(os.GoSet, atomToOvs(k))
			}
			val = os
		}
		o.Mutations = append(o.Mutations, ovsdb.Mutation{Column: mu.Col, Mutator: ovsdb.Mutator(mu.Mutator), Value: val})
	}
	return o
}

// WireOps converts and JSON round-trips operations exactly as the server does
// before handing them to a transaction.
func (m *Model) WireOps(ops []ref.Op) ([]ovsdb.Operation, error) {
	out := make([]ovsdb.Operation, 0, len(ops))
	for _, op := range ops {
		b, err := json.Marshal(m.OvsOp(op))
		if err != nil {
			return nil, err
		}
		var o ovsdb.Operation
		if err := json.Unmarshal(b, &o); err != nil {
			return nil, fmt.Errorf("decode %s: %v", b, err)
		}
		out = append(out, o)
	}
	return out, nil
}

// Lister is the read surface of a database (database.Database satisfies it).
type Lister interface {
	List(database, table string, conditions ...ovsdb.Condition) (map[string]model.Model, error)
}

// Snapshot reads every table of the library database into a reference state.
func (m *Model) Snapshot(db Lister) (*ref.DB, error) {
	out := ref.NewDB(m.S)
	for _, t := range m.S.Tables {
		rows, err := db.List(m.S.Name, t.Name)
		if err != nil {
			return nil, fmt.Errorf("List(%s): %v", t.Name, err)
		}
		for u, mdl := range rows {
			mu, row, err := m.RowOf(t.Name, mdl)
			if err != nil {
				return nil, fmt.Errorf("table %s row %s: %v", t.Name, u, err)
			}
			if mu != u {
				return nil, fmt.Errorf("table %s: row stored under %s carries _uuid %s", t.Name, u, mu)
			}
			out.T[t.Name][u] = row
		}
	}
	return out, nil
}

// SnapshotRows converts a map of models of one table.
func (m *Model) SnapshotRows(table string, rows map[string]model.Model) (map[string]ref.Row, error) {
	out := map[string]ref.Row{}
	for u, mdl := range rows {
		mu, row, err := m.RowOf(table, mdl)
		if err != nil {
			return nil, err
		}
		if mu != u {
			return nil, fmt.Errorf("table %s: row stored under %s carries _uuid %s", table, u, mu)
		}
		out[u] = row
	}
	return out, nil
}

// SortedUUIDs is a helper for deterministic iteration.
func SortedUUIDs(m map[string]ref.Row) []string {
	out := make([]string, 0, len(m))
	for u := range m {
		out = append(out, u)
	}
	sort.Strings(out)
	return out
}

// OvsRow encodes a (partial) reference row of a table as a wire row.
func (m *Model) OvsRow(table string, r ref.Row) ovsdb.Row {
	return m.ovsRow(m.S.Table(table), r)
}
