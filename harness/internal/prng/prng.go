// Package prng is a small deterministic splitmix64 generator. Every stream is
// derived from VERIF_SEED plus labels so that a case is regenerated from
// (seed, property, batch, case) alone.
package prng

import "hash/fnv"

type R struct{ s uint64 }

func New(seed uint64) *R { return &R{s: seed*0x9E3779B97F4A7C15 + 0x1234567} }

// Derive returns an independent stream for the given labels.
func Derive(seed int64, labels ...interface{}) *R {
	h := fnv.New64a()
	for _, l := range labels {
		switch v := l.(type) {
		case string:
			h.Write([]byte(v))
		case int:
			var b [8]byte
			u := uint64(v)
			for i := 0; i < 8; i++ {
				b[i] = byte(u >> (8 * i))
			}
			h.Write(b[:])
		}
		h.Write([]byte{0xff})
	}
	return New(uint64(seed) ^ h.Sum64())
}

func (r *R) U64() uint64 {
	r.s += 0x9E3779B97F4A7C15
	z := r.s
	z = (z ^ (z >> 30)) * 0xBF58476D1CE4E5B9
	z = (z ^ (z >> 27)) * 0x94D049BB133111EB
	return z ^ (z >> 31)
}

// Intn returns a value in [0,n). n<=0 returns 0.
func (r *R) Intn(n int) int {
	if n <= 0 {
		return 0
	}
	return int(r.U64() % uint64(n))
}

// Bool returns true with probability 1/2.
func (r *R) Bool() bool { return r.U64()&1 == 1 }

// Chance returns true with probability num/den.
func (r *R) Chance(num, den int) bool { return r.Intn(den) < num }

// Perm returns a permutation of [0,n).
func (r *R) Perm(n int) []int {
	p := make([]int, n)
	for i := range p {
		p[i] = i
	}
	for i := n - 1; i > 0; i-- {
		j := r.Intn(i + 1)
		p[i], p[j] = p[j], p[i]
	}
	return p
}

// UUID returns a deterministic, valid (lower-case hex) UUID string.
func (r *R) UUID() string {
	const hex = "0123456789abcdef"
	a, b := r.U64(), r.U64()
	var raw [16]byte
	for i := 0; i < 8; i++ {
		raw[i] = byte(a >> (8 * i))
		raw[8+i] = byte(b >> (8 * i))
	}
	out := make([]byte, 0, 36)
	for i, x := range raw {
		if i == 4 || i == 6 || i == 8 || i == 10 {
			out = append(out, '-')
		}
		out = append(out, hex[x>>4], hex[x&15])
	}
	return string(out)
}
