// Package txn drives the library's in-memory database exactly as the server
// does (operations JSON round-tripped, Transact, then Commit when no result
// carries an error) and translates the reply into reference-model terms.
package txn

import (
	"encoding/json"
	"fmt"
	"os"
	"runtime/debug"
	"strconv"
	"time"

	"github.com/google/uuid"
	"github.com/ovn-org/libovsdb/database"
	"github.com/ovn-org/libovsdb/database/inmemory"
	"github.com/ovn-org/libovsdb/model"
	"github.com/ovn-org/libovsdb/ovsdb"
	"github.com/ovn-org/libovsdb/server"
	"verifharness/internal/dyn"
	"verifharness/internal/ref"
)

type Engine struct {
	M  *dyn.Model
	DB database.Database
	// Srv is the library server owning DB (never listening). Committing
	// transactions go through its real Transact handler, so the server's own
	// decision "commit iff no result carries an error" is what is exercised.
	Srv *server.OvsdbServer
}

func New(m *dyn.Model) (*Engine, error) {
	db := inmemory.NewDatabase(map[string]model.ClientDBModel{m.S.Name: m.Client})
	srv, err := server.NewOvsdbServer(db, m.DB)
	if err != nil {
		return nil, err
	}
	return &Engine{M: m, DB: db, Srv: srv}, nil
}

// Reply is the library's answer to one transaction.
type Reply struct {
	Results   []ovsdb.OperationResult // as returned (nil entries become zero results with Skipped)
	Skipped   []bool                  // result slot was nil (operation not executed)
	NOps      int
	Failed    bool
	FailIndex int    // index of the first error result (may be == NOps for a commit-time error)
	FailErr   string // its error string
	FailWhy   string
	Update    database.Update
	CommitErr error // Commit() failed although no result carried an error
	Committed bool
	Hung      bool // Transact did not return within HangLimit (goroutine left spinning)
}

// HangLimit is how long a single in-memory transaction on a database of a few
// dozen rows may run before it is declared non-terminating (normal: < 1 ms).
var HangLimit = 30 * time.Second

func init() {
	if v := os.Getenv("VERIF_HANG_LIMIT_S"); v != "" {
		if n, err := strconv.Atoi(v); err == nil && n > 0 {
			HangLimit = time.Duration(n) * time.Second
		}
	}
}

// Transact runs ops; when commit is true and no result carries an error the
// update is committed like server.Transact does.
func (e *Engine) Transact(ops []ref.Op, commit bool) (*Reply, error) {
	wire, err := e.M.WireOps(ops)
	if err != nil {
		return nil, err
	}
	return e.TransactWire(wire, commit), nil
}

func (e *Engine) TransactWire(wire []ovsdb.Operation, commit bool) *Reply {
	t := e.DB.NewTransaction(e.M.S.Name)
	type ret struct {
		results []*ovsdb.OperationResult
		update  database.Update
		panicv  interface{}
	}
	ch := make(chan ret, 1)
	viaServer := commit && e.Srv != nil
	var srvErr error
	go func() {
		var r ret
		defer func() {
			if p := recover(); p != nil {
				r.panicv = fmt.Sprintf("%v\n%s", p, debug.Stack())
				r.results = nil
			}
			ch <- r
		}()
		if viaServer {
			name, _ := json.Marshal(e.M.S.Name)
			args := []json.RawMessage{name}
			for i := range wire {
				b, err := json.Marshal(wire[i])
				if err != nil {
					panic(err)
				}
				args = append(args, b)
			}
			srvErr = e.Srv.Transact(nil, args, &r.results)
			return
		}
		r.results, r.update = t.Transact(wire...)
	}()
	var results []*ovsdb.OperationResult
	var update database.Update
	select {
	case r := <-ch:
		if r.panicv != nil {
			panic(r.panicv)
		}
		results, update = r.results, r.update
	case <-time.After(HangLimit):
		return &Reply{NOps: len(wire), Hung: true, Failed: true, FailIndex: -1, FailErr: "hung"}
	}
	rep := &Reply{NOps: len(wire), Update: update, FailIndex: -1}
	for i, r := range results {
		if r == nil {
			rep.Results = append(rep.Results, ovsdb.OperationResult{})
			rep.Skipped = append(rep.Skipped, true)
			continue
		}
		rep.Results = append(rep.Results, *r)
		rep.Skipped = append(rep.Skipped, false)
		if r.Error != "" && !rep.Failed {
			rep.Failed = true
			rep.FailIndex = i
			rep.FailErr = r.Error
			rep.FailWhy = r.Details
		}
	}
	if viaServer {
		if !rep.Failed {
			if srvErr != nil {
				rep.CommitErr = srvErr
			} else {
				rep.Committed = true
			}
		}
		return rep
	}
	if !rep.Failed && commit {
		if err := e.DB.Commit(e.M.S.Name, uuid.New(), update); err != nil {
			rep.CommitErr = err
		} else {
			rep.Committed = true
		}
	}
	return rep
}

// ShapeProblem checks the reply shape required by RFC 7047 / C02: one result
// per operation up to and including the failing one (nothing but nulls after
// it), or all results plus exactly one extra error element.
func (r *Reply) ShapeProblem() string {
	n := len(r.Results)
	if !r.Failed {
		if n != r.NOps {
			return fmt.Sprintf("success reply has %d results for %d operations", n, r.NOps)
		}
		for i, s := range r.Skipped {
			if s {
				return fmt.Sprintf("success reply has a null result at %d", i)
			}
		}
		return ""
	}
	if r.FailIndex < r.NOps {
		if n != r.NOps {
			return fmt.Sprintf("failed reply has %d slots for %d operations", n, r.NOps)
		}
		for i := 0; i < r.FailIndex; i++ {
			if r.Skipped[i] || r.Results[i].Error != "" {
				return fmt.Sprintf("result %d before the failing operation %d is null or an error", i, r.FailIndex)
			}
		}
		for i := r.FailIndex + 1; i < n; i++ {
			if !r.Skipped[i] {
				return fmt.Sprintf("result %d after the failing operation %d is not null", i, r.FailIndex)
			}
		}
		return ""
	}
	if n != r.NOps+1 {
		return fmt.Sprintf("commit-time failure reply has %d results for %d operations", n, r.NOps)
	}
	for i := 0; i < r.NOps; i++ {
		if r.Skipped[i] || r.Results[i].Error != "" {
			return fmt.Sprintf("result %d of a commit-time failure is null or an error", i)
		}
	}
	return ""
}

// SelRows converts the rows of a select result.
func SelRows(m *dyn.Model, table string, res ovsdb.OperationResult) ([]ref.SelRow, error) {
	var out []ref.SelRow
	for _, r := range res.Rows {
		row, err := m.RowFromOvs(table, r)
		if err != nil {
			return nil, err
		}
		u := ""
		if v, ok := r["_uuid"]; ok {
			if x, ok := v.(ovsdb.UUID); ok {
				u = x.GoUUID
			}
		}
		out = append(out, ref.SelRow{UUID: u, Cols: row})
	}
	return out, nil
}
