// Package ev holds the per-check run context: counters, distinct-case set,
// samples, violations with signatures, the known-findings matcher, the
// evidence writer and the child-process batch runner.
package ev

import (
	"encoding/json"
	"fmt"
	"hash/fnv"
	"os"
	"path/filepath"
	"sort"
	"strconv"
	"strings"
	"sync"
	"time"
)

// Root is the /verif directory.
func Root() string {
	if r := os.Getenv("VERIF_ROOT"); r != "" {
		return r
	}
	return "/verif"
}

func Seed() int64 {
	if s := os.Getenv("VERIF_SEED"); s != "" {
		if v, err := strconv.ParseInt(s, 10, 64); err == nil {
			return v
		}
	}
	return 1
}

// Violation is one observed refutation of a property.
type Violation struct {
	Signature string      `json:"signature"`
	What      string      `json:"what"`
	Witness   interface{} `json:"witness,omitempty"`
	Count     int         `json:"count"`
}

// KnownEntry is one line of known_findings.json.
type KnownEntry struct {
	Property  string `json:"property"`
	Signature string `json:"signature"`
	What      string `json:"what"`
	Status    string `json:"status"` // "known" or "fixed"
	Commit    string `json:"commit,omitempty"`
}

// ChildResult is what a child process reports to its parent.
type ChildResult struct {
	Evaluations int64               `json:"evaluations"`
	Distinct    []uint64            `json:"distinct"`
	Samples     []interface{}       `json:"samples"`
	Counters    map[string]int64    `json:"counters"`
	Sets        map[string][]string `json:"sets"`
	Violations  []Violation         `json:"violations"`
	Inconcl     []string            `json:"inconclusive"`
}

// Run is the context of one check invocation (parent or child).
type Run struct {
	// SigMap, when set, rewrites (or, returning "", drops) the signature of every violation
	// reported while it is set: a check that borrows the workload and judge of another
	// property keeps only the clauses that concern its own property.
	SigMap func(string) string
	// DropInconclusive: inconclusive verdicts of a borrowed judge are not this check's.
	DropInconclusive bool
	Property string
	Tier     string
	Seed     int64
	Level    string
	Rule     string

	mu          sync.Mutex
	start       time.Time
	evaluations int64
	distinct    map[uint64]struct{}
	samples     []interface{}
	counters    map[string]int64
	sets        map[string]map[string]struct{}
	extra       map[string]interface{}
	assumptions []string
	violations  map[string]*Violation
	vorder      []string
	inconcl     []string

	child    bool
	childOut string
	caseLog  string
	onlySig  string
	maxSamp  int
}

func NewRun(property, tier string) *Run {
	return &Run{
		Property: property, Tier: tier, Seed: Seed(), Level: "exploration",
		start:      time.Now(),
		distinct:   map[uint64]struct{}{},
		counters:   map[string]int64{},
		sets:       map[string]map[string]struct{}{},
		extra:      map[string]interface{}{},
		violations: map[string]*Violation{},
		childOut:   os.Getenv("VERIF_CHILD_OUT"),
		child:      os.Getenv("VERIF_CHILD_OUT") != "",
		caseLog:    os.Getenv("VERIF_CASE_LOG"),
		onlySig:    os.Getenv("VERIF_ONLY_SIG"),
		maxSamp:    4,
	}
}

func (r *Run) Quick() bool { return r.Tier != "thorough" }

// N picks the quick or thorough size.
func (r *Run) N(quick, thorough int) int {
	if r.Quick() {
		return quick
	}
	return thorough
}

func (r *Run) Eval(n int) {
	r.mu.Lock()
	r.evaluations += int64(n)
	r.mu.Unlock()
}

func Hash(s string) uint64 {
	h := fnv.New64a()
	h.Write([]byte(s))
	return h.Sum64()
}

// Distinct records a canonical key of a non-trivial case.
func (r *Run) Distinct(key string) {
	h := Hash(key)
	r.mu.Lock()
	if len(r.distinct) < 400000 {
		r.distinct[h] = struct{}{}
	}
	r.mu.Unlock()
}

func (r *Run) Sample(v interface{}) {
	r.mu.Lock()
	if len(r.samples) < r.maxSamp {
		r.samples = append(r.samples, v)
	}
	r.mu.Unlock()
}

func (r *Run) NeedSample() bool {
	r.mu.Lock()
	defer r.mu.Unlock()
	return len(r.samples) < r.maxSamp
}

func (r *Run) Count(key string, n int) {
	r.mu.Lock()
	r.counters[key] += int64(n)
	r.mu.Unlock()
}

func (r *Run) Counter(key string) int64 {
	r.mu.Lock()
	defer r.mu.Unlock()
	return r.counters[key]
}

// SetAdd records a member of a named small set (e.g. orderings seen).
func (r *Run) SetAdd(set, member string) {
	r.mu.Lock()
	m := r.sets[set]
	if m == nil {
		m = map[string]struct{}{}
		r.sets[set] = m
	}
	if len(m) < 2000 {
		m[member] = struct{}{}
	}
	r.mu.Unlock()
}

func (r *Run) Extra(key string, v interface{}) {
	r.mu.Lock()
	r.extra[key] = v
	r.mu.Unlock()
}

func (r *Run) Assume(s string) {
	r.mu.Lock()
	for _, a := range r.assumptions {
		if a == s {
			r.mu.Unlock()
			return
		}
	}
	r.assumptions = append(r.assumptions, s)
	r.mu.Unlock()
}

func (r *Run) Inconclusive(s string) {
	if r.DropInconclusive {
		return
	}
	r.mu.Lock()
	if len(r.inconcl) < 50 {
		r.inconcl = append(r.inconcl, s)
	}
	r.mu.Unlock()
}

// LogCase writes the case about to be executed to the on-disk case log, so
// that the parent can attribute a process death to it.
func (r *Run) LogCase(desc string) {
	if r.caseLog == "" {
		return
	}
	_ = os.WriteFile(r.caseLog, []byte(desc), 0o644)
}

// Violation records a refutation. sig is the narrow, stable signature.
func (r *Run) Violation(sig, what string, witness interface{}) {
	if r.SigMap != nil {
		if sig = r.SigMap(sig); sig == "" {
			return
		}
	}
	r.mu.Lock()
	defer r.mu.Unlock()
	if v, ok := r.violations[sig]; ok {
		v.Count++
		return
	}
	r.violations[sig] = &Violation{Signature: sig, What: what, Witness: witness, Count: 1}
	r.vorder = append(r.vorder, sig)
}

func (r *Run) HasViolation(sig string) bool {
	r.mu.Lock()
	defer r.mu.Unlock()
	_, ok := r.violations[sig]
	return ok
}

func (r *Run) mergeViolation(v Violation) {
	r.mu.Lock()
	defer r.mu.Unlock()
	if o, ok := r.violations[v.Signature]; ok {
		o.Count += v.Count
		return
	}
	vv := v
	r.violations[v.Signature] = &vv
	r.vorder = append(r.vorder, v.Signature)
}

// Merge folds a child's result into the parent run.
func (r *Run) Merge(c *ChildResult) {
	r.mu.Lock()
	r.evaluations += c.Evaluations
	for _, h := range c.Distinct {
		if len(r.distinct) < 2000000 {
			r.distinct[h] = struct{}{}
		}
	}
	for _, s := range c.Samples {
		if len(r.samples) < r.maxSamp {
			r.samples = append(r.samples, s)
		}
	}
	for k, v := range c.Counters {
		r.counters[k] += v
	}
	for k, l := range c.Sets {
		m := r.sets[k]
		if m == nil {
			m = map[string]struct{}{}
			r.sets[k] = m
		}
		for _, x := range l {
			m[x] = struct{}{}
		}
	}
	for _, s := range c.Inconcl {
		if len(r.inconcl) < 50 {
			r.inconcl = append(r.inconcl, s)
		}
	}
	r.mu.Unlock()
	for _, v := range c.Violations {
		r.mergeViolation(v)
	}
}

func loadKnown() []KnownEntry {
	b, err := os.ReadFile(filepath.Join(Root(), "known_findings.json"))
	if err != nil {
		return nil
	}
	var f struct {
		Findings []KnownEntry `json:"findings"`
	}
	if json.Unmarshal(b, &f) != nil {
		return nil
	}
	return f.Findings
}

func sig8(s string) string { return fmt.Sprintf("%08x", uint32(Hash(s))) }

// Finish writes the child result (child mode) or the evidence file and the
// verdict lines (parent mode). It returns the process exit code.
func (r *Run) Finish() int {
	r.mu.Lock()
	defer r.mu.Unlock()
	if r.child {
		c := ChildResult{Evaluations: r.evaluations, Samples: r.samples, Counters: r.counters, Inconcl: r.inconcl, Sets: map[string][]string{}}
		for h := range r.distinct {
			c.Distinct = append(c.Distinct, h)
		}
		for k, m := range r.sets {
			for x := range m {
				c.Sets[k] = append(c.Sets[k], x)
			}
		}
		for _, s := range r.vorder {
			c.Violations = append(c.Violations, *r.violations[s])
		}
		b, _ := json.Marshal(c)
		_ = os.WriteFile(r.childOut, b, 0o644)
		return 0
	}

	known := map[string]KnownEntry{}
	for _, k := range loadKnown() {
		if k.Property == r.Property && k.Status == "known" {
			known[k.Signature] = k
		}
	}
	exit := 0
	nviol := 0
	var knownSeen []string
	_ = os.MkdirAll(filepath.Join(Root(), "replays"), 0o755)
	for _, s := range r.vorder {
		v := r.violations[s]
		if r.onlySig != "" && s != r.onlySig {
			continue
		}
		if k, ok := known[s]; ok {
			fmt.Printf("KNOWN-FINDING: property=%s %s [%s] (seen %d times)\n", r.Property, k.What, s, v.Count)
			knownSeen = append(knownSeen, s)
			continue
		}
		nviol++
		path := filepath.Join(Root(), "replays", fmt.Sprintf("%s-%s-%d.json", r.Property, sig8(s), r.Seed))
		rb, _ := json.MarshalIndent(map[string]interface{}{
			"property": r.Property, "signature": s, "what": v.What, "seed": r.Seed, "tier": r.Tier,
			"count": v.Count, "witness": v.Witness,
		}, "", " ")
		_ = os.WriteFile(path, rb, 0o644)
		fmt.Printf("VIOLATION property=%s replay=%s\n", r.Property, path)
		fmt.Printf("  signature: %s\n  what: %s\n", s, v.What)
		exit = 1
	}

	cov := map[string]interface{}{}
	for k, v := range r.extra {
		cov[k] = v
	}
	cov["evaluations"] = r.evaluations
	cov["distinct_nontrivial"] = len(r.distinct)
	cov["rule"] = r.Rule
	samples := r.samples
	if samples == nil {
		samples = []interface{}{}
	}
	cov["samples"] = samples
	if _, ok := cov["exhaustive"]; !ok {
		cov["exhaustive"] = false
	}
	if len(r.counters) > 0 {
		cov["counters"] = r.counters
	}
	if len(r.sets) > 0 {
		sets := map[string]interface{}{}
		for k, m := range r.sets {
			l := make([]string, 0, len(m))
			for x := range m {
				l = append(l, x)
			}
			sort.Strings(l)
			if len(l) > 60 {
				sets[k] = map[string]interface{}{"count": len(l), "first": l[:60]}
			} else {
				sets[k] = map[string]interface{}{"count": len(l), "members": l}
			}
		}
		cov["observed_sets"] = sets
	}
	if len(r.inconcl) > 0 {
		cov["inconclusive"] = r.inconcl
	}
	if len(knownSeen) > 0 {
		cov["known_findings_seen"] = knownSeen
	}
	if len(r.vorder) > 0 {
		var sigs []string
		for _, s := range r.vorder {
			sigs = append(sigs, s)
		}
		cov["violation_signatures"] = sigs
	}
	evd := map[string]interface{}{
		"property_id": r.Property, "tier": r.Tier, "seed": r.Seed, "level": r.Level,
		"coverage": cov, "wall_s": time.Since(r.start).Seconds(), "violations": nviol,
		"assumptions": append([]string{}, r.assumptions...),
	}
	if os.Getenv("VERIF_NO_EVIDENCE") == "" {
		// (replays and the sensitivity self-test do not rewrite the evidence of the real runs)
		_ = os.MkdirAll(filepath.Join(Root(), "evidence"), 0o755)
		b, _ := json.MarshalIndent(evd, "", " ")
		_ = os.WriteFile(filepath.Join(Root(), "evidence", r.Property+".json"), b, 0o644)
	}

	if exit == 0 && (r.evaluations == 0 || len(r.distinct) < 2) {
		fmt.Printf("INCONCLUSIVE: property=%s observed nothing (evaluations=%d distinct=%d)\n", r.Property, r.evaluations, len(r.distinct))
		return 2
	}
	verdict := "HELD"
	if exit != 0 {
		verdict = "VIOLATED"
	}
	fmt.Printf("%s property=%s tier=%s seed=%d evaluations=%d distinct_nontrivial=%d known_findings=%d violations=%d inconclusive=%d wall=%.1fs\n",
		verdict, r.Property, r.Tier, r.Seed, r.evaluations, len(r.distinct), len(knownSeen), nviol, len(r.inconcl), time.Since(r.start).Seconds())
	return exit
}

// PanicSignature extracts "panic class @ top libovsdb frame" from a stack dump.
func PanicSignature(msg string, stack string) string {
	cls := classifyPanic(msg)
	frame := ""
	for _, line := range strings.Split(stack, "\n") {
		line = strings.TrimSpace(line)
		if strings.HasPrefix(line, "github.com/ovn-org/libovsdb/") && strings.Contains(line, "(") {
			f := line
			if i := strings.LastIndex(f, "("); i > 0 {
				f = f[:i]
			}
			f = strings.TrimPrefix(f, "github.com/ovn-org/libovsdb/")
			// skip harness-free frames only; first lib frame is the top one
			frame = f
			break
		}
	}
	if frame == "" {
		frame = "?"
	}
	return cls + "@" + frame
}

func classifyPanic(msg string) string {
	m := msg
	switch {
	case strings.Contains(m, "index out of range"):
		return "index-out-of-range"
	case strings.Contains(m, "interface conversion"):
		return "interface-conversion"
	case strings.Contains(m, "nil pointer dereference"), strings.Contains(m, "invalid memory address"):
		return "nil-deref"
	case strings.Contains(m, "unhashable type"):
		return "unhashable-key"
	case strings.Contains(m, "divide by zero"):
		return "divide-by-zero"
	case strings.Contains(m, "slice bounds out of range"):
		return "slice-bounds"
	case strings.Contains(m, "assignment to entry in nil map"):
		return "nil-map-write"
	case strings.Contains(m, "reflect"):
		return "reflect-panic"
	case strings.Contains(m, "concurrent map"):
		return "concurrent-map"
	}
	if len(m) > 40 {
		m = m[:40]
	}
	return "panic:" + strings.Map(func(r rune) rune {
		if r >= '0' && r <= '9' {
			return -1
		}
		return r
	}, m)
}
