package ev

import (
	"encoding/json"
	"fmt"
	"os"
	"os/exec"
	"path/filepath"
	"regexp"
	"sort"
	"strconv"
	"strings"
	"sync"
	"syscall"
	"time"
)

// BatchOpts configures RunBatches.
type BatchOpts struct {
	N        int           // number of batches (child processes)
	Parallel int           // concurrent children (default 16)
	Timeout  time.Duration // wall-clock watchdog per child; firing is inconclusive
	Race     bool          // children are race-instrumented: collect GORACE logs
	Env      []string      // extra env
	// DeathIsViolation: signature prefix used when a child dies; always reported.
	ExtraArgs []string
}

var panicRe = regexp.MustCompile(`(?m)^(panic: .*|fatal error: .*)$`)

// RunBatches starts N child processes "<exe> child <prop> <tier> <batch>" and
// merges their results. A child that dies is a violation whose witness is the
// last case it logged; a watchdog firing is inconclusive.
func (r *Run) RunBatches(o BatchOpts) {
	exe, err := os.Executable()
	if err != nil {
		r.Inconclusive("cannot find own executable: " + err.Error())
		return
	}
	if o.Race {
		// race engines run their children from the race-instrumented binary
		if rexe := filepath.Join(filepath.Dir(exe), "check.race"); fileExists(rexe) {
			exe = rexe
		} else {
			r.Inconclusive("race-instrumented binary " + rexe + " is missing")
			return
		}
	}
	if o.Parallel <= 0 {
		o.Parallel = 16
	}
	if o.Timeout == 0 {
		o.Timeout = 20 * time.Minute
	}
	scratch, err := os.MkdirTemp("", "verif-"+r.Property+"-")
	if err != nil {
		r.Inconclusive("cannot create scratch dir: " + err.Error())
		return
	}
	defer os.RemoveAll(scratch)

	sem := make(chan struct{}, o.Parallel)
	var wg sync.WaitGroup
	for b := 0; b < o.N; b++ {
		wg.Add(1)
		sem <- struct{}{}
		go func(b int) {
			defer wg.Done()
			defer func() { <-sem }()
			r.runChild(exe, scratch, b, o)
		}(b)
	}
	wg.Wait()
	if o.Race {
		r.collectRaces(scratch)
	}
}

func (r *Run) runChild(exe, scratch string, b int, o BatchOpts) {
	dir := filepath.Join(scratch, fmt.Sprintf("b%d", b))
	_ = os.MkdirAll(dir, 0o755)
	out := filepath.Join(dir, "result.json")
	caseLog := filepath.Join(dir, "case.log")
	logf, _ := os.Create(filepath.Join(dir, "output.log"))
	defer logf.Close()
	args := []string{"child", r.Property, r.Tier, strconv.Itoa(b)}
	args = append(args, o.ExtraArgs...)
	cmd := exec.Command(exe, args...)
	cmd.Stdout = logf
	cmd.Stderr = logf
	cmd.Env = append(os.Environ(),
		"VERIF_CHILD_OUT="+out,
		"VERIF_CASE_LOG="+caseLog,
		"VERIF_SCRATCH="+dir,
		"VERIF_SEED="+strconv.FormatInt(r.Seed, 10),
		"GOTRACEBACK=all",
	)
	if o.Race {
		cmd.Env = append(cmd.Env, "GORACE=halt_on_error=0 exitcode=0 log_path="+filepath.Join(scratch, fmt.Sprintf("race-b%d", b)))
	}
	cmd.Env = append(cmd.Env, o.Env...)
	if err := cmd.Start(); err != nil {
		r.Inconclusive(fmt.Sprintf("batch %d: cannot start child: %v", b, err))
		return
	}
	done := make(chan error, 1)
	go func() { done <- cmd.Wait() }()
	var werr error
	watchdog := false
	select {
	case werr = <-done:
	case <-time.After(o.Timeout):
		watchdog = true
		_ = cmd.Process.Signal(syscall.SIGQUIT)
		select {
		case werr = <-done:
		case <-time.After(10 * time.Second):
			_ = cmd.Process.Kill()
			werr = <-done
		}
	}
	var res ChildResult
	haveRes := false
	if rb, err := os.ReadFile(out); err == nil {
		if json.Unmarshal(rb, &res) == nil {
			haveRes = true
		}
	}
	if haveRes {
		r.Merge(&res)
	}
	if watchdog {
		tail := tailFile(filepath.Join(dir, "output.log"), 6000)
		keep := filepath.Join(Root(), "replays", fmt.Sprintf("%s-watchdog-b%d-%d.log", r.Property, b, r.Seed))
		_ = os.MkdirAll(filepath.Dir(keep), 0o755)
		_ = os.WriteFile(keep, []byte(tail), 0o644)
		r.Inconclusive(fmt.Sprintf("batch %d: wall-clock watchdog fired after %s (stacks in %s)", b, o.Timeout, keep))
		return
	}
	if werr != nil || !haveRes {
		lastCase, _ := os.ReadFile(caseLog)
		full, _ := os.ReadFile(filepath.Join(dir, "output.log"))
		text := string(full)
		msg := ""
		if m := panicRe.FindString(text); m != "" {
			msg = m
		}
		stack := text
		if i := strings.Index(text, msg); msg != "" && i >= 0 {
			stack = text[i:]
		}
		if len(stack) > 6000 {
			stack = stack[:6000]
		}
		sig := r.Property + "/child-death/" + PanicSignature(msg, stack)
		lc := string(lastCase)
		if len(lc) > 4000 {
			lc = lc[:4000]
		}
		r.Violation(sig, "child process died: "+msg, map[string]interface{}{
			"batch": b, "last_logged_case": lc, "exit": fmt.Sprint(werr), "output_head": stack,
		})
	}
}

func fileExists(p string) bool {
	_, err := os.Stat(p)
	return err == nil
}

func tailFile(path string, n int) string {
	b, err := os.ReadFile(path)
	if err != nil {
		return ""
	}
	if len(b) > n {
		b = b[len(b)-n:]
	}
	return string(b)
}

// RaceReport is one deduplicated data-race report.
type RaceReport struct {
	Key     string   `json:"key"`
	Entry   []string `json:"entry_points"`
	Stacks  []string `json:"stacks"`
	Count   int      `json:"count"`
	LibOVS  bool     `json:"libovsdb_frame"`
	Example string   `json:"example"`
}

var lineNoRe = regexp.MustCompile(`:\d+( \+0x[0-9a-f]+)?$`)

var accessHeader = regexp.MustCompile(`^(Previous |)(read|write|atomic read|atomic write|Read|Write|Atomic read|Atomic write) at `)

// ParseRaceLogs parses GORACE log files with the given path prefix glob.
func ParseRaceLogs(glob string) []RaceReport {
	files, _ := filepath.Glob(glob)
	byKey := map[string]*RaceReport{}
	var order []string
	for _, f := range files {
		b, err := os.ReadFile(f)
		if err != nil {
			continue
		}
		for _, blk := range strings.Split(string(b), "==================") {
			if !strings.Contains(blk, "WARNING: DATA RACE") {
				continue
			}
			rep := parseRaceBlock(blk)
			if o, ok := byKey[rep.Key]; ok {
				o.Count++
				continue
			}
			rr := rep
			byKey[rep.Key] = &rr
			order = append(order, rep.Key)
		}
	}
	var out []RaceReport
	for _, k := range order {
		out = append(out, *byKey[k])
	}
	return out
}

func parseRaceBlock(blk string) RaceReport {
	lines := strings.Split(blk, "\n")
	var sections [][]string // function names per section
	var cur []string
	inSection := false
	for _, l := range lines {
		if strings.TrimSpace(l) == "" {
			if inSection {
				sections = append(sections, cur)
				cur = nil
				inSection = false
			}
			continue
		}
		if !strings.HasPrefix(l, " ") {
			// header line: "Write at ... by goroutine N:" etc.
			if inSection {
				sections = append(sections, cur)
				cur = nil
			}
			inSection = accessHeader.MatchString(l)
			continue
		}
		if strings.HasPrefix(l, "      ") {
			continue // file:line
		}
		if inSection {
			cur = append(cur, strings.TrimSpace(l))
		}
	}
	if inSection {
		sections = append(sections, cur)
	}
	rep := RaceReport{Count: 1}
	ex := blk
	if len(ex) > 3000 {
		ex = ex[:3000]
	}
	rep.Example = ex
	var stacks []string
	for i := 0; i < len(sections) && i < 2; i++ {
		fr := sections[i]
		entry := "?"
		for _, f := range fr {
			fn := f
			if j := strings.Index(fn, "("); j > 0 {
				// keep receiver types like pkg.(*T).M: cut only the argument list at the end
				if k := strings.LastIndex(fn, "("); k > 0 && strings.HasSuffix(fn, ")") {
					fn = fn[:k]
				}
			}
			if strings.Contains(fn, "github.com/ovn-org/libovsdb/") {
				rep.LibOVS = true
				entry = strings.TrimPrefix(fn, "github.com/ovn-org/libovsdb/") // outermost = last seen
			}
		}
		rep.Entry = append(rep.Entry, entry)
		stacks = append(stacks, strings.Join(fr, " < "))
	}
	sort.Strings(rep.Entry)
	sort.Strings(stacks)
	rep.Stacks = stacks
	rep.Key = strings.Join(rep.Entry, " || ")
	return rep
}

func (r *Run) collectRaces(scratch string) {
	reps := ParseRaceLogs(filepath.Join(scratch, "race-b*"))
	lib, other := 0, 0
	var otherKeys []string
	for _, rep := range reps {
		if rep.LibOVS {
			lib++
			r.Violation(r.Property+"/race/"+rep.Key, "data race reported by the Go race detector between "+rep.Key, map[string]interface{}{
				"entry_points": rep.Entry, "stacks": rep.Stacks, "count": rep.Count, "report": rep.Example,
			})
		} else {
			other++
			otherKeys = append(otherKeys, rep.Key)
		}
	}
	r.Extra("race_reports_libovsdb_dedup", lib)
	r.Extra("race_reports_third_party_dedup", other)
	if len(otherKeys) > 0 {
		r.Extra("race_reports_third_party", otherKeys)
	}
}
