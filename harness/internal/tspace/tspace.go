// Package tspace describes and generates RFC 7047 schemas over the type space
// libovsdb maps, independent of the library's own schema types.
package tspace

import (
	"encoding/json"
	"fmt"

	"verifharness/internal/prng"
)

// Base is an RFC 7047 <base-type>.
type Base struct {
	Type     string        // integer | real | boolean | string | uuid
	Enum     []interface{} // int / float64 / string members; nil if none
	RefTable string
	RefType  string // "", "strong", "weak" ("" with RefTable set means strong)
}

func (b Base) IsRef() bool    { return b.Type == "uuid" && b.RefTable != "" }
func (b Base) IsStrong() bool { return b.IsRef() && b.RefType != "weak" }
func (b Base) IsWeak() bool   { return b.IsRef() && b.RefType == "weak" }

// Col is a column. Max == -1 means unlimited.
type Col struct {
	Name      string
	Key       Base
	Val       *Base
	Min, Max  int
	Immutable bool
	Ephemeral bool
}

func (c *Col) IsMap() bool      { return c.Val != nil }
func (c *Col) IsScalar() bool   { return c.Val == nil && c.Min == 1 && c.Max == 1 }
func (c *Col) IsOptional() bool { return c.Val == nil && c.Min == 0 && c.Max == 1 }
func (c *Col) IsSet() bool      { return c.Val == nil && !c.IsScalar() && !c.IsOptional() }

// Kind is one of scalar, optional, set, map.
func (c *Col) Kind() string {
	switch {
	case c.IsMap():
		return "map"
	case c.IsScalar():
		return "scalar"
	case c.IsOptional():
		return "optional"
	}
	return "set"
}

// Desc is a compact description used in distinct-case keys.
func (c *Col) Desc() string {
	k := c.Key.Type
	if len(c.Key.Enum) > 0 {
		k = "enum-" + k
	}
	if c.Key.IsRef() {
		k += "-" + map[bool]string{true: "weak", false: "strong"}[c.Key.IsWeak()]
	}
	s := c.Kind() + ":" + k
	if c.Val != nil {
		v := c.Val.Type
		if c.Val.IsRef() {
			v += "-" + map[bool]string{true: "weak", false: "strong"}[c.Val.IsWeak()]
		}
		s += ">" + v
	}
	if c.Kind() == "set" || c.Kind() == "map" {
		s += fmt.Sprintf("[%d..%d]", c.Min, c.Max)
	}
	if c.Immutable {
		s += "!imm"
	}
	return s
}

type Table struct {
	Name    string
	Cols    []*Col
	Indexes [][]string
	IsRoot  bool
}

func (t *Table) Col(name string) *Col {
	for _, c := range t.Cols {
		if c.Name == name {
			return c
		}
	}
	return nil
}

type Schema struct {
	Name   string
	Tables []*Table
}

func (s *Schema) Table(name string) *Table {
	for _, t := range s.Tables {
		if t.Name == name {
			return t
		}
	}
	return nil
}

// RootSet reports whether a table is in the root set (RFC 7047: if no table
// is marked isRoot, every table is).
func (s *Schema) RootSet(name string) bool {
	any := false
	for _, t := range s.Tables {
		if t.IsRoot {
			any = true
		}
	}
	if !any {
		return true
	}
	t := s.Table(name)
	return t != nil && t.IsRoot
}

func baseJSON(b Base) interface{} {
	if len(b.Enum) == 0 && b.RefTable == "" {
		return b.Type
	}
	m := map[string]interface{}{"type": b.Type}
	if len(b.Enum) == 1 {
		m["enum"] = b.Enum[0]
	} else if len(b.Enum) > 1 {
		m["enum"] = []interface{}{"set", b.Enum}
	}
	if b.RefTable != "" {
		m["refTable"] = b.RefTable
		if b.RefType != "" {
			m["refType"] = b.RefType
		}
	}
	return m
}

// JSON renders the schema in RFC 7047 notation.
func (s *Schema) JSON() []byte {
	tables := map[string]interface{}{}
	for _, t := range s.Tables {
		cols := map[string]interface{}{}
		for _, c := range t.Cols {
			var typ interface{}
			if c.IsScalar() && len(c.Key.Enum) == 0 && c.Key.RefTable == "" {
				typ = c.Key.Type
			} else {
				tm := map[string]interface{}{"key": baseJSON(c.Key)}
				if c.Val != nil {
					tm["value"] = baseJSON(*c.Val)
				}
				if c.Min != 1 {
					tm["min"] = c.Min
				}
				if c.Max == -1 {
					tm["max"] = "unlimited"
				} else if c.Max != 1 {
					tm["max"] = c.Max
				}
				typ = tm
			}
			cm := map[string]interface{}{"type": typ}
			if c.Immutable {
				cm["mutable"] = false
			}
			if c.Ephemeral {
				cm["ephemeral"] = true
			}
			cols[c.Name] = cm
		}
		tm := map[string]interface{}{"columns": cols}
		if len(t.Indexes) > 0 {
			tm["indexes"] = t.Indexes
		}
		if t.IsRoot {
			tm["isRoot"] = true
		}
		tables[t.Name] = tm
	}
	b, _ := json.Marshal(map[string]interface{}{"name": s.Name, "version": "1.0.0", "tables": tables})
	return b
}

// ---- generation ------------------------------------------------------------------

// Opts selects which parts of the type space a generated schema may use.
type Opts struct {
	Tables      int  // number of tables (>=1)
	MaxCols     int  // columns per table (besides forced ones)
	Refs        bool // allow refTable columns
	NonRoot     bool // allow non-root tables (implies Refs)
	Indexes     bool // allow schema indexes
	Immutable   bool // allow immutable columns
	OddMapKeys  bool // allow map columns keyed by real / boolean (F13 territory)
	Enums       bool
	BoundedSets bool // sets with finite max > 1
	PlainUUID   bool // uuid columns without refTable
	ScalarRefs  bool // min=max=1 references (need a target at insert time)
	MinOneWeak  bool // weak reference sets with min 1
	FewTypes    bool // restrict atomic types to integer/string (denser collisions)
	RealColumns bool
	RefBias     int // percent chance that a column holds uuids (default 25)
}

// Full is the default option set used by most engines.
func Full(tables int) Opts {
	return Opts{Tables: tables, MaxCols: 6, Refs: true, NonRoot: true, Indexes: true, Immutable: true, Enums: true,
		BoundedSets: true, PlainUUID: true, MinOneWeak: true, RealColumns: true}
}

var tableNames = []string{"Bridge", "Port", "Logical_Switch", "acl", "QoS_Queue", "dns"}
var colNames = []string{"name", "external_ids", "dns_ip", "acls", "qos_max_rate", "tag", "enabled", "ports", "other_config", "mac", "weight", "peer", "options", "vlan_mode", "up"}

func (o Opts) atomic(p *prng.R) string {
	if o.FewTypes {
		return []string{"integer", "string"}[p.Intn(2)]
	}
	l := []string{"integer", "string", "boolean", "string", "integer"}
	if o.RealColumns {
		l = append(l, "real")
	}
	return l[p.Intn(len(l))]
}

func enumFor(typ string) []interface{} {
	switch typ {
	case "integer":
		return []interface{}{0, 1, 2, 5}
	case "real":
		return []interface{}{0.0, 0.5, 1.5, 2.5}
	case "string":
		return []interface{}{"", "up", "down", "a b"}
	}
	return nil
}

// Gen generates a schema. Column 0 of every table is "name" (string scalar),
// which the engines use as a human-readable key and index column.
func Gen(p *prng.R, o Opts) *Schema {
	if o.Tables < 1 {
		o.Tables = 1
	}
	s := &Schema{Name: "VDB"}
	for i := 0; i < o.Tables; i++ {
		s.Tables = append(s.Tables, &Table{Name: tableNames[i%len(tableNames)]})
	}
	// root set
	if o.NonRoot && o.Tables > 1 && p.Chance(3, 4) {
		s.Tables[0].IsRoot = true
		for i := 1; i < o.Tables; i++ {
			s.Tables[i].IsRoot = p.Chance(1, 3)
		}
	}
	for ti, t := range s.Tables {
		used := map[string]bool{"name": true}
		t.Cols = append(t.Cols, &Col{Name: "name", Key: Base{Type: "string"}, Min: 1, Max: 1})
		n := 2 + p.Intn(o.MaxCols)
		for len(t.Cols) < n+1 {
			name := colNames[p.Intn(len(colNames))]
			if used[name] {
				continue
			}
			used[name] = true
			c := o.genCol(p, s, name)
			t.Cols = append(t.Cols, c)
		}
		// make sure non-root tables can be referenced strongly from somewhere
		if !s.RootSet(t.Name) {
			from := s.Tables[p.Intn(len(s.Tables))]
			if ti > 0 && p.Chance(2, 3) {
				from = s.Tables[p.Intn(ti)] // chains A -> B -> C
			}
			cn := "ref_" + t.Name
			if from.Col(cn) == nil {
				c := &Col{Name: cn, Key: Base{Type: "uuid", RefTable: t.Name, RefType: "strong"}, Min: 0, Max: -1}
				switch p.Intn(5) {
				case 0:
					c.Max = 1
				case 1:
					c.Key = Base{Type: "string"}
					c.Val = &Base{Type: "uuid", RefTable: t.Name, RefType: "strong"}
				case 2:
					c.Val = &Base{Type: "integer"}
				}
				if p.Chance(1, 4) {
					c.Key.RefType = "" // strong by default
				}
				from.Cols = append(from.Cols, c)
			}
		}
	}
	if o.Indexes {
		for _, t := range s.Tables {
			if !p.Chance(2, 3) {
				continue
			}
			hashable := []string{}
			for _, c := range t.Cols {
				if (c.IsScalar() || c.IsOptional()) && c.Name != "name" && !c.Key.IsRef() {
					hashable = append(hashable, c.Name)
				}
			}
			switch {
			case len(hashable) > 0 && p.Chance(1, 3):
				t.Indexes = [][]string{{"name", hashable[p.Intn(len(hashable))]}}
			case len(hashable) > 0 && p.Chance(1, 3):
				t.Indexes = [][]string{{"name"}, {hashable[p.Intn(len(hashable))]}}
			default:
				t.Indexes = [][]string{{"name"}}
			}
		}
	}
	return s
}

func (o Opts) genCol(p *prng.R, s *Schema, name string) *Col {
	c := &Col{Name: name, Min: 1, Max: 1}
	// shape
	shape := p.Intn(10)
	switch {
	case shape < 3: // scalar
	case shape < 5:
		c.Min, c.Max = 0, 1
	case shape < 8:
		c.Min, c.Max = 0, -1
		if p.Chance(1, 4) {
			c.Min = 1
		}
		if o.BoundedSets && p.Chance(1, 4) {
			c.Max = 3 + p.Intn(3)
		}
	default:
		c.Min, c.Max = 0, -1
		v := Base{Type: o.atomic(p)}
		c.Val = &v
	}
	c.Key = Base{Type: o.atomic(p)}
	if c.Val != nil && !o.OddMapKeys && (c.Key.Type == "real" || c.Key.Type == "boolean") {
		c.Key.Type = "string"
	}
	if c.Key.Type == "boolean" && c.Min == 0 && c.Max == -1 && c.Val == nil && p.Bool() {
		c.Key.Type = "string" // sets of booleans are legal but tiny; keep some
	}
	// enums
	if o.Enums && c.Val == nil && p.Chance(1, 6) && c.Key.Type != "boolean" {
		c.Key.Enum = enumFor(c.Key.Type)
	}
	// uuid / references
	bias := o.RefBias
	if bias == 0 {
		bias = 25
	}
	if (o.Refs || o.PlainUUID) && p.Intn(100) < bias && len(c.Key.Enum) == 0 {
		ref := Base{Type: "uuid"}
		if o.Refs && p.Chance(3, 4) {
			ref.RefTable = s.Tables[p.Intn(len(s.Tables))].Name
			ref.RefType = []string{"strong", "weak", "weak"}[p.Intn(3)]
		} else if !o.PlainUUID {
			ref.RefTable = s.Tables[p.Intn(len(s.Tables))].Name
			ref.RefType = "weak"
		}
		if c.Val != nil && p.Bool() {
			c.Val = &ref
		} else {
			c.Key = ref
			if c.Val != nil && p.Chance(1, 3) {
				r2 := ref
				c.Val = &r2
			}
		}
		if c.IsScalar() && ref.RefTable != "" && !o.ScalarRefs {
			c.Min = 0 // optional reference instead of mandatory one
		}
		if c.Min == 1 && ref.IsWeak() && !o.MinOneWeak {
			c.Min = 0
		}
	}
	if o.Immutable && p.Chance(1, 8) {
		c.Immutable = true
	}
	if p.Chance(1, 12) {
		c.Ephemeral = true
	}
	return c
}
