// Package peer is a raw JSON-RPC peer (rpc2 + jsonrpc codec, the library's own
// transport) that records every notification it receives, and helpers to run
// the library's server on a unix socket.
package peer

import (
	"encoding/json"
	"fmt"
	"net"
	"os"
	"sync"
	"time"

	"github.com/cenkalti/rpc2"
	"github.com/cenkalti/rpc2/jsonrpc"
	"github.com/ovn-org/libovsdb/database"
	"github.com/ovn-org/libovsdb/database/inmemory"
	"github.com/ovn-org/libovsdb/model"
	"github.com/ovn-org/libovsdb/ovsdb"
	"github.com/ovn-org/libovsdb/ovsdb/serverdb"
	"github.com/ovn-org/libovsdb/server"
	"verifharness/internal/dyn"
)

// Msg is one notification received by a peer.
type Msg struct {
	Seq    int               // receive order on this peer
	Method string            // update, update2, update3
	Params []json.RawMessage // raw parameters
}

// Peer is a raw client connection.
type Peer struct {
	C    *rpc2.Client
	conn net.Conn
	mu   sync.Mutex
	msgs []Msg
	seq  int
	done chan struct{}
	// OnMsg, if set, is called (under the peer lock) for every notification.
	OnMsg func(Msg)
}

// Dial connects a raw peer to a unix socket.
func Dial(path string) (*Peer, error) {
	var conn net.Conn
	var err error
	for i := 0; i < 200; i++ {
		conn, err = net.Dial("unix", path)
		if err == nil {
			break
		}
		time.Sleep(5 * time.Millisecond)
	}
	if err != nil {
		return nil, err
	}
	return NewOnConn(conn), nil
}

// NewOnConn wraps an established connection.
func NewOnConn(conn net.Conn) *Peer {
	p := &Peer{conn: conn, done: make(chan struct{})}
	p.C = rpc2.NewClientWithCodec(jsonrpc.NewJSONCodec(conn))
	p.C.SetBlocking(true)
	rec := func(method string) func(*rpc2.Client, []json.RawMessage, *[]interface{}) error {
		return func(_ *rpc2.Client, args []json.RawMessage, reply *[]interface{}) error {
			p.mu.Lock()
			p.seq++
			m := Msg{Seq: p.seq, Method: method, Params: args}
			p.msgs = append(p.msgs, m)
			if p.OnMsg != nil {
				p.OnMsg(m)
			}
			p.mu.Unlock()
			*reply = []interface{}{}
			return nil
		}
	}
	p.C.Handle("update", rec("update"))
	p.C.Handle("update2", rec("update2"))
	p.C.Handle("update3", rec("update3"))
	p.C.Handle("echo", func(_ *rpc2.Client, args []interface{}, reply *[]interface{}) error {
		*reply = args
		return nil
	})
	go func() {
		p.C.Run()
		close(p.done)
	}()
	return p
}

func (p *Peer) Close() {
	_ = p.C.Close()
	_ = p.conn.Close()
}

// Closed reports whether the connection has ended.
func (p *Peer) Closed() bool {
	select {
	case <-p.done:
		return true
	default:
		return false
	}
}

// Take returns and clears the notifications received so far.
func (p *Peer) Take() []Msg {
	p.mu.Lock()
	defer p.mu.Unlock()
	m := p.msgs
	p.msgs = nil
	return m
}

// Count returns the number of notifications received so far (not cleared).
func (p *Peer) Count() int {
	p.mu.Lock()
	defer p.mu.Unlock()
	return len(p.msgs)
}

// Call performs an RPC with a timeout; a timeout is reported as an error.
func (p *Peer) Call(method string, args interface{}, reply interface{}, timeout time.Duration) error {
	call := p.C.Go(method, args, reply, make(chan *rpc2.Call, 1))
	select {
	case <-call.Done:
		return call.Error
	case <-p.done:
		return fmt.Errorf("connection closed")
	case <-time.After(timeout):
		return fmt.Errorf("rpc %s: no reply within %s", method, timeout)
	}
}

// Transact sends operations and decodes the results.
func (p *Peer) Transact(db string, ops []ovsdb.Operation) ([]ovsdb.OperationResult, error) {
	var reply []ovsdb.OperationResult
	err := p.Call("transact", ovsdb.NewTransactArgs(db, ops...), &reply, 60*time.Second)
	return reply, err
}

// TransactRaw sends pre-encoded operations.
func (p *Peer) TransactRaw(db string, ops []json.RawMessage, timeout time.Duration) (json.RawMessage, error) {
	args := []interface{}{db}
	for _, o := range ops {
		args = append(args, o)
	}
	var reply json.RawMessage
	err := p.Call("transact", args, &reply, timeout)
	return reply, err
}

// Echo checks that the server still answers.
func (p *Peer) Echo(timeout time.Duration) error {
	var reply []interface{}
	return p.Call("echo", []interface{}{"ping"}, &reply, timeout)
}

// Server bundles a running library server.
type Server struct {
	S    *server.OvsdbServer
	DB   database.Database
	Path string
}

// StartServer starts the library's in-memory server for a model on a fresh
// unix socket inside dir.
func StartServer(m *dyn.Model, dir, name string) (*Server, error) {
	db := inmemory.NewDatabase(map[string]model.ClientDBModel{m.S.Name: m.Client})
	s, err := server.NewOvsdbServer(db, m.DB)
	if err != nil {
		return nil, err
	}
	path := fmt.Sprintf("%s/%s.sock", dir, name)
	_ = os.Remove(path)
	go func() { _ = s.Serve("unix", path) }()
	for i := 0; i < 400 && !s.Ready(); i++ {
		time.Sleep(2 * time.Millisecond)
	}
	if !s.Ready() {
		return nil, fmt.Errorf("server did not become ready")
	}
	return &Server{S: s, DB: db, Path: path}, nil
}

func (s *Server) Close() { s.S.Close() }

// StartClusterMember is StartServer plus the _Server database, so that
// leader-only clients can ask the server whether it is the leader.
func StartClusterMember(m *dyn.Model, dir, name string) (*Server, error) {
	sdbm, err := serverdb.FullDatabaseModel()
	if err != nil {
		return nil, err
	}
	sschema := serverdb.Schema()
	servMod, errs := model.NewDatabaseModel(sschema, sdbm)
	if len(errs) > 0 {
		return nil, fmt.Errorf("_Server model: %v", errs)
	}
	db := inmemory.NewDatabase(map[string]model.ClientDBModel{m.S.Name: m.Client, sschema.Name: sdbm})
	s, err := server.NewOvsdbServer(db, m.DB, servMod)
	if err != nil {
		return nil, err
	}
	path := fmt.Sprintf("%s/%s.sock", dir, name)
	_ = os.Remove(path)
	go func() { _ = s.Serve("unix", path) }()
	for i := 0; i < 400 && !s.Ready(); i++ {
		time.Sleep(2 * time.Millisecond)
	}
	if !s.Ready() {
		return nil, fmt.Errorf("server did not become ready")
	}
	return &Server{S: s, DB: db, Path: path}, nil
}
