package ref

import (
	"verifharness/internal/tspace"
)

// Modify2 computes the update2 "modify" row that turns old into new
// (ovsdb-server(7)): for sets the elements that belong to only one of the two,
// for maps the pairs whose key is in only one of them plus, for keys in both
// with different values, the new pair; for everything else (max 1) the new
// value. Only changed columns are present; cols restricts the columns (nil = all).
func Modify2(t *tspace.Table, old, new Row, cols map[string]bool) Row {
	out := Row{}
	for _, c := range t.Cols {
		if cols != nil && !cols[c.Name] {
			continue
		}
		a, b := old[c.Name], new[c.Name]
		if a.Equal(b) {
			continue
		}
		switch {
		case c.IsMap():
			d := Datum{Map: true}
			for i, k := range a.K {
				if v, ok := b.Get(k); !ok {
					d = d.WithPair(k, a.V[i])
				} else if v != a.V[i] {
					d = d.WithPair(k, v)
				}
			}
			for i, k := range b.K {
				if !a.Has(k) {
					d = d.WithPair(k, b.V[i])
				}
			}
			out[c.Name] = d
		case c.IsSet():
			d := Datum{}
			for _, k := range a.K {
				if !b.Has(k) {
					d = d.With(k)
				}
			}
			for _, k := range b.K {
				if !a.Has(k) {
					d = d.With(k)
				}
			}
			out[c.Name] = d
		default:
			out[c.Name] = b
		}
	}
	return out
}

// ApplyModify2 applies an update2 modify row to a row (the rules a conforming
// client follows): set elements toggle, map pairs are added, replaced or (when
// identical) removed, anything else is overwritten.
func ApplyModify2(t *tspace.Table, row Row, mod Row) Row {
	out := row.Clone()
	for cn, d := range mod {
		c := t.Col(cn)
		if c == nil {
			continue
		}
		cur := out[cn]
		switch {
		case c.IsMap():
			for i, k := range d.K {
				if x, ok := cur.Get(k); ok && x == d.V[i] {
					cur = cur.Without(k)
				} else {
					cur = cur.WithPair(k, d.V[i])
				}
			}
		case c.IsSet():
			for _, k := range d.K {
				if cur.Has(k) {
					cur = cur.Without(k)
				} else {
					cur = cur.With(k)
				}
			}
		default:
			cur = d
		}
		out[cn] = cur
	}
	return out
}

// FullRow fills absent columns with their defaults.
func FullRow(t *tspace.Table, r Row) Row {
	out := Row{}
	for _, c := range t.Cols {
		if d, ok := r[c.Name]; ok {
			out[c.Name] = d
		} else {
			out[c.Name] = Default(c)
		}
	}
	return out
}

// Project keeps the given columns (nil = all).
func Project(r Row, cols map[string]bool) Row {
	if cols == nil {
		return r.Clone()
	}
	out := Row{}
	for k, v := range r {
		if cols[k] {
			out[k] = v
		}
	}
	return out
}
