// Package ref is the harness's independent, deliberately naive executable
// model of RFC 7047 data, conditions, mutations, operations, referential
// integrity, unique indexes and monitor encodings.
package ref

import (
	"fmt"
	"math"
	"sort"
	"strconv"
	"strings"

	"verifharness/internal/tspace"
)

// Atom is one atomic value. T is 'i','r','b','s','u'.
type Atom struct {
	T byte
	I int64
	F float64
	B bool
	S string
}

func Int(i int64) Atom { return Atom{T: 'i', I: i} }
func Real(f float64) Atom {
	if f == 0 {
		f = 0 // -0 and +0 are the same real
	}
	return Atom{T: 'r', F: f}
}
func Bool(b bool) Atom   { return Atom{T: 'b', B: b} }
func Str(s string) Atom  { return Atom{T: 's', S: s} }
func UUID(s string) Atom { return Atom{T: 'u', S: s} }

const ZeroUUID = "00000000-0000-0000-0000-000000000000"

func (a Atom) String() string {
	switch a.T {
	case 'i':
		return strconv.FormatInt(a.I, 10)
	case 'r':
		return strconv.FormatFloat(a.F, 'g', -1, 64) + "r"
	case 'b':
		return strconv.FormatBool(a.B)
	case 's':
		return strconv.Quote(a.S)
	case 'u':
		return "<" + a.S + ">"
	}
	return "?"
}

// Less is a total order on atoms of the same type.
func (a Atom) Less(b Atom) bool {
	if a.T != b.T {
		return a.T < b.T
	}
	switch a.T {
	case 'i':
		return a.I < b.I
	case 'r':
		return a.F < b.F
	case 'b':
		return !a.B && b.B
	default:
		return a.S < b.S
	}
}

func AtomType(t string) byte {
	switch t {
	case "integer":
		return 'i'
	case "real":
		return 'r'
	case "boolean":
		return 'b'
	case "string":
		return 's'
	case "uuid":
		return 'u'
	}
	return '?'
}

// DefaultAtom is the RFC 7047 default of an atomic type.
func DefaultAtom(t string) Atom {
	switch t {
	case "integer":
		return Int(0)
	case "real":
		return Real(0)
	case "boolean":
		return Bool(false)
	case "string":
		return Str("")
	}
	return UUID(ZeroUUID)
}

// Datum is a column value: a set of atoms or a map from atoms to atoms, kept
// sorted by key without duplicates.
type Datum struct {
	Map bool
	K   []Atom
	V   []Atom
}

func Set(atoms ...Atom) Datum {
	d := Datum{}
	for _, a := range atoms {
		d = d.With(a)
	}
	return d
}

func MapOf(pairs ...[2]Atom) Datum {
	d := Datum{Map: true}
	for _, p := range pairs {
		d = d.WithPair(p[0], p[1])
	}
	return d
}

func (d Datum) Len() int { return len(d.K) }

func (d Datum) find(a Atom) (int, bool) {
	i := sort.Search(len(d.K), func(i int) bool { return !d.K[i].Less(a) })
	return i, i < len(d.K) && d.K[i] == a
}

func (d Datum) Has(a Atom) bool { _, ok := d.find(a); return ok }

func (d Datum) Get(k Atom) (Atom, bool) {
	i, ok := d.find(k)
	if !ok || !d.Map {
		return Atom{}, false
	}
	return d.V[i], true
}

// With returns the set with a added.
func (d Datum) With(a Atom) Datum {
	i, ok := d.find(a)
	if ok {
		return d
	}
	k := make([]Atom, 0, len(d.K)+1)
	k = append(k, d.K[:i]...)
	k = append(k, a)
	k = append(k, d.K[i:]...)
	return Datum{K: k}
}

// WithPair returns the map with k set to v (replacing).
func (d Datum) WithPair(k, v Atom) Datum {
	i, ok := d.find(k)
	nk := make([]Atom, 0, len(d.K)+1)
	nv := make([]Atom, 0, len(d.K)+1)
	nk = append(nk, d.K[:i]...)
	nv = append(nv, d.V[:i]...)
	nk = append(nk, k)
	nv = append(nv, v)
	if ok {
		i++
	}
	nk = append(nk, d.K[i:]...)
	nv = append(nv, d.V[i:]...)
	return Datum{Map: true, K: nk, V: nv}
}

// Without removes key/element a.
func (d Datum) Without(a Atom) Datum {
	i, ok := d.find(a)
	if !ok {
		return d
	}
	out := Datum{Map: d.Map}
	out.K = append(append([]Atom{}, d.K[:i]...), d.K[i+1:]...)
	if d.Map {
		out.V = append(append([]Atom{}, d.V[:i]...), d.V[i+1:]...)
	}
	return out
}

func (d Datum) Equal(o Datum) bool {
	if len(d.K) != len(o.K) {
		return false
	}
	for i := range d.K {
		if d.K[i] != o.K[i] {
			return false
		}
		if d.Map || o.Map {
			var a, b Atom
			if i < len(d.V) {
				a = d.V[i]
			}
			if i < len(o.V) {
				b = o.V[i]
			}
			if a != b {
				return false
			}
		}
	}
	return true
}

func (d Datum) String() string {
	var sb strings.Builder
	if d.Map {
		sb.WriteString("{")
		for i := range d.K {
			if i > 0 {
				sb.WriteString(",")
			}
			sb.WriteString(d.K[i].String() + ":" + d.V[i].String())
		}
		sb.WriteString("}")
		return sb.String()
	}
	sb.WriteString("[")
	for i := range d.K {
		if i > 0 {
			sb.WriteString(",")
		}
		sb.WriteString(d.K[i].String())
	}
	sb.WriteString("]")
	return sb.String()
}

func (d Datum) Clone() Datum {
	return Datum{Map: d.Map, K: append([]Atom(nil), d.K...), V: append([]Atom(nil), d.V...)}
}

// Default returns the default value of a column (RFC 7047 5.2.1: a scalar
// column holds the type's default, everything else is empty).
func Default(c *tspace.Col) Datum {
	if c.IsMap() {
		return Datum{Map: true}
	}
	if c.IsScalar() {
		return Set(DefaultAtom(c.Key.Type))
	}
	return Datum{}
}

// Row is a full row: every column of the table is present.
type Row map[string]Datum

func (r Row) Clone() Row {
	o := make(Row, len(r))
	for k, v := range r {
		o[k] = v
	}
	return o
}

func (r Row) Equal(o Row) bool {
	if len(r) != len(o) {
		return false
	}
	for k, v := range r {
		w, ok := o[k]
		if !ok || !v.Equal(w) {
			return false
		}
	}
	return true
}

func (r Row) String() string {
	keys := make([]string, 0, len(r))
	for k := range r {
		keys = append(keys, k)
	}
	sort.Strings(keys)
	var sb strings.Builder
	for i, k := range keys {
		if i > 0 {
			sb.WriteString(" ")
		}
		sb.WriteString(k + "=" + r[k].String())
	}
	return sb.String()
}

// NormUUID maps the two spellings of "no uuid" onto one.
func NormUUID(s string) string {
	if s == "" {
		return ZeroUUID
	}
	return s
}

func fmtF(f float64) string {
	if math.IsInf(f, 0) || math.IsNaN(f) {
		return fmt.Sprint(f)
	}
	return strconv.FormatFloat(f, 'g', -1, 64)
}
