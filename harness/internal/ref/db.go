package ref

import (
	"fmt"
	"math"
	"regexp"
	"sort"
	"strings"

	"verifharness/internal/tspace"
)

// DB is a database state: table -> uuid -> full row.
type DB struct {
	S *tspace.Schema
	T map[string]map[string]Row
}

func NewDB(s *tspace.Schema) *DB {
	db := &DB{S: s, T: map[string]map[string]Row{}}
	for _, t := range s.Tables {
		db.T[t.Name] = map[string]Row{}
	}
	return db
}

func (db *DB) Clone() *DB {
	o := &DB{S: db.S, T: make(map[string]map[string]Row, len(db.T))}
	for tn, t := range db.T {
		nt := make(map[string]Row, len(t))
		for u, r := range t {
			nt[u] = r.Clone()
		}
		o.T[tn] = nt
	}
	return o
}

func (db *DB) Equal(o *DB) bool { return db.Diff(o) == "" }

// Diff describes the first difference between two states ("" if none).
func (db *DB) Diff(o *DB) string {
	for _, t := range db.S.Tables {
		a, b := db.T[t.Name], o.T[t.Name]
		for u, r := range a {
			r2, ok := b[u]
			if !ok {
				return fmt.Sprintf("table %s: row %s only in first {%s}", t.Name, u, r)
			}
			for _, c := range t.Cols {
				if !r[c.Name].Equal(r2[c.Name]) {
					return fmt.Sprintf("table %s row %s column %s (%s): %s vs %s", t.Name, u, c.Name, c.Desc(), r[c.Name], r2[c.Name])
				}
			}
		}
		for u, r := range b {
			if _, ok := a[u]; !ok {
				return fmt.Sprintf("table %s: row %s only in second {%s}", t.Name, u, r)
			}
		}
	}
	return ""
}

// Hash is a canonical string of the whole state (for distinct-state counting).
func (db *DB) Hash() string {
	var sb strings.Builder
	for _, t := range db.S.Tables {
		us := make([]string, 0, len(db.T[t.Name]))
		for u := range db.T[t.Name] {
			us = append(us, u)
		}
		sort.Strings(us)
		sb.WriteString(t.Name + "{")
		for _, u := range us {
			sb.WriteString(u + ":" + db.T[t.Name][u].String() + ";")
		}
		sb.WriteString("}")
	}
	return sb.String()
}

func (db *DB) Rows() int {
	n := 0
	for _, t := range db.T {
		n += len(t)
	}
	return n
}

// Cond is a condition of RFC 7047 5.1. Column "_uuid" is allowed.
type Cond struct {
	Col string
	Fn  string
	Val Datum
}

// Mut is a mutation of RFC 7047 5.1.
type Mut struct {
	Col     string
	Mutator string
	Val     Datum
}

// Op is one operation of a transaction.
type Op struct {
	Kind     string // insert select update mutate delete wait
	Table    string
	UUID     string // insert: explicit uuid ("" = server chooses)
	UUIDName string // insert: uuid-name
	Row      Row    // insert/update: given columns only
	Where    []Cond
	Muts     []Mut
	Columns  []string // select/wait; nil = all
	Until    string
	Rows     []Row
	Timeout  *int
}

// Result of one operation. Err is an RFC error string ("" = success).
type Result struct {
	Kind  string
	UUID  string
	Count int
	Rows  []SelRow
	Err   string
	Why   string
}

// SelRow is one row returned by select: the requested projection.
type SelRow struct {
	UUID string
	Cols Row
}

// Outcome of a whole transaction.
type Outcome struct {
	Results   []Result // one per executed operation (up to and including a failing one)
	CommitErr string   // commit-time rejection ("" = none)
	CommitWhy string
	Post      *DB    // state after (== pre if anything failed)
	OutOfDom  string // non-empty: the reference needs a check the property excludes (constraints, overflow ...)
	Names     map[string]string
}

func (o *Outcome) Failed() bool {
	if o.CommitErr != "" {
		return true
	}
	for _, r := range o.Results {
		if r.Err != "" {
			return true
		}
	}
	return false
}

var uuidRe = regexp.MustCompile(`^[0-9a-f]{8}-[0-9a-f]{4}-[0-9a-f]{4}-[0-9a-f]{4}-[0-9a-f]{12}$`)

func IsUUID(s string) bool { return len(s) == 36 && uuidRe.MatchString(s) }

func colOf(t *tspace.Table, name string) *tspace.Col {
	if name == "_uuid" {
		return &tspace.Col{Name: "_uuid", Key: tspace.Base{Type: "uuid"}, Min: 1, Max: 1}
	}
	return t.Col(name)
}

func rowVal(uuid string, r Row, col string) Datum {
	if col == "_uuid" {
		return Set(UUID(uuid))
	}
	return r[col]
}

// EvalCond evaluates one condition on a column value (RFC 7047 5.1).
func EvalCond(c *tspace.Col, fn string, v, arg Datum) (bool, error) {
	switch fn {
	case "==":
		return v.Equal(arg), nil
	case "!=":
		return !v.Equal(arg), nil
	case "includes":
		for i, k := range arg.K {
			if arg.Map {
				x, ok := v.Get(k)
				if !ok || x != arg.V[i] {
					return false, nil
				}
			} else if !v.Has(k) {
				return false, nil
			}
		}
		return true, nil
	case "excludes":
		for i, k := range arg.K {
			if arg.Map {
				x, ok := v.Get(k)
				if ok && x == arg.V[i] {
					return false, nil
				}
			} else if v.Has(k) {
				return false, nil
			}
		}
		return true, nil
	case "<", "<=", ">", ">=":
		if !c.IsScalar() || (c.Key.Type != "integer" && c.Key.Type != "real") || len(c.Key.Enum) > 0 {
			return false, fmt.Errorf("%s not defined on %s", fn, c.Desc())
		}
		if v.Len() != 1 || arg.Len() != 1 {
			return false, fmt.Errorf("%s needs scalars", fn)
		}
		a, b := v.K[0], arg.K[0]
		lt, eq := a.Less(b), a == b
		switch fn {
		case "<":
			return lt, nil
		case "<=":
			return lt || eq, nil
		case ">":
			return !lt && !eq, nil
		default:
			return !lt, nil
		}
	}
	return false, fmt.Errorf("unknown function %q", fn)
}

// Match returns the uuids of rows of a table matching all conditions.
func (db *DB) Match(table string, where []Cond) ([]string, error) {
	t := db.S.Table(table)
	if t == nil {
		return nil, fmt.Errorf("unknown table %s", table)
	}
	var out []string
	for u, r := range db.T[table] {
		ok := true
		for _, c := range where {
			col := colOf(t, c.Col)
			if col == nil {
				return nil, fmt.Errorf("unknown column %s", c.Col)
			}
			m, err := EvalCond(col, c.Fn, rowVal(u, r, c.Col), c.Val)
			if err != nil {
				return nil, err
			}
			if !m {
				ok = false
				break
			}
		}
		if ok {
			out = append(out, u)
		}
	}
	sort.Strings(out)
	return out, nil
}

// errOutOfDomain marks transactions the property's domain excludes.
type errOutOfDomain struct{ why string }

func (e errOutOfDomain) Error() string { return "out of domain: " + e.why }

// checkConstraints reports constraint needs the in-memory database does not enforce.
func checkConstraints(c *tspace.Col, d Datum) error {
	if c.Max != -1 && d.Len() > c.Max {
		return errOutOfDomain{fmt.Sprintf("column %s would hold %d elements (max %d)", c.Name, d.Len(), c.Max)}
	}
	if d.Len() < c.Min {
		return errOutOfDomain{fmt.Sprintf("column %s would hold %d elements (min %d)", c.Name, d.Len(), c.Min)}
	}
	if len(c.Key.Enum) > 0 {
		for _, k := range d.K {
			if !inEnum(c.Key, k) {
				return errOutOfDomain{fmt.Sprintf("column %s: %s not in enum", c.Name, k)}
			}
		}
	}
	return nil
}

func inEnum(b tspace.Base, a Atom) bool {
	for _, e := range b.Enum {
		switch x := e.(type) {
		case int:
			if a.T == 'i' && a.I == int64(x) {
				return true
			}
		case float64:
			if a.T == 'r' && a.F == x {
				return true
			}
		case string:
			if a.T == 's' && a.S == x {
				return true
			}
		}
	}
	return false
}

// Mutate applies one mutation to a column value (RFC 7047 5.1).
func Mutate(c *tspace.Col, v Datum, mutator string, arg Datum) (Datum, string, error) {
	switch mutator {
	case "+=", "-=", "*=", "/=", "%=":
		if c.IsMap() || (c.Key.Type != "integer" && c.Key.Type != "real") || len(c.Key.Enum) > 0 {
			return v, "", fmt.Errorf("arithmetic on %s", c.Desc())
		}
		if mutator == "%=" && c.Key.Type == "real" {
			return v, "", fmt.Errorf("%%= on real")
		}
		if arg.Len() != 1 {
			return v, "", fmt.Errorf("arithmetic needs a scalar argument")
		}
		b := arg.K[0]
		out := Datum{}
		for _, a := range v.K {
			var n Atom
			if c.Key.Type == "integer" {
				x, y := a.I, b.I
				var z int64
				switch mutator {
				case "+=":
					z = x + y
					if (y > 0 && z < x) || (y < 0 && z > x) {
						return v, "", errOutOfDomain{"integer overflow"}
					}
				case "-=":
					z = x - y
					if (y < 0 && z < x) || (y > 0 && z > x) {
						return v, "", errOutOfDomain{"integer overflow"}
					}
				case "*=":
					z = x * y
					if x != 0 && (z/x != y || (x == -1 && y == math.MinInt64) || (y == -1 && x == math.MinInt64)) {
						return v, "", errOutOfDomain{"integer overflow"}
					}
				case "/=":
					if y == 0 {
						return v, "domain error", nil
					}
					if x == math.MinInt64 && y == -1 {
						return v, "", errOutOfDomain{"integer overflow"}
					}
					z = x / y
				case "%=":
					if y == 0 {
						return v, "domain error", nil
					}
					if x == math.MinInt64 && y == -1 {
						return v, "", errOutOfDomain{"integer overflow"}
					}
					z = x % y
				}
				n = Int(z)
			} else {
				x, y := a.F, b.F
				var z float64
				switch mutator {
				case "+=":
					z = x + y
				case "-=":
					z = x - y
				case "*=":
					z = x * y
				case "/=":
					if y == 0 {
						return v, "domain error", nil
					}
					z = x / y
				}
				if math.IsInf(z, 0) || math.IsNaN(z) {
					return v, "", errOutOfDomain{"non-finite real"}
				}
				n = Real(z)
			}
			if out.Has(n) {
				return v, "", errOutOfDomain{"arithmetic produced duplicate set elements"}
			}
			out = out.With(n)
		}
		return out, "", nil
	case "insert":
		if c.IsMap() {
			if !arg.Map {
				return v, "", fmt.Errorf("insert into map needs a map")
			}
			out := v
			for i, k := range arg.K {
				if !out.Has(k) {
					out = out.WithPair(k, arg.V[i])
				}
			}
			return out, "", nil
		}
		if c.IsScalar() {
			return v, "", fmt.Errorf("insert on scalar")
		}
		out := v
		for _, k := range arg.K {
			out = out.With(k)
		}
		return out, "", nil
	case "delete":
		if c.IsMap() {
			out := v
			for i, k := range arg.K {
				if arg.Map {
					if x, ok := out.Get(k); ok && x == arg.V[i] {
						out = out.Without(k)
					}
				} else {
					out = out.Without(k)
				}
			}
			return out, "", nil
		}
		if c.IsScalar() {
			return v, "", fmt.Errorf("delete on scalar")
		}
		out := v
		for _, k := range arg.K {
			out = out.Without(k)
		}
		return out, "", nil
	}
	return v, "", fmt.Errorf("unknown mutator %q", mutator)
}

// substitute replaces named uuids in a datum of a column (any uuid-typed position).
func substitute(c *tspace.Col, d Datum, names map[string]string) Datum {
	keyU := c.Key.Type == "uuid"
	valU := c.Val != nil && c.Val.Type == "uuid"
	if !keyU && !valU {
		return d
	}
	sub := func(a Atom) Atom {
		if a.T == 'u' {
			if r, ok := names[a.S]; ok {
				return UUID(r)
			}
		}
		return a
	}
	if d.Map {
		out := Datum{Map: true}
		for i, k := range d.K {
			v := d.V[i]
			if keyU {
				k = sub(k)
			}
			if valU {
				v = sub(v)
			}
			out = out.WithPair(k, v)
		}
		return out
	}
	out := Datum{}
	for _, k := range d.K {
		if keyU {
			k = sub(k)
		}
		out = out.With(k)
	}
	return out
}

// Transact executes a transaction per RFC 7047 5.2 against a copy of db.
// Inserts must carry their UUID (the harness chooses it or copies the one the
// library assigned).
func (db *DB) Transact(ops []Op) *Outcome {
	return db.transact(ops, true)
}

// ExecOnly executes the operations without commit-time processing and returns
// the working state in Outcome.Post (nil if an operation failed).
func (db *DB) ExecOnly(ops []Op) *Outcome {
	return db.transact(ops, false)
}

func (db *DB) transact(ops []Op, commit bool) *Outcome {
	out := &Outcome{Post: db, Names: map[string]string{}}
	work := db.Clone()

	// pass 1: uuid-names
	for i := range ops {
		op := &ops[i]
		if op.Kind != "insert" || op.UUIDName == "" {
			continue
		}
		if prev, ok := out.Names[op.UUIDName]; ok {
			if op.UUID != "" && op.UUID != prev {
				out.Results = []Result{{Kind: op.Kind, Err: "duplicate uuid-name", Why: "two inserts claim " + op.UUIDName}}
				return out
			}
			// the library lets a later insert re-use the name and the uuid: reported as duplicate row below
			continue
		}
		out.Names[op.UUIDName] = op.UUID
	}
	names := out.Names

	deletedHere := map[string]bool{}
	fail := func(kind, err, why string) *Outcome {
		out.Results = append(out.Results, Result{Kind: kind, Err: err, Why: why})
		return out
	}

	for _, op0 := range ops {
		op := op0
		t := db.S.Table(op.Table)
		if t == nil {
			return fail(op.Kind, "error", "unknown table "+op.Table)
		}
		// substitute names
		subRow := func(r Row) (Row, error) {
			o := Row{}
			for cn, d := range r {
				c := colOf(t, cn)
				if c == nil {
					return nil, fmt.Errorf("unknown column %s", cn)
				}
				o[cn] = substitute(c, d, names)
			}
			return o, nil
		}
		var err error
		if op.Row, err = subRow(op.Row); err != nil {
			return fail(op.Kind, "error", err.Error())
		}
		rows := make([]Row, len(op.Rows))
		for i, r := range op.Rows {
			if rows[i], err = subRow(r); err != nil {
				return fail(op.Kind, "error", err.Error())
			}
		}
		op.Rows = rows
		where := make([]Cond, len(op.Where))
		for i, c := range op.Where {
			col := colOf(t, c.Col)
			if col == nil {
				return fail(op.Kind, "error", "unknown column "+c.Col)
			}
			where[i] = Cond{c.Col, c.Fn, substitute(col, c.Val, names)}
		}
		op.Where = where
		muts := make([]Mut, len(op.Muts))
		for i, m := range op.Muts {
			col := colOf(t, m.Col)
			if col == nil {
				return fail(op.Kind, "error", "unknown column "+m.Col)
			}
			muts[i] = Mut{m.Col, m.Mutator, substitute(col, m.Val, names)}
		}
		op.Muts = muts

		switch op.Kind {
		case "insert":
			if !IsUUID(op.UUID) {
				return fail(op.Kind, "error", "insert without a valid uuid")
			}
			if _, exists := work.T[op.Table][op.UUID]; exists || deletedHere[op.Table+"/"+op.UUID] {
				return fail(op.Kind, "duplicate uuid", "row "+op.UUID+" already exists")
			}
			row := Row{}
			for _, c := range t.Cols {
				row[c.Name] = Default(c)
			}
			for cn, d := range op.Row {
				if cn == "_uuid" {
					continue
				}
				c := t.Col(cn)
				if c == nil {
					return fail(op.Kind, "error", "unknown column "+cn)
				}
				if e := checkConstraints(c, d); e != nil {
					out.OutOfDom = e.Error()
					return out
				}
				row[cn] = d
			}
			work.T[op.Table][op.UUID] = row
			out.Results = append(out.Results, Result{Kind: "insert", UUID: op.UUID})
		case "select":
			us, err := work.Match(op.Table, op.Where)
			if err != nil {
				return fail(op.Kind, "error", err.Error())
			}
			res := Result{Kind: "select"}
			for _, u := range us {
				res.Rows = append(res.Rows, SelRow{UUID: u, Cols: project(t, work.T[op.Table][u], op.Columns)})
			}
			out.Results = append(out.Results, res)
		case "update":
			us, err := work.Match(op.Table, op.Where)
			if err != nil {
				return fail(op.Kind, "error", err.Error())
			}
			for _, u := range us {
				row := work.T[op.Table][u].Clone()
				for cn, d := range op.Row {
					if cn == "_uuid" {
						continue
					}
					c := t.Col(cn)
					if c == nil {
						return fail(op.Kind, "error", "unknown column "+cn)
					}
					if c.Immutable && !row[cn].Equal(d) {
						return fail(op.Kind, "constraint violation", "update of immutable column "+cn)
					}
					if e := checkConstraints(c, d); e != nil {
						out.OutOfDom = e.Error()
						return out
					}
					row[cn] = d
				}
				work.T[op.Table][u] = row
			}
			out.Results = append(out.Results, Result{Kind: "update", Count: len(us)})
		case "mutate":
			us, err := work.Match(op.Table, op.Where)
			if err != nil {
				return fail(op.Kind, "error", err.Error())
			}
			for _, m := range op.Muts {
				c := t.Col(m.Col)
				if c == nil {
					return fail(op.Kind, "error", "unknown column "+m.Col)
				}
				// (ovsdb-server refuses the mutation of an immutable column when it parses the
				// operation; the library looks at mutations row by row, so one whose where
				// clause selects nothing is answered with count 0: no effect either way, and
				// only a mutation that reaches a row is judged)
				if c.Immutable && len(us) > 0 {
					return fail(op.Kind, "constraint violation", "mutation of immutable column "+m.Col)
				}
			}
			for _, u := range us {
				row := work.T[op.Table][u].Clone()
				for _, m := range op.Muts {
					c := t.Col(m.Col)
					nv, rfcErr, err := Mutate(c, row[m.Col], m.Mutator, m.Val)
					if err != nil {
						if od, ok := err.(errOutOfDomain); ok {
							out.OutOfDom = od.Error()
							return out
						}
						return fail(op.Kind, "error", err.Error())
					}
					if rfcErr != "" {
						return fail(op.Kind, rfcErr, "mutation "+m.Mutator+" on "+m.Col)
					}
					if e := checkConstraints(c, nv); e != nil {
						out.OutOfDom = e.Error()
						return out
					}
					row[m.Col] = nv
				}
				work.T[op.Table][u] = row
			}
			out.Results = append(out.Results, Result{Kind: "mutate", Count: len(us)})
		case "delete":
			us, err := work.Match(op.Table, op.Where)
			if err != nil {
				return fail(op.Kind, "error", err.Error())
			}
			for _, u := range us {
				delete(work.T[op.Table], u)
				deletedHere[op.Table+"/"+u] = true
			}
			out.Results = append(out.Results, Result{Kind: "delete", Count: len(us)})
		case "wait":
			if op.Timeout == nil || *op.Timeout != 0 {
				out.OutOfDom = "wait without a zero timeout"
				return out
			}
			us, err := work.Match(op.Table, op.Where)
			if err != nil {
				return fail(op.Kind, "error", err.Error())
			}
			cols := op.Columns
			if cols == nil {
				for _, c := range t.Cols {
					cols = append(cols, c.Name)
				}
			}
			// The selected rows and the given rows are compared as sets on the
			// columns; a column a given row does not mention is not compared for
			// that row (the library's own tests pin this reading).
			for _, cn := range cols {
				if cn != "_uuid" && colOf(t, cn) == nil {
					return fail(op.Kind, "error", "unknown column "+cn)
				}
			}
			matches := func(u string, given Row) bool {
				for _, cn := range cols {
					d, ok := given[cn]
					if !ok {
						continue
					}
					if !rowVal(u, work.T[op.Table][u], cn).Equal(d) {
						return false
					}
				}
				return true
			}
			equal := true
			matched := make([]bool, len(op.Rows))
			for _, u := range us {
				in := false
				for i, given := range op.Rows {
					if matches(u, given) {
						in = true
						matched[i] = true
					}
				}
				if !in {
					equal = false
				}
			}
			for _, ok := range matched {
				if !ok {
					equal = false
				}
			}
			if (op.Until == "==") == equal {
				out.Results = append(out.Results, Result{Kind: "wait"})
			} else {
				return fail("wait", "timed out", "wait condition not met")
			}
		default:
			return fail(op.Kind, "not supported", "operation "+op.Kind)
		}
	}

	if !commit {
		out.Post = work
		return out
	}
	// commit-time processing
	if err, why := work.commit(); err != "" {
		out.CommitErr, out.CommitWhy = err, why
		return out
	}
	out.Post = work
	return out
}

func project(t *tspace.Table, r Row, cols []string) Row {
	o := Row{}
	if cols == nil {
		for _, c := range t.Cols {
			o[c.Name] = r[c.Name]
		}
		return o
	}
	for _, cn := range cols {
		if cn == "_uuid" {
			continue
		}
		o[cn] = r[cn]
	}
	return o
}

func projKey(uuid string, r Row, cols []string) string {
	var sb strings.Builder
	for _, cn := range cols {
		if cn == "_uuid" {
			sb.WriteString("_uuid=" + uuid + ";")
			continue
		}
		sb.WriteString(cn + "=" + r[cn].String() + ";")
	}
	return sb.String()
}

// refsOf lists (table, uuid, weak?) references held by a row.
type heldRef struct {
	Col   string
	InVal bool
	To    string
	Table string
	Weak  bool
}

func rowRefs(t *tspace.Table, r Row) []heldRef {
	var out []heldRef
	for _, c := range t.Cols {
		d := r[c.Name]
		if c.Key.IsRef() {
			for _, k := range d.K {
				if k.T == 'u' && k.S != ZeroUUID && k.S != "" {
					out = append(out, heldRef{c.Name, false, k.S, c.Key.RefTable, c.Key.IsWeak()})
				}
			}
		}
		if c.Val != nil && c.Val.IsRef() {
			for _, v := range d.V {
				if v.T == 'u' && v.S != ZeroUUID && v.S != "" {
					out = append(out, heldRef{c.Name, true, v.S, c.Val.RefTable, c.Val.IsWeak()})
				}
			}
		}
	}
	return out
}

// commit applies garbage collection, weak-reference pruning and the
// integrity / index checks to db in place. Returns an RFC error string.
func (db *DB) commit() (string, string) {
	// 1. strong references must point to existing rows. Like ovsdb-server this
	//    is decided before garbage collection: a row that is about to be
	//    collected still must not hold a dangling strong reference.
	for _, t := range db.S.Tables {
		for u, r := range db.T[t.Name] {
			for _, h := range rowRefs(t, r) {
				if h.Weak {
					continue
				}
				if _, ok := db.T[h.Table][h.To]; !ok {
					return "referential integrity violation", fmt.Sprintf("%s/%s column %s references missing %s/%s", t.Name, u, h.Col, h.Table, h.To)
				}
			}
		}
	}
	// 2. garbage collection of unreferenced non-root rows, to a fixpoint,
	//    by the literal rule: a non-root row survives iff some existing row
	//    holds a strong reference to it.
	for {
		referenced := map[string]bool{}
		for _, t := range db.S.Tables {
			for _, r := range db.T[t.Name] {
				for _, h := range rowRefs(t, r) {
					if !h.Weak {
						referenced[h.Table+"/"+h.To] = true
					}
				}
			}
		}
		removed := false
		for _, t := range db.S.Tables {
			if db.S.RootSet(t.Name) {
				continue
			}
			for u := range db.T[t.Name] {
				if !referenced[t.Name+"/"+u] {
					delete(db.T[t.Name], u)
					removed = true
				}
			}
		}
		if !removed {
			break
		}
	}
	// 3. weak references to missing rows are removed
	for _, t := range db.S.Tables {
		for u, r := range db.T[t.Name] {
			changed := false
			nr := r
			for _, c := range t.Cols {
				d := r[c.Name]
				nd := d
				if c.Key.IsWeak() {
					for _, k := range d.K {
						if k.S == ZeroUUID || k.S == "" {
							continue
						}
						if _, ok := db.T[c.Key.RefTable][k.S]; !ok {
							nd = nd.Without(k)
						}
					}
				}
				if c.Val != nil && c.Val.IsWeak() {
					for i, k := range d.K {
						v := d.V[i]
						if v.S == ZeroUUID || v.S == "" {
							continue
						}
						if _, ok := db.T[c.Val.RefTable][v.S]; !ok {
							nd = nd.Without(k)
						}
					}
				}
				if nd.Len() != d.Len() {
					if c.IsScalar() {
						return "constraint violation", fmt.Sprintf("%s/%s column %s: scalar weak reference to missing row", t.Name, u, c.Name)
					}
					if nd.Len() < c.Min {
						return "constraint violation", fmt.Sprintf("%s/%s column %s: weak reference pruning leaves %d < min %d", t.Name, u, c.Name, nd.Len(), c.Min)
					}
					if !changed {
						nr = r.Clone()
						changed = true
					}
					nr[c.Name] = nd
				}
			}
			if changed {
				db.T[t.Name][u] = nr
			}
		}
	}
	// 4. unique indexes
	for _, t := range db.S.Tables {
		for _, idx := range t.Indexes {
			seen := map[string]string{}
			for u, r := range db.T[t.Name] {
				k := projKey("", r, idx)
				if o, dup := seen[k]; dup {
					return "constraint violation", fmt.Sprintf("table %s index %v: rows %s and %s share %s", t.Name, idx, o, u, k)
				}
				seen[k] = u
			}
		}
	}
	return "", ""
}

// CheckIntegrity recomputes the C04/C06 invariants on a state from scratch and
// returns descriptions of every violation found.
func (db *DB) CheckIntegrity() []string {
	var bad []string
	referenced := map[string]bool{}
	for _, t := range db.S.Tables {
		for u, r := range db.T[t.Name] {
			for _, h := range rowRefs(t, r) {
				_, exists := db.T[h.Table][h.To]
				if !h.Weak {
					referenced[h.Table+"/"+h.To] = true
					if !exists {
						bad = append(bad, fmt.Sprintf("dangling-strong: %s/%s.%s -> %s/%s", t.Name, u, h.Col, h.Table, h.To))
					}
				} else if !exists {
					bad = append(bad, fmt.Sprintf("dangling-weak: %s/%s.%s -> %s/%s", t.Name, u, h.Col, h.Table, h.To))
				}
			}
			for _, c := range t.Cols {
				if c.Key.IsWeak() || (c.Val != nil && c.Val.IsWeak()) {
					if r[c.Name].Len() < c.Min && !c.IsScalar() {
						bad = append(bad, fmt.Sprintf("weak-below-min: %s/%s.%s has %d < %d", t.Name, u, c.Name, r[c.Name].Len(), c.Min))
					}
				}
			}
		}
	}
	for _, t := range db.S.Tables {
		if db.S.RootSet(t.Name) {
			continue
		}
		for u := range db.T[t.Name] {
			if !referenced[t.Name+"/"+u] {
				bad = append(bad, fmt.Sprintf("unreferenced-nonroot: %s/%s", t.Name, u))
			}
		}
	}
	for _, t := range db.S.Tables {
		for _, idx := range t.Indexes {
			seen := map[string]string{}
			for u, r := range db.T[t.Name] {
				k := projKey("", r, idx)
				if o, dup := seen[k]; dup {
					bad = append(bad, fmt.Sprintf("duplicate-index: table %s index %v rows %s %s value %s", t.Name, idx, o, u, k))
				}
				seen[k] = u
			}
		}
	}
	sort.Strings(bad)
	return bad
}
