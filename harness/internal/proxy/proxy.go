// Package proxy is a fault-injecting stream proxy between a client and a
// server on unix sockets. It frames both directions with a streaming JSON
// decoder (message boundaries), counts messages and executes a script: cut the
// connection after the k-th message of a direction, cut inside message k,
// black-hole from message k on, refuse the next j connection attempts.
package proxy

import (
	"encoding/json"
	"fmt"
	"net"
	"os"
	"strings"
	"sync"
)

// Dir is a direction.
type Dir int

const (
	C2S Dir = iota // client -> server
	S2C            // server -> client
)

func (d Dir) String() string {
	if d == C2S {
		return "c2s"
	}
	return "s2c"
}

// Fault is one scripted fault. It fires once, on the first connection on which
// its message count is reached (counts are per connection).
type Fault struct {
	Dir       Dir
	AfterMsg  int  // fire when this many messages of Dir have been forwarded on the connection (>=0)
	Inside    bool // forward only half of message AfterMsg+1, then cut
	BlackHole bool // instead of cutting: stop forwarding in both directions, keep the sockets open
	ConnIndex int  // apply to the n-th accepted connection (0-based); -1 = any
	Fired     bool
}

// Proxy forwards between Listen and Target.
type Proxy struct {
	Listen string
	Target string

	mu       sync.Mutex
	ln       net.Listener
	faults   []*Fault
	refuse   int // refuse the next n connection attempts
	accepted int
	conns    []*pconn
	Log      []string // message log: "conn dir n method/id"
	closed   bool
	// Payloads, when KeepPayloads > 0, holds the last KeepPayloads messages
	// ("conn dir n <json, truncated>"), for witnesses.
	KeepPayloads int
	Payloads     []string
}

type pconn struct {
	idx      int
	c, s     net.Conn
	count    [2]int
	blackhol bool
}

func New(listen, target string) (*Proxy, error) {
	_ = os.Remove(listen)
	ln, err := net.Listen("unix", listen)
	if err != nil {
		return nil, err
	}
	p := &Proxy{Listen: listen, Target: target, ln: ln}
	go p.acceptLoop()
	return p, nil
}

func (p *Proxy) Close() {
	p.mu.Lock()
	p.closed = true
	conns := p.conns
	p.mu.Unlock()
	_ = p.ln.Close()
	for _, c := range conns {
		c.kill()
	}
}

// AddFault schedules a fault.
func (p *Proxy) AddFault(f *Fault) {
	p.mu.Lock()
	p.faults = append(p.faults, f)
	p.mu.Unlock()
}

// Refuse makes the proxy close the next n accepted connections immediately.
func (p *Proxy) Refuse(n int) {
	p.mu.Lock()
	p.refuse = n
	p.mu.Unlock()
}

// CutAll cuts every live connection now.
func (p *Proxy) CutAll() {
	p.mu.Lock()
	conns := append([]*pconn{}, p.conns...)
	p.mu.Unlock()
	for _, c := range conns {
		c.kill()
	}
}

// BlackHoleAll makes every live connection swallow traffic in both directions
// from now on (the sockets stay open); new connections are served normally.
func (p *Proxy) BlackHoleAll() {
	p.mu.Lock()
	for _, c := range p.conns {
		c.blackhol = true
	}
	p.Log = append(p.Log, "black hole on all live connections")
	p.mu.Unlock()
}

// SetKeepPayloads makes the proxy keep the last n messages.
func (p *Proxy) SetKeepPayloads(n int) {
	p.mu.Lock()
	p.KeepPayloads = n
	p.mu.Unlock()
}

// PayloadsContaining returns the kept payloads that contain s.
func (p *Proxy) PayloadsContaining(s string) []string {
	p.mu.Lock()
	defer p.mu.Unlock()
	var out []string
	for _, pl := range p.Payloads {
		if strings.Contains(pl, s) {
			out = append(out, pl)
		}
	}
	return out
}

// Accepted returns the number of connections accepted so far.
func (p *Proxy) Accepted() int {
	p.mu.Lock()
	defer p.mu.Unlock()
	return p.accepted
}

// Counts returns the message counts of connection idx.
func (p *Proxy) Counts(idx int) (c2s, s2c int) {
	p.mu.Lock()
	defer p.mu.Unlock()
	for _, c := range p.conns {
		if c.idx == idx {
			return c.count[C2S], c.count[S2C]
		}
	}
	return 0, 0
}

// Pending reports faults that have not fired.
func (p *Proxy) Pending() int {
	p.mu.Lock()
	defer p.mu.Unlock()
	n := 0
	for _, f := range p.faults {
		if !f.Fired {
			n++
		}
	}
	return n
}

func (c *pconn) kill() {
	_ = c.c.Close()
	_ = c.s.Close()
}

func (p *Proxy) acceptLoop() {
	for {
		cc, err := p.ln.Accept()
		if err != nil {
			return
		}
		p.mu.Lock()
		idx := p.accepted
		p.accepted++
		if p.refuse > 0 {
			p.refuse--
			p.Log = append(p.Log, fmt.Sprintf("conn%d refused", idx))
			p.mu.Unlock()
			_ = cc.Close()
			continue
		}
		p.mu.Unlock()
		sc, err := net.Dial("unix", p.Target)
		if err != nil {
			_ = cc.Close()
			continue
		}
		pc := &pconn{idx: idx, c: cc, s: sc}
		p.mu.Lock()
		p.conns = append(p.conns, pc)
		p.mu.Unlock()
		go p.pump(pc, C2S, cc, sc)
		go p.pump(pc, S2C, sc, cc)
	}
}

func describe(raw json.RawMessage) string {
	var m struct {
		Method string          `json:"method"`
		ID     json.RawMessage `json:"id"`
	}
	_ = json.Unmarshal(raw, &m)
	if m.Method != "" {
		return m.Method
	}
	return "reply:" + string(m.ID)
}

func (p *Proxy) pump(pc *pconn, dir Dir, from, to net.Conn) {
	dec := json.NewDecoder(from)
	for {
		var raw json.RawMessage
		if err := dec.Decode(&raw); err != nil {
			pc.kill()
			return
		}
		p.mu.Lock()
		if pc.blackhol {
			p.mu.Unlock()
			continue // swallow
		}
		n := pc.count[dir]
		var fire *Fault
		for _, f := range p.faults {
			if !f.Fired && f.Dir == dir && f.AfterMsg == n && (f.ConnIndex < 0 || f.ConnIndex == pc.idx) && f.Inside {
				fire = f
				break
			}
		}
		p.Log = append(p.Log, fmt.Sprintf("conn%d %s %d %s", pc.idx, dir, n, describe(raw)))
		if p.KeepPayloads > 0 {
			pl := string(raw)
			if len(pl) > 1500 {
				pl = pl[:1500] + "..."
			}
			p.Payloads = append(p.Payloads, fmt.Sprintf("conn%d %s %d %s", pc.idx, dir, n, pl))
			if len(p.Payloads) > p.KeepPayloads {
				p.Payloads = p.Payloads[len(p.Payloads)-p.KeepPayloads:]
			}
		}
		if fire != nil {
			fire.Fired = true
			p.mu.Unlock()
			_, _ = to.Write(raw[:len(raw)/2])
			pc.kill()
			return
		}
		p.mu.Unlock()
		if _, err := to.Write(raw); err != nil {
			pc.kill()
			return
		}
		p.mu.Lock()
		pc.count[dir]++
		n = pc.count[dir]
		fire = nil
		for _, f := range p.faults {
			if !f.Fired && f.Dir == dir && f.AfterMsg == n && (f.ConnIndex < 0 || f.ConnIndex == pc.idx) && !f.Inside {
				fire = f
				break
			}
		}
		if fire != nil {
			fire.Fired = true
			if fire.BlackHole {
				pc.blackhol = true
				p.Log = append(p.Log, fmt.Sprintf("conn%d black hole after %s %d", pc.idx, dir, n))
				p.mu.Unlock()
				continue
			}
			p.Log = append(p.Log, fmt.Sprintf("conn%d cut after %s %d", pc.idx, dir, n))
			p.mu.Unlock()
			pc.kill()
			return
		}
		p.mu.Unlock()
	}
}
