#!/bin/bash
# tools/sweep.sh <tier> [seed] [checks...] : runs checks one after another, prints the verdict lines
TIER="${1:-quick}"; SEED="${2:-1}"; shift 2 2>/dev/null
CHECKS="${*:-C01 C02 C03 C04 C05 C06 C07 C08 C09 C10 C11 C12 C13 C14 C15 C16 C17 C18 C19 C20}"
cd "$(dirname "$0")/.."
for c in $CHECKS; do
  s=$(date +%s)
  VERIF_SEED=$SEED ./verif check $c $TIER 2>&1 | grep -E "^(HELD|VIOLATED|INCONCLUSIVE|BROKEN|VIOLATION|KNOWN-FINDING)|signature:" | cut -c1-400
  echo "   [$c $TIER seed=$SEED took $(( $(date +%s) - s )) s]"
done
