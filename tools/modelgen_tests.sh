#!/bin/bash
# The modelgen test package does not build in this sandbox (it imports the
# git-ignored generated package example/vswitchd, which needs a downloaded
# schema), so it is not part of the pinned suite. This runs it anyway on a
# scratch worktree of /repo (HEAD + uncommitted changes) with the
# vswitchd-dependent tail of table_test.go cut off.
set -u
export GOFLAGS=-mod=mod GOPROXY=off GOSUMDB=off GOTOOLCHAIN=local
WT=/tmp/mg-test-$$
git -C /repo worktree add -q --detach "$WT" HEAD || exit 2
git -C /repo diff > "$WT.patch"
[ -s "$WT.patch" ] && git -C "$WT" apply "$WT.patch"
python3 - "$WT/modelgen/table_test.go" <<'PY'
import sys
p=sys.argv[1]
lines=open(p).read().split('\n')
cut=next(i for i,l in enumerate(lines) if l.startswith('func TestExtendedGenCloneableModel'))
lines=lines[:cut]
out=[l for i,l in enumerate(lines) if not (i<20 and ('example/vswitchd' in l or l.strip() in ('"reflect"','"github.com/ovn-org/libovsdb/model"') or 'google/uuid' in l))]
open(p,'w').write('\n'.join(out)+'\n')
PY
(cd "$WT" && go test -vet=off -count=1 ./modelgen/ ./cmd/modelgen/ 2>&1 | tail -4)
git -C /repo worktree remove --force "$WT"; rm -f "$WT.patch"
