#!/usr/bin/env python3
"""Stores a verified seeded break under /verif/seeded/<name>/ (patch.diff, demo, meta.json)."""
import json, os, shutil, sys, subprocess
name, src, prop, pkg, run, caught = sys.argv[1:7]
dst = os.path.join('/verif/seeded', name)
os.makedirs(dst, exist_ok=True)
shutil.copy(os.path.join(src, 'patch.diff'), os.path.join(dst, 'patch.diff'))
shutil.copy(os.path.join(src, 'demo_test.go'), os.path.join(dst, 'demo_test.go'))
meta = {}
try:
    meta = json.load(open(os.path.join(src, 'meta.json')))
except Exception:
    pass
head = subprocess.run(['git', '-C', '/repo', 'log', '--format=%h', '-1'], capture_output=True, text=True).stdout.strip()
out = {
    "property": prop,
    "summary": meta.get("summary", ""),
    "needs_to_manifest": meta.get("needs_to_manifest", ""),
    "files": meta.get("files", []),
    "origin": "independent sub-agent given only the property text and a scratch worktree",
    "verified_against_repo_commit": head,
    "what_i_ran": [
        "tools/verify_seed.sh %s %s '%s'  (patch applies to /repo HEAD in a scratch worktree, library builds, pinned suite with guard off: stable_not_passing=0, demo fails with the patch and passes without it)" % (dst, pkg, run),
        "git -C /repo apply %s/patch.diff && ./verif check %s quick ; git -C /repo checkout -- ." % (dst, prop),
    ],
    "demo": {"package_dir": pkg, "run": run},
    "detected_by": caught,
}
json.dump(out, open(os.path.join(dst, 'meta.json'), 'w'), indent=1)
print("stored", dst)
