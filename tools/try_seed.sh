#!/bin/bash
# tools/try_seed.sh <seedout-dir> <pkg-dir> <run-regex> <check> [<check>...]
# verifies the seeded break in a scratch worktree, then applies it to /repo, runs the checks, and undoes it.
SEED="$1"; PKG="$2"; RUN="$3"; shift 3
cd /verif
grep -l "^diff --git" "$SEED/patch.diff" >/dev/null || { echo "no patch"; exit 2; }
grep "^diff --git" "$SEED/patch.diff"
tools/verify_seed.sh "$SEED" "$PKG" "$RUN" 2>&1 | tail -4 | grep -E "RESULT|DEMO|PATCH|BUILD|SUITE" 
git -C /repo apply "$SEED/patch.diff" || exit 2
for c in "$@"; do ./verif check $c quick 2>&1 | grep -E "^HELD|^VIOLATED|^INCONCL|BROKEN" | head -3; done
git -C /repo checkout -- .
git -C /repo status --short | head -3
