#!/usr/bin/env python3
"""Generates /verif/MANIFEST.json from the table below (kept here so the manifest stays valid and consistent)."""
import json, subprocess, os
ROOT = os.path.dirname(os.path.dirname(os.path.abspath(__file__)))

CHECKS = {
 "C12": dict(cat="exploration", engine="codec",
   technique="runtime round-trip monitor: decode(encode(v)) == v over structurally generated wire values; schema accessor surface vs. reference text",
   text="Every exported wire type is driven with structurally generated values (all ten operation kinds with optional members present/absent, 8 condition functions, 7 mutators, sets/maps/uuids/named-uuids, rows, both update formats, monitor requests/selects/replies, results and the 11 typed errors, schemas with every base-type constraint); the oracle is semantic equality after a JSON round trip, for schemas the accessor surface against the generating description. Held = held on the generated values only.",
   note="Trusts encoding/json and the harness's canonicalisation (numbers by value, one-element set == atom, nil == empty).", ref="4/C12"),
}

NOT_YET = "check not built yet (work in progress in this round); no claim is made"

def main():
    props = [json.loads(l)["id"] for l in open(os.path.join(ROOT, "properties.jsonl"))]
    hooks = subprocess.run(["git", "-C", "/repo", "log", "--format=%H %s"], capture_output=True, text=True).stdout.splitlines()
    hook_commits = [l.split()[0] for l in hooks if " verif hooks:" in l]
    checks = []
    for pid in props:
        if pid not in CHECKS:
            continue
        c = CHECKS[pid]
        checks.append({
            "property_id": pid,
            "quick_cmd": f"./verif check {pid} quick",
            "thorough_cmd": f"./verif check {pid} thorough",
            "evidence_file": f"/verif/evidence/{pid}.json",
            "replay_cmd_template": "./verif replay {path}",
            "engine": c["engine"],
            "level_claimed": {"category": c["cat"], "text": c["text"], "design_ref": "DESIGN.md section " + c["ref"]},
            "level_note": c["note"],
            "technique": c["technique"],
        })
    man = {
        "version": 1,
        "setup_cmd": "./verif setup",
        "hooks": {
            "guard": "verif",
            "enable": "go build -tags verif (harness module /verif/harness with replace github.com/ovn-org/libovsdb => /repo); race engines add -race",
            "baseline_off_cmd": "/verif/tools/baseline_off.sh",
            "source_commits": hook_commits,
            "add_only": True,
        },
        "engines": [
            {"name": "codec", "path": "harness/checks", "serves_properties": ["C09", "C10", "C11", "C12", "C19"], "kind_free_text": "in-process generators + round-trip / law oracles, child process per batch"},
            {"name": "txn", "path": "harness/checks", "serves_properties": ["C02", "C03", "C04", "C06", "C15"], "kind_free_text": "in-memory database driven in lock-step with an executable RFC 7047 reference model"},
            {"name": "cache", "path": "harness/checks", "serves_properties": ["C05", "C08", "C13", "C14"], "kind_free_text": "cache.TableCache driven directly; invariants recomputed from scratch"},
            {"name": "wire", "path": "harness/checks", "serves_properties": ["C01", "C07", "C16", "C17", "C18"], "kind_free_text": "real server + real client + raw JSON-RPC peers + fault proxy in one -race process per batch"},
            {"name": "gen", "path": "harness/checks", "serves_properties": ["C20"], "kind_free_text": "modelgen output compiled and exercised at check time"},
        ],
        "checks": checks,
        "not_applicable": [{"property_id": p, "reason": NOT_YET} for p in props if p not in CHECKS],
        "notes": "Runtime monitoring only. Driver: ./verif check <id> <quick|thorough>; exit 0 held / 1 violation / 2 broken or inconclusive. Known findings: /verif/known_findings.json.",
    }
    json.dump(man, open(os.path.join(ROOT, "MANIFEST.json"), "w"), indent=1)
    print("checks:", [c["property_id"] for c in checks])

main()
