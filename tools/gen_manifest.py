#!/usr/bin/env python3
"""Generates /verif/MANIFEST.json from the table below (kept here so the manifest stays valid and consistent)."""
import json, subprocess, os
ROOT = os.path.dirname(os.path.dirname(os.path.abspath(__file__)))

CHECKS = {
 "C12": dict(cat="exploration", engine="codec",
   technique="runtime round-trip monitor: decode(encode(v)) == v over structurally generated wire values; schema accessor surface vs. reference text",
   text="Every exported wire type is driven with structurally generated values (all ten operation kinds with optional members present/absent, 8 condition functions, 7 mutators, sets/maps/uuids/named-uuids, rows, both update formats, monitor requests/selects/replies, results and the 11 typed errors, schemas with every base-type constraint); the oracle is semantic equality after a JSON round trip, for schemas the accessor surface against the generating description. Held = held on the generated values only.",
   note="Trusts encoding/json and the harness's canonicalisation (numbers by value, one-element set == atom, nil == empty).", ref="4/C12"),
}

CHECKS["C03"] = dict(cat="exploration", engine="txn",
   technique="differential runtime monitor: in-memory database vs. executable RFC 7047 reference model in lock-step over generated schemas and histories",
   text="Generated schemas (all column kinds) and long generated histories are executed by the real transaction engine and by an independent reference model from the same pre-state; per-operation results and the post-state are compared after every accepted transaction, immutable columns are compared before/after; every third schema also gets zero-timeout wait operations (until == / !=, given rows equal to, missing one of, or exceeding the selected rows), whose outcome is judged in both directions. Held = no disagreement on the transactions generated; rejected-but-RFC-accepts cases are counted, not judged.",
   note="Correctness is relative to the harness's reference model of RFC 7047 5.1/5.2; constraint enforcement is out of domain.", ref="4/C03")

CHECKS["C04"] = dict(cat="exploration", engine="txn",
   technique="invariant monitor recomputed from scratch after every commit + reference-model accept/reject + twin database (history independence) + reference-index vs rows comparison",
   text="Reference-rich generated schemas (root/non-root, strong/weak, scalar/optional/set/map-key/map-value, self references, cycles, chains) and long histories on one database object; after every commit the stored rows are re-read and checked from scratch (no dangling strong/weak reference, no unreferenced non-root row, no weak column below minimum), accept/reject and post-state are compared with the literal rules, every 5th transaction is also answered by a fresh twin holding the same rows, and GetReferences is compared with referrers recomputed from the rows (mismatches confirmed by probe transactions on a twin). Held = no violation on the histories generated.",
   note="Garbage collection by the literal rule (any existing strong referrer keeps a row, including itself); strong references are checked before garbage collection like ovsdb-server; rejections stricter than the rules are counted, not judged; a transaction not returning within 30 s on <= 20 rows is reported as non-terminating.", ref="4/C04")

CHECKS["C02"] = dict(cat="exploration", engine="txn",
   technique="fault-injected transactions (poisoned operation at a chosen index) + before/after snapshot of rows and reference index + twin database that never saw the failed transactions + reply-shape monitor",
   text="Failing transactions are manufactured: a valid generated transaction receives a poisoned operation (17 causes: unknown table/column/op, ill-typed value or condition, immutable column, dangling strong reference, deletion of a referenced row, emptied min-1 weak set, duplicate index value, re-used row uuid, duplicate uuid-name, failing wait, division/modulo by zero) at a PRNG-chosen position after successful operations. After every reply carrying an error the rows of every table and GetReferences of every row must be unchanged, the reply must have the RFC shape, and a twin database receiving only the successful transactions must answer every later transaction identically and hold the same rows. Held = on the transactions generated.",
   note="In-process engine (the server's Transact path: JSON round-tripped operations, Transact, Commit iff no error). 'No monitor is notified' is observed on the wire by the C07 engine's raw peers.", ref="4/C02")
CHECKS["C06"] = dict(cat="exploration", engine="txn",
   technique="invariant monitor (scan for duplicate index tuples after every commit) + reference-model accept/reject on final state + directed hand-over workloads",
   text="Schemas with one or two single-/multi-column indexes per table, histories concentrated on 3-4 index values with swaps, rotations, hand-overs, delete+insert and 'everybody to one value then away' patterns; after every commit the stored rows are scanned for duplicate index tuples, a transaction whose final state (after GC and weak pruning) has a duplicate must be rejected, one whose final state is duplicate-free must not be rejected with an index violation. Held = on the transactions generated; one known finding (transient sharing of an index value inside a transaction) is reported as KNOWN-FINDING.",
   note="Schema indexes range over scalar columns. Final-state duplicates are decided by the reference model.", ref="4/C06")

CHECKS["C10"] = dict(cat="exploration", engine="codec",
   technique="law-checking runtime monitor: small scope enumerated completely + random larger values, through the public update API and the verif-exported difference primitives",
   text="For every column kind and every pair (a,b): the difference computed for an update a->b is empty iff a=b, applying it (after a JSON round trip) to a yields b, neither step alters the source model, arbitrary peer differences are applied by the update2 rules, and merge(o,d1,d2) composes. All ordered lists of all subsets of a 4-element universe per set type (4225 pairs each), all 27x27 map pairs for four map types, optionals/atoms over three values are enumerated completely; random sets/maps up to 40 elements are added. Held = on the enumerated and sampled pairs; the input space itself is unbounded.",
   note="Sets compared as sets; nil and empty collections both exercised.", ref="4/C10")
CHECKS["C11"] = dict(cat="exploration", engine="codec",
   technique="reference-model monitor over accumulated updates: sequences replayed by the reference model, accumulated ModelUpdates judged by first-old/last-new, modify-applied-to-first-old, net-zero and insert/delete absorption rules",
   text="Sequences of insert/update/mutate/delete on one row are accumulated exactly as a transaction does (AddOperation per operation, Merge, next operation sees the previous result). All triples (original, first change, second change) over 3-element universes for sets, 27^3 map triples, optionals and atoms are enumerated; random chains of length 2-6 restore columns and overlap on elements (including two mutations of one column in one operation, nil vs empty collections). Held = on the enumerated and sampled sequences.",
   note="The reference execution of the same sequence (RFC 7047 semantics) provides first old / last new.", ref="4/C11")
CHECKS["C15"] = dict(cat="exploration", engine="txn",
   technique="differential runtime monitor: ovsdb.ExpandNamedUUIDs and the stored rows after Transact vs. reference name resolution, position by position",
   text="Transactions with 1-4 named inserts; names in scalar/optional/set/map-key/map-value/map-key+value uuid positions of row values, conditions (incl. _uuid) and mutation arguments, before and after the defining insert, with explicit or server-assigned uuids; strings equal to names in string columns; conflicting claims of a name. The expansion is compared position by position and the stored rows are compared with the reference resolution (using the uuids the inserts reported); no named uuid may survive. Held = on the transactions generated.",
   note="Reference columns are plain uuid or weak so that integrity rules do not mask the transactions of interest; a uuid identifies a row of one table.", ref="4/C15")

CHECKS["C16"] = dict(cat="fault_enumeration", engine="wire",
   technique="fault-injecting JSON-RPC proxy cutting the connection at every message boundary of a recorded fault-free session (both directions, between and inside messages) + cache-vs-database comparison after a barrier + exactly-once marker audit; race detector on",
   text="A library client with reconnect (back-off 10 ms) talks to a library server through a proxy that frames JSON messages; a second writer is connected directly. For each session shape (1-3 monitors, every monitor method, client transactions, writer transactions before/during/after the outage) a fault-free run gives the message count per direction; then the session is re-run once per boundary and direction with a cut after message k and a cut inside message k, plus double cuts, refused connection attempts, black holes that only the inactivity probe can detect, and 'cut + window' sessions in which the direct writer commits a transaction at every client.monitor.reply pause point (monitor reply received, not yet applied), also during the monitor restarts of a reconnect. After the faults the client must be connected again (bounded progress, no wall-clock verdict: a session that does not recover is reported with the proxy log), then a barrier transaction by the direct writer is awaited and the cache must equal the database on every monitored table and column of every monitor; each client Transact writes a unique marker: results => stored exactly once, error => at most once. Race reports with a libovsdb frame are violations.",
   note="Last transaction id known to the server: the built-in server always answers found=false, so these sessions run the client against a history-keeping OVSDB server written for the harness (update3 notifications with ids; monitor_cond_since answered found=true with the changes since a known id, found=false after it was told to forget): 1-3 monitors mixing monitor_cond_since and monitor_cond, 1-2 outages with changes and deletes while away (counters history.*). Leader-only mode: two servers with a _Server database and different contents stand for two cluster members; the leader flag is moved between them in seven scenarios (flip in both orders, a period without leader, cut before/after the flip, there and back, new leader refusing connections) x endpoint order x 1-2 monitors; afterwards the client must be attached to the member reporting leader=true and mirror ITS database (counter sessions.leader).", ref="4/C16")

CHECKS["C17"] = dict(cat="exploration", engine="wire",
   technique="offline checkers over histories recorded at the client boundary: serial replay in the order the monitors were notified (reference model), real-time order, porcupine v1.3.0 linearizability per key, monitor replay = database, conservation; server pause point between notify and commit; race detector on",
   text="One library server, 4-16 concurrent clients (raw JSON-RPC peers and library clients) issuing increment+read, compare-and-set, claim/release of a unique slot, adopt/move/drop of strongly referenced non-root children (garbage collection under contention) and multi-row reads on a handful of keys; 2-4 monitors registered before and 2-3 during the load, some pinned into a 25 ms hold between a transaction's notification and its commit; random delays at that point. Every writing transaction inserts a uniquely named Log row, so a monitor's notifications give the order the server executed them in. Checked per history: all early monitors saw one order; every acknowledged writer occurs in it exactly once and no failed one; replaying the transactions in that order through the reference model reproduces every reply and the final database; the order respects real time; all per-key sub-histories including read-only and failed transactions are linearizable (porcupine, time-out => inconclusive); every monitor's initial reply + notifications add up to the final database; library clients' caches equal it; final integrity; increments conserved. Held = on the histories recorded; schedules are sampled, not enumerated.",
   note="Interleavings are whatever the Go scheduler, 16 cores, the race detector's slowdown and the injected delays produce; the evidence counts overlapping call pairs and distinct notified orders.", ref="4/C17")

CHECKS["C18"] = dict(cat="exploration", engine="wire",
   technique="Go race detector over a shared-client stress workload + version-uniformity monitor on every read path and event + completion monitor (calls pending long after all load stopped, goroutine stacks as witness) + error-path enumeration followed by a probe sequence; fault proxy and verif pause points widen the interleavings",
   text="(A) 8-24 goroutines share one client and issue Get (uuid/index), List, Where/WhereAll/WhereCache List, cache Rows/Row/RowByModel/RowsByCondition/Index, Transact, Create+Transact, Monitor (one table each), Monitor of an unknown table, MonitorCancel, Echo, Disconnect, Connect, Connected/Schema/CurrentEndpoint, UpdateEndpoints, SetOption in PRNG order with per-call context deadlines, while a direct writer rewrites rows version by version (a, b, c, d always of one version), the proxy cuts the connection 2-5 times and pause points delay monitor set-up and update handling. Oracles: no race report with a libovsdb frame; every model returned by any read path or handed to an event handler is version-uniform; every call returns (still pending 60 s after all load stopped = blocked for ever); afterwards the cache converges to the database and Close returns. (B) 48 error paths (Monitor: unknown table, no tables, foreign field, unsupported method, not connected, cancelled context, silent server, same monitor twice, cut during set-up; Transact: unknown column/table, not connected, context expiry, constraint violation, no operations, cut in flight; Get/List/Where/Create misuse and not connected; MonitorCancel refused/unknown/not connected; Echo refused/silent/not connected; Connect: no endpoint, schema mismatch, cancelled, refused, cut during handshake, already connected; Disconnect/Close/SetOption variants) each followed by Echo, Get, List, Transact, Monitor, Disconnect, Connect, Echo, MonitorAll, Transact, Close: each must return within 45 s with nothing else running. Held = on the schedules the runs produced.",
   note="Schedules are sampled; the evidence lists call/outcome counts, connection cuts, pause-point delays. The leader-change watcher is not exercised (needs a _Server database).", ref="4/C18")

CHECKS["C20"] = dict(cat="exploration", engine="gen",
   technique="generate-compile-run monitor: the generator of the tree is run (library API and cmd/modelgen binary, twice each), the output is built in a scratch module and a driver program compiled with it validates every generated model and checks the copy/equality laws against reflect.DeepEqual, model.Clone and model.Equal",
   text="Generated schemas over the whole type space (scalars, optionals, sets, bounded sets, maps incl. real/boolean keys, references, enum columns of strings, integers and reals as scalar/optional/set, names with underscores, initialisms, mixed case, doubled/trailing underscores) x {extended on/off} x {enum types on/off}. Per configuration: generation must succeed and be byte-identical across two in-process runs and two runs of the binary (and between both); all packages of a batch are built with a driver; NewDatabaseModel(Schema(), FullDatabaseModel()) must report no error; every field's underlying type must equal the native type computed independently from the schema; for extended models, over 40 generated values per table: DeepCopy is DeepEqual, Equals, model.Equal to its source, model.Clone agrees, scribbling over every slice element, spare capacity, map entry and pointer target of a copy leaves the source intact, and for every field and every perturbation (nil vs empty, one element/value changed, reordered, one more zero element, same-size maps with another key holding the zero value) Equals (both directions) and model.Equal agree with reflect.DeepEqual. A generator error, compile error, validation error or law failure is a violation carrying the schema.",
   note="Name collisions after mangling (two columns with one Go field name, a column called uuid) are outside the generated space. Needs the go tool at check time; the scratch module lives under the run's temporary directory.", ref="4/C20")

CHECKS["C09"] = dict(cat="exploration", engine="codec",
   technique="round-trip identity monitor + independent RFC 7047 encoder + wrong-type probes",
   text="Generated schemas over the whole type space (incl. real/boolean map keys, bounded sets, enums, references, scalar uuids) and generated rows (empty/singleton/multi collections, nil/non-nil optionals, zero values, integers at 0, +-1, +-2^31, +-2^53(+1), +-2^62, min/max int64): model -> NewRow -> JSON -> Row.UnmarshalJSON -> GetRowData/CreateModel must give back every field (sets as sets); each column's wire form is compared with an independent RFC encoder; absent columns must leave pre-filled fields untouched; values of the wrong Go type (22 candidates per column) and ill-typed wire values must be rejected by NativeToOvs / SetField / OvsToNative. One known finding (integers beyond 2^53).",
   note="Non-finite reals excluded; '' and the all-zero uuid are one value.", ref="4/C09")
CHECKS["C19"] = dict(cat="exploration", engine="codec",
   technique="crash oracle (recover / process death / echo after request) over structurally corrupted inputs; server in its own process; thorough adds native coverage-guided fuzzing",
   text="(a) every exported wire type decodes structurally corrupted valid encodings (drop/duplicate/retype members, [], [tag], [tag,non-array], unhashable keys, wrong arity, out-of-domain numbers) under recover; (b) corrupted operation lists (missing members, swapped types, unknown tables/columns, zero divisors, member-less commit/comment/assert, empty list) are executed by the in-memory database under recover and followed by a plain select; (c) the same requests go as raw JSON-RPC to a library server running in its own process, each followed by an echo: process death, a dropped connection or a request never answered is the violation, the server is restarted and the run continues; thorough: go test -fuzz on all decoders for a fixed execution count. Known finding: wait without timeout blocks the server.",
   note="Inputs are valid JSON. A request not answered within 20 s (normal < 1 ms) counts as never answered.", ref="4/C19")

CHECKS["C05"] = dict(cat="exploration", engine="cache",
   technique="structural invariant recomputed from scratch at the end of every batch (index partition = scan partition; lookups = scan under the documented precedence), three drivers, every application order of small batches",
   text="Index configurations (single/multi-column schema indexes; client indexes on plain, optional, map-key, multi-column and schema-overlapping column sets) x legal state sequences with hand-over batches (swap, rotation, A takes B's value while B takes a fresh one, delete + re-insert under another uuid). Each batch is applied (1) through direct Create/Update/Delete in every permutation of its rows (<= 4 rows, else sampled), (2) through ApplyCacheUpdate with a multi-row ModelUpdates repeated to vary the library's map order, (3) through Populate2 on one long-lived cache; afterwards Index(...) partitions, RowsByModels, RowByModel, client Get and Where(model).List are compared with a scan of Rows() for probes built from present and absent values, with and without uuid. Held = on the batches generated.",
   note="Client API over a bare cache through the verif-tagged constructor. Map-key indexes treat an absent key as the zero value (mirrors the cache).", ref="4/C05")
CHECKS["C08"] = dict(cat="exploration", engine="cache",
   technique="reference-model + differential monitor: brute-force RFC 7047 evaluation vs RowsByCondition under 4-6 index configurations over the same data; conditional API vs conjunction/disjunction; generated operations executed on a database holding the same rows",
   text="Generated single-table contents (0-12 rows with heavy value sharing) and lists of 1-4 well-typed conditions over all column kinds (empty sets/maps, absent optionals, repeated columns, _uuid conditions, unsatisfiable lists) are evaluated by RowsByCondition under none/schema/multi-column/client/map-key/overlapping index configurations and by the reference; any error on a well-typed condition, any disagreement with the reference or between configurations is a violation. WhereAll/WhereAny List() are compared with conjunction/disjunction, and the Delete() operations they generate are executed on an in-memory database holding the same rows: the rows removed must be the rows listed. Held = on the cases generated.",
   note="Select through a transaction is covered by C03; Where(model) precedence by C05.", ref="4/C08")

CHECKS["C13"] = dict(cat="exploration", engine="cache",
   technique="read-mutate-re-read differential monitor over every cache read and write path + Clone/Equal law checking (pointer identity, mutate-and-compare, one-field perturbations)",
   text="For 15 read paths (Row, Rows, RowByModel by uuid and by index, RowsByModels, RowsByCondition with and without index, client Get, List, Where(model).List, WhereAll.List, WhereCache.List) and for the models given to event handlers, every reachable scalar, slice element, spare slice capacity, map entry and pointer target of the returned models is mutated and the canonical dump of the cache must not change; symmetrically for models handed to Create/Update/Populate2. RowsShallow serves as self-check of the detector. Clone/CloneInto/Equal laws are checked on run-time structs over the whole type space (JSON path), a hand-written struct and the generated serverdb.Database. Known finding: maps keyed by real/boolean cannot be cloned.",
   note="Lookups without uuid are resolved through an index so that the index-resolved read path is exercised.", ref="4/C13")
CHECKS["C14"] = dict(cat="exploration", engine="cache",
   technique="offline checker over recorded event logs (replay = cache, per-row alternation, old = previous state, handlers agree, no event for a failed apply) + Go race detector on the dispatcher/applier pair",
   text="2-3 handlers record every event while TableCache.Run dispatches from its own goroutine in a race-instrumented child; notification histories (update2 via Populate2, RFC update via Populate, multi-row and hand-over batches) include injected notifications that must fail to apply (insert of a cached uuid, modify/delete of unknown rows). Quiescence is reached through a sentinel row event; then the log of each handler is replayed onto empty tables and compared with Rows(), per-row legality and old-equals-previous-state are checked, and all handlers must hold identical logs. Race reports with a libovsdb frame are violations.",
   note="Outstanding events stay below the 65536-entry buffer (counted). Random handler delays vary the interleaving; schedules are sampled.", ref="4/C14")

CHECKS["C07"] = dict(cat="exploration", engine="wire",
   technique="reference-model monitor over raw JSON-RPC messages recorded by raw peers (per-transaction attribution through the server's synchronous notification), race detector on",
   text="A real server in a race-instrumented child; 2-3 raw connections register up to 6 random monitor requests (any subset of tables/columns or columns omitted, all select flag combinations incl. omitted select, methods monitor/monitor_cond/monitor_cond_since); a writer connection commits generated transactions (GC, weak pruning, several rows, failing transactions). Per (transaction, monitor): at most one message, exactly one when a selected kind of change exists, none for no net effect or for a failed transaction, right method and id, every changed row has an entry, no entry for unchanged rows/deselected kinds/unrequested tables or columns unless vacuous, and applying the entry to the pre-row yields the post-row on the monitored projection (v1: new overlaid on old; v2: update2 difference rules). Held = on the pairs observed.",
   note="Monitor conditions are not used (ignored by the built-in server). Snapshots of the server database are taken in-process.", ref="4/C07")

CHECKS["C01"] = dict(cat="exploration", engine="wire",
   technique="differential runtime monitor (client cache vs server database after every committed transaction, deterministic quiescence) with a verif-tagged pause point pinning both processing orders; race detector on",
   text="A library client and the library server in one race-instrumented child; a raw writer commits a generated history (all column kinds, GC, weak pruning, several rows per transaction). The client sets up up to three monitors at PRNG-chosen points with each of monitor / monitor_cond / monitor_cond_since on subsets of tables and columns; with the client.monitor.reply pause point a transaction touching the new monitor's tables is committed after the monitor reply was received and before its contents are applied (both orders are taken and counted, for first and additional monitors). After every committed transaction, and after every monitor set-up, the whole cache is compared with the whole database on the monitored tables and columns; a quarter of the transactions are issued by the monitoring client itself and its cache is read the moment Transact returns. Held = on the comparisons made.",
   note="Quiescence by construction (synchronous notification before the transact reply). Database snapshots are taken in-process.", ref="4/C01")

NOT_YET = "check not built yet (work in progress in this round); no claim is made"

def main():
    props = [json.loads(l)["id"] for l in open(os.path.join(ROOT, "properties.jsonl"))]
    hooks = subprocess.run(["git", "-C", "/repo", "log", "--format=%H %s"], capture_output=True, text=True).stdout.splitlines()
    hook_commits = [l.split()[0] for l in hooks if " verif hooks:" in l]
    checks = []
    for pid in props:
        if pid not in CHECKS:
            continue
        c = CHECKS[pid]
        checks.append({
            "property_id": pid,
            "quick_cmd": f"./verif check {pid} quick",
            "thorough_cmd": f"./verif check {pid} thorough",
            "evidence_file": f"/verif/evidence/{pid}.json",
            "replay_cmd_template": "./verif replay {path}",
            "engine": c["engine"],
            "level_claimed": {"category": c["cat"], "text": c["text"], "design_ref": "DESIGN.md section " + c["ref"]},
            "level_note": c["note"],
            "technique": c["technique"],
        })
    man = {
        "version": 1,
        "setup_cmd": "./verif setup",
        "hooks": {
            "guard": "verif",
            "enable": "go build -tags verif (harness module /verif/harness with replace github.com/ovn-org/libovsdb => /repo); race engines add -race",
            "baseline_off_cmd": "/verif/tools/baseline_off.sh",
            "source_commits": hook_commits,
            "add_only": True,
        },
        "engines": [
            {"name": "codec", "path": "harness/checks", "serves_properties": ["C09", "C10", "C11", "C12", "C19"], "kind_free_text": "in-process generators + round-trip / law oracles, child process per batch"},
            {"name": "txn", "path": "harness/checks", "serves_properties": ["C02", "C03", "C04", "C06", "C15"], "kind_free_text": "in-memory database driven in lock-step with an executable RFC 7047 reference model"},
            {"name": "cache", "path": "harness/checks", "serves_properties": ["C05", "C08", "C13", "C14"], "kind_free_text": "cache.TableCache driven directly; invariants recomputed from scratch"},
            {"name": "wire", "path": "harness/checks", "serves_properties": ["C01", "C07", "C16", "C17", "C18"], "kind_free_text": "real server + real client + raw JSON-RPC peers + fault proxy in one -race process per batch"},
            {"name": "gen", "path": "harness/checks", "serves_properties": ["C20"], "kind_free_text": "modelgen output compiled and exercised at check time"},
        ],
        "checks": checks,
        "not_applicable": [{"property_id": p, "reason": NOT_YET} for p in props if p not in CHECKS],
        "notes": "Runtime monitoring only. Driver: ./verif check <id> <quick|thorough>; exit 0 held / 1 violation / 2 broken or inconclusive. Known findings: /verif/known_findings.json.",
    }
    json.dump(man, open(os.path.join(ROOT, "MANIFEST.json"), "w"), indent=1)
    print("checks:", [c["property_id"] for c in checks])

main()
