#!/bin/bash
# Sensitivity self-test: every seeded break under /verif/seeded must make the quick check
# of its property report a violation. Each patch is applied to a scratch worktree of
# /repo HEAD (never to /repo); evidence files are not touched (VERIF_NO_EVIDENCE).
#   tools/selftest.sh [seed-name-prefix]
set -u
cd "$(dirname "$0")/.."
WT=/tmp/selftest-repo-$$
git -C /repo worktree add -q --detach "$WT" HEAD || exit 2
trap 'git -C /repo worktree remove --force "$WT" >/dev/null 2>&1' EXIT
ok=0; bad=0
for d in seeded/${1:-}*/; do
  name=$(basename "$d"); prop=$(jq -r '.selftest_check // .property' "$d/meta.json")
  if jq -r .detected_by "$d/meta.json" | grep -q "^NOT CAUGHT"; then
    echo "OUTSIDE $name: kept for the record, outside the domain of the checks (see its meta.json)"; continue
  fi
  if ! git -C "$WT" apply "$PWD/$d/patch.diff" 2>/dev/null; then
    echo "STALE  $name: patch no longer applies to /repo HEAD"; bad=$((bad+1)); continue
  fi
  out=$(VERIF_REPO="$WT" VERIF_NO_EVIDENCE=1 ./verif check "$prop" quick 2>&1); rc=$?
  git -C "$WT" checkout -q -- .
  n=$(echo "$out" | grep -c "^VIOLATION")
  if [ $rc -eq 1 ] && [ "$n" -gt 0 ]; then
    echo "CAUGHT $name by $prop ($n violation lines)"; ok=$((ok+1))
  else
    echo "MISSED $name by $prop (exit $rc): $(echo "$out" | grep -E '^(HELD|VIOLATED|INCONCLUSIVE|BROKEN)' | head -1)"; bad=$((bad+1))
  fi
done
find replays -type f -newer "$0" -name '*.json' -mmin -600 >/dev/null 2>&1
echo "selftest: $ok caught, $bad missed or stale"
[ $bad -eq 0 ]
