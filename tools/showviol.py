#!/usr/bin/env python3
"""Compact view of replay files / child result files: signature, what, ops, pre-state."""
import json,sys
for path in sys.argv[1:]:
    d=json.load(open(path))
    vs=d['violations'] if 'violations' in d and isinstance(d['violations'],list) else [d]
    for v in vs:
        print('=== ',v.get('signature'), ' x',v.get('count'))
        print('   ',v.get('what'))
        w=v.get('witness') or {}
        for k in ('ops','pre_state','original_ops','before','after','value','differences','last_logged_case'):
            if k in w:
                print('   %s: %s'%(k,json.dumps(w[k])[:1500]))
