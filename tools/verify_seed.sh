#!/bin/bash
# Verifies a seeded break in a scratch worktree of /repo HEAD:
#   tools/verify_seed.sh <seed-dir> <package-dir-of-demo> <go-test-run-regex>
# checks: patch applies, library builds, pinned suite (guard off) still passes,
# demo fails with the patch and passes without it. Removes the worktree.
set -u
export GOFLAGS=-mod=mod GOPROXY=off GOSUMDB=off GOTOOLCHAIN=local
SEED="$1"; PKG="$2"; RUN="$3"
# VERIF_DEMO_RACE=1: run the demonstration under the race detector (for seeded data races)
RACE=""; [ -n "${VERIF_DEMO_RACE:-}" ] && RACE="-race"
WT=/tmp/vseed-$$
git -C /repo worktree add -q --detach "$WT" HEAD || exit 2
# generated example code is git-ignored but needed by the suite
[ -d /repo/example/vswitchd ] && cp -r /repo/example/vswitchd "$WT/example/" 2>/dev/null
res=ok
if ! git -C "$WT" apply "$SEED/patch.diff"; then echo "PATCH DOES NOT APPLY"; res=bad; fi
if [ $res = ok ]; then
  (cd "$WT" && go build ./cache/... ./client/... ./database/... ./mapper/... ./model/... ./modelgen/... ./ovsdb/... ./server/... ./updates/... ./cmd/modelgen/...) || { echo "BUILD FAILS"; res=bad; }
fi
if [ $res = ok ]; then
  VERIF_REPO="$WT" /verif/tools/baseline_off.sh | tail -3 || { echo "SUITE FAILS WITH PATCH"; res=bad; }
fi
if [ $res = ok ]; then
  cp "$SEED"/demo_test.go "$WT/$PKG/seeded_demo_test.go"
  if (cd "$WT" && go test $RACE -vet=off -count=1 -run "$RUN" "./$PKG/" >/tmp/vseed-$$.with 2>&1); then echo "DEMO PASSES WITH PATCH (should fail)"; res=bad; else echo "demo fails with patch: ok"; fi
  git -C "$WT" apply -R "$SEED/patch.diff"
  if (cd "$WT" && go test $RACE -vet=off -count=1 -run "$RUN" "./$PKG/" >/tmp/vseed-$$.without 2>&1); then echo "demo passes without patch: ok"; else echo "DEMO FAILS WITHOUT PATCH"; tail -5 /tmp/vseed-$$.without; res=bad; fi
fi
git -C /repo worktree remove --force "$WT"
rm -f /tmp/vseed-$$.with /tmp/vseed-$$.without
echo "RESULT: $res"
[ $res = ok ]
