#!/bin/bash
# Runs the repository's pinned suite with the verif guard OFF and compares with
# /root/.vp/BASELINE.json stable_pass: exits 0 iff every stable test passes.
export GOFLAGS=-mod=mod GOPROXY=off GOSUMDB=off GOTOOLCHAIN=local
REPO="${VERIF_REPO:-/repo}"
out=$(mktemp)
(cd "$REPO" && go test -json -vet=off -count=1 -timeout 25m ./... > "$out" 2>/dev/null)
python3 - "$out" <<'PY'
import json,sys
passed=set(); failed=set()
for line in open(sys.argv[1]):
    try: e=json.loads(line)
    except Exception: continue
    if e.get('Test') and e.get('Action') in ('pass','fail'):
        k=e['Package']+'::'+e['Test']
        (passed if e['Action']=='pass' else failed).add(k)
base=json.load(open('/root/.vp/BASELINE.json'))
stable=base['stable_pass']
missing=[t for t in stable if t not in passed]
print(f"stable_pass={len(stable)} passed_now={len(passed)} failed_now={len(failed)} stable_not_passing={len(missing)}")
for t in missing[:40]: print("NOT PASSING:",t)
sys.exit(1 if missing else 0)
PY
rc=$?
rm -f "$out"
exit $rc
